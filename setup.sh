#!/bin/bash
# Build the overlay venv used by every check (offline; idempotent).
# /venv has tahoe-lafs' dependencies; the overlay adds crosshair-tool, z3-solver, cvc5
# from the offline wheelhouse and puts /repo/src on sys.path via a .pth file.
set -e
cd "$(dirname "$0")"
V=/verif/.venv
if [ -x "$V/bin/python" ] && "$V/bin/python" -c "import crosshair, z3" >/dev/null 2>&1; then
  exit 0
fi
LOCK=/verif/.venv.lock
exec 9>"$LOCK"
flock 9
if [ -x "$V/bin/python" ] && "$V/bin/python" -c "import crosshair, z3" >/dev/null 2>&1; then
  exit 0
fi
rm -rf "$V"
/venv/bin/python -m venv "$V"
SP=$("$V/bin/python" -c "import sysconfig; print(sysconfig.get_paths()['purelib'])")
printf '/venv/lib/python3.12/site-packages\n/repo/src\n' > "$SP/verif_overlay.pth"
PIP_NO_INDEX=1 "$V/bin/pip" install -q --no-index --find-links /opt/veriftools/wheels crosshair-tool z3-solver cvc5 >/dev/null
"$V/bin/python" -c "import crosshair, z3; print('verif venv ready', crosshair.__version__, z3.get_version_string())"
