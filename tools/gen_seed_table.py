#!/usr/bin/env python3
"""Print a DESIGN §6.4 table (seeded changes vs checks) from seeded/*/meta.json.  usage: gen_seed_table.py [r1|r2]"""
import json, glob, os, sys
which = sys.argv[1] if len(sys.argv) > 1 else "r1"
rows = []
for m in sorted(glob.glob(os.path.join(os.path.dirname(os.path.dirname(os.path.abspath(__file__))), "seeded", "*", "meta.json"))):
    d = json.load(open(m))
    rnd = d["variant"][:2] if d["variant"][:1] == "r" else "r1"
    if rnd != which:
        continue
    needs = " ".join(d["needs_to_manifest"].replace("|", "/").replace("`", "").split())
    if len(needs) > 260:
        needs = needs[:257].rsplit(" ", 1)[0] + " …"
    rows.append("| %s-%s | %s | %s |" % (d["property"], d["variant"], needs, d["check_result"].replace("|", "/")))
print("| seeded change | needs in order to manifest | result of the property's check |\n|---|---|---|")
print("\n".join(rows))
