#!/usr/bin/env python3
"""Print the DESIGN §6.4 table (seeded changes vs checks) from seeded/*/meta.json."""
import json, glob, os
rows = []
for m in sorted(glob.glob(os.path.join(os.path.dirname(os.path.dirname(os.path.abspath(__file__))), "seeded", "*", "meta.json"))):
    d = json.load(open(m))
    rows.append("| %s-%s | %s | %s |" % (d["property"], d["variant"], d["needs_to_manifest"].replace("|", "/"), d["check_result"].replace("|", "/")))
print("| seeded change | needs in order to manifest | result of the property's check |\n|---|---|---|")
print("\n".join(rows))
