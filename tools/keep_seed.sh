#!/bin/bash
# usage: keep_seed.sh <PROP> <a|b> "<needs to manifest>" "<caught by / missed by>"
# Re-confirms (demo fails with / passes without / suite 151 pass with) in a scratch worktree, then stores under /verif/seeded/<PROP>-<v>/
P=$1; V=$2; NEEDS=$3; CAUGHT=$4
SEEDROOT=${SEEDROOT:-/tmp/seed}; TAG=${SEEDTAG:-}   # round 2: SEEDROOT=/tmp/seed2 SEEDTAG=r2
D=$SEEDROOT/$P/$V; O=/verif/seeded/$P-$TAG$V
W=$(/verif/tools/mkwt.sh keep_${P}_$TAG$V)
git -C $W apply "$D/patch.diff" || { echo "patch does not apply to current HEAD"; git -C /repo worktree remove --force $W; exit 2; }
(cd $D && TAHOE_SRC=$W/src timeout 900 /venv/bin/python demo.py >/tmp/seedsrc/kw.$$.$P$V 2>&1); RCW=$?
(cd $D && TAHOE_SRC=/repo/src timeout 900 /venv/bin/python demo.py >/tmp/seedsrc/ko.$$.$P$V 2>&1); RCO=$?
SUITE=$(cd $W && timeout 1500 /venv/bin/python -m pytest -q -p no:cacheprovider --timeout=900 --continue-on-collection-errors 2>&1 | tail -1)
git -C /repo worktree remove --force $W
echo "demo with change rc=$RCW; without rc=$RCO; suite: $SUITE"
case "$SUITE" in *"151 passed"*) ;; *) echo "SUITE NOT 151 PASSED - not keeping"; exit 3;; esac
if [ $RCW -eq 0 ] || [ $RCO -ne 0 ]; then echo "DEMO DOES NOT DISCRIMINATE - not keeping"; exit 3; fi
mkdir -p $O; cp $D/patch.diff $O/; cp $D/*.py $O/ 2>/dev/null; [ -f $SEEDROOT/$P/minigrid.py ] && cp $SEEDROOT/$P/minigrid.py $O/; cp $D/notes.md $O/ 2>/dev/null
python3 - "$P" "$TAG$V" "$NEEDS" "$CAUGHT" "$RCW" "$RCO" "$SUITE" <<'PY'
import json, sys, subprocess
P, V, NEEDS, CAUGHT, RCW, RCO, SUITE = sys.argv[1:8]
head = subprocess.check_output(["git", "-C", "/repo", "log", "-1", "--format=%h"]).decode().strip()
json.dump({"property": P, "variant": V, "breaks": "see notes.md (written by the independent sub-agent that authored the change)",
           "needs_to_manifest": NEEDS, "confirmed": {"repo_head": head,
           "demo_with_change_exit": int(RCW), "demo_without_change_exit": int(RCO), "suite_with_change": SUITE,
           "how": "patch applied in a scratch git worktree of /repo HEAD (never in /repo): demo.py with TAHOE_SRC=<worktree>/src fails, with TAHOE_SRC=/repo/src passes; baseline pytest command run in the worktree"},
           "check_result": CAUGHT, "how_checked": "tools/try_seed.sh: ./check %s --tier quick with VERIF_REPO_SRC=<patched worktree>/src" % P},
          open("/verif/seeded/%s-%s/meta.json" % (P, V), "w"), indent=1)
PY
rm -f /tmp/seedsrc/kw.$$.$P$V /tmp/seedsrc/ko.$$.$P$V
echo kept $O
