#!/usr/bin/env python3
"""round-2 seeding prompt: as seed_prompt.py, plus a list of sites already used in round 1 (to be avoided)"""
import json, sys, os, re, glob, subprocess
pid = sys.argv[1]
base = subprocess.check_output([sys.executable, "/verif/tools/seed_prompt.py", pid]).decode()
base = base.replace("/tmp/wt/seed_" + pid, "/tmp/wt/seed2_" + pid).replace("/tmp/seed/" + pid, "/tmp/seed2/" + pid)
sites = []
for d in sorted(glob.glob("/verif/seeded/%s-*/meta.json" % pid)):
    meta = json.load(open(d))
    files = sorted(set(l[6:].strip() for l in open(os.path.dirname(d) + "/patch.diff") if l.startswith("+++ b/")))
    sites.append("%s — an earlier change there manifested with: %s" % (", ".join(files), meta["needs_to_manifest"]))
avoid = "\n".join(" * " + s for s in sorted(set(sites)))
extra = ("\n\nIMPORTANT — earlier rounds already produced the following changes; do NOT repeat these ideas or their close variants, and prefer "
         "mechanisms, functions and failure modes that are DIFFERENT from the obvious ones (other clauses of the property, "
         "other anchored files, interactions between two functions, boundary values of other parameters):\n" + avoid + "\n")
print(base.replace("\nTHE PROPERTY (", extra + "\nTHE PROPERTY ("))
