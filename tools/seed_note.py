#!/usr/bin/env python3
"""usage: seed_note.py <PROP> <a|b> "<new check_result text>"  -- update the recorded outcome of a kept seeded change"""
import json, sys
p = "/verif/seeded/%s-%s/meta.json" % (sys.argv[1], sys.argv[2])
d = json.load(open(p)); d["check_result"] = sys.argv[3]; json.dump(d, open(p, "w"), indent=1)
