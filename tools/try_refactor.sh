#!/bin/bash
# usage: try_refactor.sh <dir-with-patch.diff> <PROP> [check args]: a behaviour-preserving change must NOT raise an alarm
D=$(realpath "$1"); P=$2; shift 2
W=$(/verif/tools/mkwt.sh tryref_${P}_$$)
if ! git -C $W apply "$D/patch.diff"; then echo "PATCH DOES NOT APPLY"; git -C /repo worktree remove --force $W; exit 2; fi
echo "== diffstat: $(git -C $W diff --shortstat)"
[ -n "$SKIP_SUITE" ] || echo "== test suite with change: $(cd $W && timeout 1500 /venv/bin/python -m pytest -q -p no:cacheprovider --timeout=900 --continue-on-collection-errors 2>&1 | tail -1)"
echo "== check $P against refactored sources"
(cd /verif && VERIF_REPO_SRC=$W/src ./check $P --no-evidence "$@" 2>&1 | grep -E "^(VIOLATION|SUMMARY|INCONCLUSIVE|ERROR|VIOLATED)|^    obligation" | cut -c1-260)
git -C /repo worktree remove --force $W
