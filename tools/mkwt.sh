#!/bin/bash
# usage: mkwt.sh <name>  -> creates scratch worktree /tmp/wt/<name> of /repo HEAD (detached), with the generated _version.py
set -e
W=/tmp/wt/$1
git -C /repo worktree add --detach -f "$W" HEAD >/dev/null 2>&1
cp /repo/src/allmydata/_version.py "$W/src/allmydata/_version.py"
echo "$W"
