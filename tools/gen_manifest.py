#!/usr/bin/env python3
"""Regenerate /verif/MANIFEST.json from props/*.py and tools/not_applicable.json."""
import importlib, json, os, sys, glob
ROOT = os.path.dirname(os.path.dirname(os.path.abspath(__file__)))
sys.path[:0] = [ROOT, os.path.join(ROOT, "harness")]
props = [json.loads(l) for l in open(os.path.join(ROOT, "properties.jsonl"))]
ids = [p["id"] for p in props]
na_path = os.path.join(ROOT, "tools", "not_applicable.json")
NA = json.load(open(na_path)) if os.path.exists(na_path) else {}
baseline = json.load(open("/root/.vp/BASELINE.json"))["cmd"].replace("--junitxml=<file>", "--junitxml=/tmp/verif_baseline.junit.xml")
CLAIMED = json.load(open(os.path.join(ROOT, "tools", "claimed.json")))  # only checks confirmed on the clean tree
checks = []
not_applicable = []
for pid in ids:
    path = os.path.join(ROOT, "props", pid + ".py")
    if os.path.exists(path) and pid not in NA and pid in CLAIMED:
        pm = importlib.import_module("props." + pid)
        checks.append({
            "property_id": pid,
            "quick_cmd": "./check %s --tier quick" % pid,
            "thorough_cmd": "./check %s --tier thorough" % pid,
            "evidence_file": "/verif/evidence/%s.json" % pid,
            "replay_cmd_template": "./check --replay {path}",
            "engine": getattr(pm, "ENGINE", "crosshair+z3"),
            "level_claimed": {
                "category": "other",
                "text": getattr(pm, "LEVEL_TEXT", "Bounded symbolic checking: every obligation is decided by an SMT solver for all values within its stated bounds, on the real functions from /repo's working tree; counterexamples are replayed concretely before being reported."),
                "design_ref": "DESIGN.md §4 " + pid,
            },
            "level_note": getattr(pm, "LEVEL_NOTE", "Trusted: CrossHair 0.0.110 path exploration, z3 5.1, the harness stubs and cuts listed in the evidence file; claims hold only within the per-obligation bounds written there."),
            "technique": getattr(pm, "TECHNIQUE", "symbolic execution of the real Python functions (CrossHair) with z3 deciding every path; reachability twin per obligation; concrete replay of counterexamples"),
        })
    else:
        not_applicable.append({"property_id": pid, "reason": NA.get(pid, "no obligation built yet for this property (see DESIGN.md §4 %s); not claimed" % pid)})
man = {
    "version": 1,
    "setup_cmd": "./setup.sh",
    "hooks": {
        "guard": "TAHOE_LAFS_VERIF",
        "enable": "no source hooks: all instrumentation is done by patching module namespaces inside harness processes; the guard name is reserved and unused",
        "baseline_off_cmd": baseline,
        "source_commits": [],
        "add_only": True,
    },
    "engines": [
        {"name": "crosshair+z3", "path": "vlib/worker.py", "kind_free_text": "symbolic execution of the real Python functions (CrossHair 0.0.110) deciding each path with z3 5.1; harnesses in harness/", "serves_properties": [c["property_id"] for c in checks]},
        {"name": "z3-direct", "path": "vlib/rx.py", "kind_free_text": "regular-language / integer queries generated from live module objects (compiled regexes, tables, format strings) and discharged by z3 (cross-checked with cvc5)", "serves_properties": [c["property_id"] for c in checks if "z3" in c["engine"] and "direct" in c["engine"]]},
    ],
    "checks": checks,
    "not_applicable": not_applicable,
    "notes": "Entry point ./check <ID> --tier quick|thorough. Exit 0 unless a replay-confirmed violation not listed in known_findings.json was found (exit 1, VIOLATION line). Inconclusive obligations are printed and counted in evidence, never reported as success. See DESIGN.md.",
}
json.dump(man, open(os.path.join(ROOT, "MANIFEST.json"), "w"), indent=1)
print("checks:", len(checks), "not_applicable:", len(not_applicable))
