#!/usr/bin/env python3
"""Print the DESIGN §6.6 table from props/*.py, evidence/*.json and seeded/*/meta.json."""
import importlib, json, os, sys, glob
ROOT = os.path.dirname(os.path.dirname(os.path.abspath(__file__)))
sys.path[:0] = [ROOT, os.path.join(ROOT, "harness")]
claimed = json.load(open(os.path.join(ROOT, "tools", "claimed.json")))
def outcome(pid, v):
    p = os.path.join(ROOT, "seeded", "%s-%s" % (pid, v), "meta.json")
    if not os.path.exists(p):
        return "-"
    c = json.load(open(p))["check_result"]
    lc = c.lower()
    if lc.startswith("caught"):
        return "caught"
    if "caught after" in lc or ("first missed" in lc and "caught" in lc) or ("initially missed" in lc and "caught" in lc):
        return "caught after strengthening"
    if "caught by" in lc:
        return "caught by neighbour"
    return "missed"
print("| property | obligations | cases quick / thorough | paths+queries (quick) | engine CPU s (quick) | seeded changes round 1 (a, b) | round 2 (a, b) |\n|---|---|---|---|---|---|---|")
for pid in claimed:
    pm = importlib.import_module("props." + pid)
    nq = sum(len(o.expand("quick")) for o in pm.OBLIGATIONS if "quick" in o.tiers)
    nt = sum(len(o.expand("thorough")) for o in pm.OBLIGATIONS if "thorough" in o.tiers)
    ev = {}
    ep = os.path.join(ROOT, "evidence", pid + ".json")
    if os.path.exists(ep):
        ev = json.load(open(ep)).get("coverage", {})
    print("| %s | %d | %d / %d | %s | %s | %s; %s | %s; %s |" % (pid, len(pm.OBLIGATIONS), nq, nt, ev.get("evaluations", "?"),
          int(round(ev.get("engine_cpu_s", 0))), outcome(pid, "a"), outcome(pid, "b"), outcome(pid, "r2a"), outcome(pid, "r2b")))
