#!/usr/bin/env python3
"""print the seeding prompt for one property id (gives the agent ONLY the property text, no /verif material)"""
import json, sys, os
pid = sys.argv[1]
rec = [json.loads(l) for l in open('/verif/properties.jsonl') if json.loads(l)['id'] == pid][0]
text = "Title: %s\n\nStatement: %s\n\nQuantified over: %s\n\nWhy tests cannot settle it: %s\n\nAnchored in files: %s\nMechanisms: %s" % (
    rec['title'], rec['statement'], rec['quantifier']['text'], rec['why_tests_cant'], ", ".join(rec['anchors']['files']),
    "; ".join("%s (%s)" % (m.get('name'), m.get('where')) for m in rec['anchors'].get('mechanism', [])))
t = open('/verif/tools/seeder_prompt.md').read()
print(t.replace("{WT}", "/tmp/wt/seed_" + pid).replace("{OUT}", "/tmp/seed/" + pid).replace("{ID}", pid).replace("{PROPTEXT}", text))
