#!/bin/bash
# usage: try_seed.sh <dir-with-patch.diff-and-demo.py> <PROP> [more check args]
# Confirms a seeded change in a scratch copy (never in /repo): demo fails with / passes without, test suite passes with,
# then runs the property's quick check against the patched sources via VERIF_REPO_SRC.
D=$(realpath "$1"); P=$2; shift 2
X=/tmp/seedsrc/$P_$$; rm -rf $X; mkdir -p $X
W=$(/verif/tools/mkwt.sh try_${P}_$$)
if ! git -C $W apply "$D/patch.diff"; then echo "PATCH DOES NOT APPLY"; git -C /repo worktree remove --force $W; exit 2; fi
echo "== demo with change (expect failure)"; (cd $D && TAHOE_SRC=$W/src timeout 600 /venv/bin/python demo.py >/tmp/seedsrc/demo_with.$$ 2>&1; echo "rc=$?"; tail -3 /tmp/seedsrc/demo_with.$$)
echo "== demo without change (expect pass)"; (cd $D && TAHOE_SRC=/repo/src timeout 600 /venv/bin/python demo.py >/tmp/seedsrc/demo_without.$$ 2>&1; echo "rc=$?"; tail -2 /tmp/seedsrc/demo_without.$$)
if [ -z "$SKIP_SUITE" ]; then echo "== test suite with change"; (cd $W && timeout 1500 /venv/bin/python -m pytest -q -p no:cacheprovider --timeout=900 --continue-on-collection-errors 2>&1 | tail -1); fi
echo "== check $P against patched sources"
(cd /verif && VERIF_REPO_SRC=$W/src ./check $P --no-evidence "$@" 2>&1 | grep -E "^(VIOLATION|SUMMARY|KNOWN|INCONCLUSIVE|ERROR|VIOLATED)" | cut -c1-220)
git -C /repo worktree remove --force $W; rm -f /tmp/seedsrc/demo_with.$$ /tmp/seedsrc/demo_without.$$; rmdir $X 2>/dev/null
