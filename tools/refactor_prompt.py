#!/usr/bin/env python3
import json, sys
pid = sys.argv[1]
rec = [json.loads(l) for l in open('/verif/properties.jsonl') if json.loads(l)['id'] == pid][0]
text = "Title: %s\n\nStatement: %s\n\nAnchored in files: %s\nMechanisms: %s" % (
    rec['title'], rec['statement'], ", ".join(rec['anchors']['files']),
    "; ".join("%s (%s)" % (m.get('name'), m.get('where')) for m in rec['anchors'].get('mechanism', [])))
t = open('/verif/tools/refactor_prompt.md').read()
print(t.replace("{WT}", "/tmp/wt/ref_" + pid).replace("{OUT}", "/tmp/refac/" + pid).replace("{ID}", pid).replace("{PROPTEXT}", text))
