#!/usr/bin/env python3
"""Print DESIGN §6.5: per-property list of obligations as built (from props/*.py)."""
import importlib, json, os, sys
ROOT = os.path.dirname(os.path.dirname(os.path.abspath(__file__)))
sys.path[:0] = [ROOT, os.path.join(ROOT, "harness")]
os.environ["VERIF_TIMEOUT_SCALE_QUICK"] = "1"; os.environ["VERIF_TIMEOUT_SCALE_THOROUGH"] = "1"
claimed = json.load(open(os.path.join(ROOT, "tools", "claimed.json")))
titles = {json.loads(l)["id"]: json.loads(l)["title"] for l in open(os.path.join(ROOT, "properties.jsonl"))}
for pid in claimed:
    pm = importlib.import_module("props." + pid)
    nq = sum(len(o.expand("quick")) for o in pm.OBLIGATIONS if "quick" in o.tiers)
    nt = sum(len(o.expand("thorough")) for o in pm.OBLIGATIONS if "thorough" in o.tiers)
    print("#### %s %s — %d obligations (%d cases quick, %d thorough)\n" % (pid, titles[pid], len(pm.OBLIGATIONS), nq, nt))
    for o in pm.OBLIGATIONS:
        kind = "CrossHair" if o.kind == "chx" else "z3/cvc5"
        tiers = "" if set(o.tiers) == {"quick", "thorough"} else " (%s only)" % "/".join(o.tiers)
        d = " ".join(o.desc.split())
        if len(d) > 330: d = d[:327] + "..."
        out = (" *Outside:* " + " ".join(o.outside.split())[:200]) if o.outside else ""
        print("* `%s` [%s]%s — %s%s" % (o.name, kind, tiers, d, out))
    a = getattr(pm, "ASSUMPTIONS", [])
    if a:
        print("\n  Assumptions: " + "; ".join(" ".join(x.split())[:160] for x in a[:6]))
    print()
