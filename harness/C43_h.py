"""
C43 - node and capability identity: ==, != and hash() of the real cap classes (uri._BaseURI and all its
subclasses) and of the real node classes (ImmutableFileNode, LiteralFileNode, MutableFileNode, DirectoryNode,
UnknownNode, CiphertextFileNode).

Oracle (from the property statement, not from the code):
    a == b  <=>  b is an object of the same family (cap vs cap; node vs node of the same node class) and the
                 capability strings are equal
    (a != b) == not (a == b)   always, in both operand orders, also for foreign objects
    a == b  =>  hash(a) == hash(b)
    nodes of different node classes never compare equal, caps never equal nodes / strings / None / ints

Three ways of driving the real comparison methods:
  * stand-ins: objects of the REAL classes made with Class.__new__(Class); a cap stand-in gets an instance
    attribute `to_string` that returns a token (chosen by a symbolic index from TOK, or a short symbolic
    `bytes`); a node stand-in gets only the attributes the comparison methods and get_uri() read;
  * real caps built with the real constructors from key tables (real to_string / base32 / hashutil);
  * real nodes built by the real NodeMaker.create_from_cap from real cap strings.
"""
from vlib import hlib
from vlib.hlib import NS
hlib.ensure_shims()
from allmydata import uri as U
from allmydata.immutable.filenode import ImmutableFileNode, CiphertextFileNode
from allmydata.immutable.literal import LiteralFileNode, _ImmutableFileNodeBase
from allmydata.mutable.filenode import MutableFileNode
from allmydata.dirnode import DirectoryNode
from allmydata.unknown import UnknownNode
from allmydata.nodemaker import NodeMaker

import base64 as _base64
from allmydata.util import base32 as _base32


class _NativeBase64(object):
    """base64.b32encode/b32decode executed natively.  CrossHair replaces base64 by a symbolic model even for concrete
    arguments (measured: ~0.2 s per to_string()); all arguments here are concrete table entries."""

    @staticmethod
    def b32encode(b):
        from crosshair.tracers import NoTracing
        from crosshair.core import deep_realize
        with NoTracing():
            return _base64.b32encode(deep_realize(b))

    @staticmethod
    def b32decode(b):
        from crosshair.tracers import NoTracing
        from crosshair.core import deep_realize
        with NoTracing():
            return _base64.b32decode(deep_realize(b))


_base32.base64 = _NativeBase64

B = hlib.bounds()
EXCLUDED = []     # witness classes listed in known_findings.json (filled in by the worker)
NOTES = [
    "allmydata.util.base32's name `base64` replaced by a wrapper that runs the same C functions outside CrossHair's tracing (concrete arguments only)",
    "cap stand-ins: real uri classes instantiated with __new__; instance attribute to_string returns a token (no key material)",
    "node stand-ins: real node classes instantiated with __new__; only u / _uri / _node / _verifycap / rw_uri / ro_uri / error are set",
    "cap_real / nodes_real: the real caps and the real nodes (NodeMaker.create_from_cap) are built once at import, outside tracing; "
    "the harness functions select them by symbolic index and run the comparisons under CrossHair",
    "hash(x) is taken as x.__hash__() (CrossHair's builtin hash() patch is unstable on objects with object.__hash__)",
    "nodes_real: NodeMaker(storage_broker=None, secret_holder=None, history=None, uploader=None, terminator=recorder, "
    "default_encoding_parameters={k:3,n:10}); no network object is touched by node construction or comparison",
]

hlib.encoded(U._BaseURI.__eq__, U._BaseURI.__ne__, U._BaseURI.__hash__,
             ImmutableFileNode.__eq__, ImmutableFileNode.__ne__, ImmutableFileNode.__hash__, ImmutableFileNode.get_uri,
             _ImmutableFileNodeBase.__eq__, _ImmutableFileNodeBase.__ne__, _ImmutableFileNodeBase.__hash__,
             LiteralFileNode.get_uri,
             MutableFileNode.__eq__, MutableFileNode.__ne__, MutableFileNode.__hash__, MutableFileNode.get_uri,
             MutableFileNode.init_from_cap,
             CiphertextFileNode,
             UnknownNode.__eq__, UnknownNode.__ne__, UnknownNode.get_uri,
             NodeMaker.create_from_cap, NodeMaker._create_from_single_cap)

# DirectoryNode: comparison methods were added by a fix: commit; before that the class compared by identity
for _m in ("__eq__", "__ne__", "__hash__"):
    if _m in DirectoryNode.__dict__:
        hlib.encoded(DirectoryNode.__dict__[_m])
    else:
        hlib.NOTES.append("DirectoryNode defines no %s (object identity is used)" % _m)

# ---------------------------------------------------------------------------------------------------------
# tokens and stand-ins
# ---------------------------------------------------------------------------------------------------------
# distinct concrete "cap strings"; some are prefixes of / one byte away from others on purpose
TOK = [b"URI:T:aaaa", b"URI:T:aaab", b"URI:T:", b"URI:T:baaa", b"URI:T:aaaa:", b"URJ:T:aaaa", b"", b"URI:T:aaaA"]


class _HarnessCap(U._BaseURI):
    """A _BaseURI subclass that is not part of uri.py (a 'future' cap kind)."""

    def to_string(self):
        return self._tok


CAP_CLASSES = [U.CHKFileURI, U.CHKFileVerifierURI, U.LiteralFileURI,
               U.WriteableSSKFileURI, U.ReadonlySSKFileURI, U.SSKVerifierURI,
               U.WriteableMDMFFileURI, U.ReadonlyMDMFFileURI, U.MDMFVerifierURI,
               U.DirectoryURI, U.ReadonlyDirectoryURI, U.ImmutableDirectoryURI, U.LiteralDirectoryURI,
               U.MDMFDirectoryURI, U.ReadonlyMDMFDirectoryURI,
               U.DirectoryURIVerifier, U.ImmutableDirectoryURIVerifier, U.MDMFDirectoryURIVerifier,
               _HarnessCap]
NCAP = len(CAP_CLASSES)
for _c in CAP_CLASSES:
    if not issubclass(_c, U._BaseURI):
        raise hlib.HarnessError("%r is not a _BaseURI any more" % (_c,))


def _conc(i, n):
    """Concrete int equal to the (possibly symbolic) index i in range(n): one fork per value.  Indexing a list of
    classes with a symbolic int would give CrossHair's SymbolicType, which object.__new__ rejects."""
    for v in range(n):
        if i == v:
            return v
    raise hlib.HarnessError("index out of range")


def _tok(i):
    return TOK[_conc(i, len(TOK))]


def _standin(k, tok):
    cls = CAP_CLASSES[_conc(k, NCAP)]
    o = cls.__new__(cls)
    if cls is _HarnessCap:
        o._tok = tok
    else:
        o.to_string = lambda: tok
    return o


class _Duck(object):
    """Not a cap: merely has a to_string()."""

    def __init__(self, tok):
        self.tok = tok

    def to_string(self):
        return self.tok


class _Plain(object):
    pass


NFOREIGN = 6


def _foreign(fk, tok, fint, holder):
    if fk == 0:
        return None
    if fk == 1:
        return fint
    if fk == 2:
        return tok                      # the capability STRING is not a capability object
    if fk == 3:
        return _Duck(tok)
    if fk == 4:
        return _Plain()
    return holder                       # something that merely contains the object (a list)


def _h(x):
    """hash(x).  Written as x.__hash__() because CrossHair's patched builtin hash() is not stable on objects that use
    object.__hash__ (measured: hash(o) == hash(o) refuted for a plain object); unhashable objects raise as hash() does."""
    if type(x).__hash__ is None:
        raise TypeError("unhashable type")
    return x.__hash__()


def _pair(a, b, want_eq, check_hash=True):
    """The property, on one ordered pair.  Returns True or a description."""
    eq1 = bool(a == b)
    ne1 = bool(a != b)
    eq2 = bool(b == a)
    ne2 = bool(b != a)
    if ne1 == eq1:
        return "(a != b) is not the negation of (a == b)"
    if ne2 == eq2:
        return "(b != a) is not the negation of (b == a)"
    if eq1 != eq2:
        return "== is not symmetric"
    if eq1 != want_eq:
        if want_eq:
            return "objects with equal capability strings compare unequal"      # == _MSG_UNEQUAL
        return "objects compare equal although they are not same-kind objects with equal capability strings"
    if check_hash and eq1:
        if _h(a) != _h(b):
            return "equal objects hash differently"
    return True


def _self_checks(a, check_hash=True):
    if not bool(a == a) or bool(a != a):
        return "object is not equal to itself"
    if check_hash and _h(a) != _h(a):
        return "hash is not stable"
    return True


# ---------------------------------------------------------------------------------------------------------
# 1. caps: stand-ins with tokens
# ---------------------------------------------------------------------------------------------------------

def _bkind(ka, sel, kb):
    """class index of the other cap: sel 0 -> same class, 1 -> the symbolic kb, 2 -> harness-defined subclass."""
    if sel == 0:
        return ka
    if sel == 1:
        return kb
    return NCAP - 1


def h_cap_tokens(ka: int, ta: int, sel: int, kb: int, tb: int, fk: int, fint: int) -> bool:
    """
    pre: 0 <= ka < NCAP and 0 <= kb < NCAP and 0 <= sel <= 3
    pre: 0 <= ta < B.get("ntok", 3) and 0 <= tb < B.get("ntok", 3)
    pre: 0 <= fk < NFOREIGN
    pre: sel == 1 or kb == 0
    pre: sel == 3 or fk == 0
    pre: B.get("full_kb", False) or kb == 0 or kb == (ka + 1) % NCAP
    post: _ == True
    """
    ka, kb, sel, fk = _conc(ka, NCAP), _conc(kb, NCAP), _conc(sel, 4), _conc(fk, NFOREIGN)
    a = _standin(ka, _tok(ta))
    r = _self_checks(a)
    if r is not True:
        return r
    if sel == 3:
        b = _foreign(fk, _tok(ta), fint, [a])
        return _pair(a, b, False, check_hash=False)
    b = _standin(_bkind(ka, sel, kb), _tok(tb))
    return _pair(a, b, ta == tb)


def h_cap_symbytes(ka: int, sa: bytes, sel: int, kb: int, sb: bytes, fk: int, fint: int) -> bool:
    """
    pre: 0 <= ka < NCAP and 0 <= kb < NCAP and 0 <= sel <= 3
    pre: len(sa) <= B.get("toklen", 2) and len(sb) <= B.get("toklen", 2)
    pre: 0 <= fk < NFOREIGN
    pre: sel == 1 or kb == 0
    pre: sel == 3 or fk == 0
    pre: B.get("ka") is None or ka in B["ka"]
    pre: B.get("full_kb", False) or kb <= 1 or kb == NCAP - 2
    post: _ == True
    """
    ka, kb, sel, fk = _conc(ka, NCAP), _conc(kb, NCAP), _conc(sel, 4), _conc(fk, NFOREIGN)
    a = _standin(ka, sa)
    if sel == 3:
        b = _foreign(fk, sa, fint, [a])
        return _pair(a, b, False, check_hash=False)
    b = _standin(_bkind(ka, sel, kb), sb)
    # hash() of a symbolic byte string realises it (value-by-value enumeration): hashes are checked in the token variants
    return _pair(a, b, sa == sb, check_hash=False)


# ---------------------------------------------------------------------------------------------------------
# 2. caps: real objects from the real constructors
# ---------------------------------------------------------------------------------------------------------
KEYS = [b"\x00" * 16, b"\x00" * 15 + b"\x01", b"k" * 16, b"\x80" + b"\x00" * 15]
FPS = [b"\x00" * 32, b"\x00" * 31 + b"\x01", b"f" * 32]
LITS = [b"a", b"b", b"", b"ab"]        # the first two have equal length on purpose


def _real_file_cap(fkind, i, j):
    """fkind: 0 CHK, 1 LIT, 2 SSK, 3 SSK-RO, 4 MDMF, 5 MDMF-RO, 6 CHK-Verifier, 7 SSK-Verifier, 8 MDMF-Verifier."""
    key, fp = KEYS[i], FPS[j]
    if fkind == 0:
        return U.CHKFileURI(key, fp, 3, 10, 1000)
    if fkind == 1:
        return U.LiteralFileURI(LITS[i])
    if fkind == 2:
        return U.WriteableSSKFileURI(key, fp)
    if fkind == 3:
        return U.ReadonlySSKFileURI(key, fp)
    if fkind == 4:
        return U.WriteableMDMFFileURI(key, fp)
    if fkind == 5:
        return U.ReadonlyMDMFFileURI(key, fp)
    if fkind == 6:
        return U.CHKFileVerifierURI(key, fp, 3, 10, 1000)
    if fkind == 7:
        return U.SSKVerifierURI(key, fp)
    return U.MDMFVerifierURI(key, fp)


_DIRV = [U.ImmutableDirectoryURIVerifier, U.DirectoryURIVerifier, U.MDMFDirectoryURIVerifier]
NREAL = 18


def _real_cap(k, i, j):
    """k 0..8 file caps as above; 9..14 directory wrappers of 0..5; 15..17 directory verifiers of 6..8."""
    if k < 9:
        return _real_file_cap(k, i, j)
    if k < 15:
        return U.wrap_dirnode_cap(_real_file_cap(k - 9, i, j))
    return _DIRV[k - 15](_real_file_cap(k - 15 + 6, i, j))


# built once at import (plain interpreter speed; the constructors are not the subject here, the comparisons are)
REAL = [[[_real_cap(k, i, j) for j in range(len(FPS))] for i in range(len(KEYS))] for k in range(NREAL)]
REAL2 = [[[_real_cap(k, i, j) for j in range(len(FPS))] for i in range(len(KEYS))] for k in range(NREAL)]   # distinct objects


def h_cap_real(ka: int, ia: int, ja: int, sel: int, kb: int, ib: int, jb: int) -> bool:
    """
    pre: 0 <= ka < NREAL and 0 <= kb < NREAL and 0 <= sel <= 2
    pre: sel != 2 or (ib == 0 and 0 <= jb < NFOREIGN and (B.get("full_kb", False) or (ia == 0 and ja == 0)))
    pre: 0 <= ia < B.get("nkey", 2) and 0 <= ib < B.get("nkey", 2)
    pre: 0 <= ja < B.get("nfp", 2) and (sel == 2 or 0 <= jb < B.get("nfp", 2))
    pre: sel == 1 or kb == 2
    pre: B.get("full_kb", False) or (kb in (2, 10, 17) and (sel != 1 or (ib == ia and jb == ja)))
    pre: B.get("ka") is None or ka in B["ka"]
    post: _ == True
    """
    ka, kb = _conc(ka, NREAL), _conc(kb, NREAL)
    ia, ib, ja, jb = _conc(ia, len(KEYS)), _conc(ib, len(KEYS)), _conc(ja, len(FPS)), _conc(jb, NFOREIGN)
    a = REAL[ka][ia][ja]
    if sel == 2:
        # foreign operand (jb selects which): None, int, the capability string itself, a duck, a plain object, a list
        return _pair(a, _foreign(jb, a.to_string(), ib, [a]), False, check_hash=False)
    k2 = ka if sel == 0 else kb
    b = REAL2[k2][ib][jb]
    sa, sb = a.to_string(), b.to_string()
    same_fields = (ka == k2 and ia == ib and (ja == jb or ka in (1, 10)))   # LIT and DIR2-LIT have no second field
    if (sa == sb) != same_fields:
        return "capability strings are not in bijection with (kind, secrets) [C15 territory]"
    r = _self_checks(a)
    if r is not True:
        return r
    return _pair(a, b, same_fields)


# ---------------------------------------------------------------------------------------------------------
# 3. nodes: stand-ins
# ---------------------------------------------------------------------------------------------------------
N_IMM, N_LIT, N_MUT, N_DIR, N_CIPHER = 0, 1, 2, 3, 4
NNODE = 5
# cap classes (indices into CAP_CLASSES) that the real constructors put into each node class
NODE_CAPS = {N_IMM: [0], N_LIT: [2], N_MUT: [3, 4, 6, 7], N_DIR: [9, 10, 11, 12, 13, 14], N_CIPHER: [1]}


def _mk_node(nk, cap):
    if nk == N_IMM:
        n = ImmutableFileNode.__new__(ImmutableFileNode)
        n.u = cap
        n._readkey = None
        n._cnode = None
        return n
    if nk == N_LIT:
        n = LiteralFileNode.__new__(LiteralFileNode)
        n.u = cap
        return n
    if nk == N_MUT:
        n = MutableFileNode.__new__(MutableFileNode)
        n._uri = cap
        return n
    if nk == N_DIR:
        n = DirectoryNode.__new__(DirectoryNode)
        inner = MutableFileNode.__new__(MutableFileNode)
        inner._uri = cap
        n._node = inner
        n._uri = cap
        n._nodemaker = None
        n._uploader = None
        return n
    n = CiphertextFileNode.__new__(CiphertextFileNode)
    n._verifycap = cap
    return n


def _node_uri(nk, n):
    if nk == N_CIPHER:
        return n.get_verify_cap().to_string()
    return n.get_uri()


_HASHABLE = (N_IMM, N_LIT, N_MUT, N_DIR, N_CIPHER)
IDENTITY_CLASS = {N_DIR: "DirectoryNode-compares-by-identity", N_CIPHER: "CiphertextFileNode-compares-by-identity"}


def _node_pair(na, a, b, want_eq, check_hash=True):
    """_pair, with the known-finding exclusion for node classes that define no comparison at all."""
    if want_eq and a is not b and IDENTITY_CLASS.get(na) in EXCLUDED:
        # listed finding: the class defines no __eq__; everything except "equal strings => equal" is still checked
        want_eq = bool(a == b)
    return _pair(a, b, want_eq, check_hash=check_hash)


def h_node_tokens(na: int, ca: int, ta: int, nb: int, share: bool, cb: int, tb: int, fk: int, fint: int) -> bool:
    """
    pre: 0 <= na < NNODE and (B.get("na") is None or na in B["na"])
    pre: 0 <= nb <= NNODE
    pre: 0 <= ca < len(NODE_CAPS[na]) and 0 <= ta < B.get("ntok", 3) and 0 <= tb < B.get("ntok", 3)
    pre: 0 <= cb < (len(NODE_CAPS[nb]) if nb < NNODE else 1)
    pre: B.get("full", False) or ((ca == 0 or ca == len(NODE_CAPS[na]) - 1) and cb <= 1)
    pre: 0 <= fk < NFOREIGN + 2
    pre: nb == NNODE or fk == 0
    pre: not share or (cb == 0 and tb == 0)
    post: _ == True
    """
    na, nb, ca, cb, fk = _conc(na, NNODE), _conc(nb, NNODE + 1), _conc(ca, 6), _conc(cb, 6), _conc(fk, NFOREIGN + 2)
    tok = _tok(ta)
    cap = _standin(NODE_CAPS[na][ca], tok)
    a = _mk_node(na, cap)
    if _node_uri(na, a) != tok:
        raise hlib.HarnessError("stand-in node does not report its token as capability string")
    r = _self_checks(a)
    if r is not True:
        return r
    if nb == NNODE:
        # foreign objects, including the node's own cap object and the cap string
        if fk == NFOREIGN:
            b = cap
        elif fk == NFOREIGN + 1:
            b = _standin(NCAP - 1, tok)
        else:
            b = _foreign(fk, tok, fint, [a])
        return _pair(a, b, False, check_hash=False)
    if share:
        # a node of class nb around THE SAME cap object (for nb != na this state is synthetic: the real
        # constructors never put one cap class into two node classes; the classes must still not be confused)
        b = _mk_node(nb, cap)
        return _node_pair(na, a, b, nb == na)
    capb = _standin(NODE_CAPS[nb][cb], _tok(tb))
    b = _mk_node(nb, capb)
    return _node_pair(na, a, b, nb == na and ta == tb)


def h_node_symbytes(na: int, sa: bytes, nb: int, sb: bytes) -> bool:
    """
    pre: 0 <= na < NNODE and (B.get("na") is None or na in B["na"])
    pre: 0 <= nb < NNODE
    pre: len(sa) <= B.get("toklen", 2) and len(sb) <= B.get("toklen", 2)
    post: _ == True
    """
    na, nb = _conc(na, NNODE), _conc(nb, NNODE)
    a = _mk_node(na, _standin(NODE_CAPS[na][0], sa))
    b = _mk_node(nb, _standin(NODE_CAPS[nb][0], sb))
    # no hash() here: hashing a symbolic byte string enumerates its values (hashes are checked in node_tokens)
    return _node_pair(na, a, b, nb == na and sa == sb, check_hash=False)


# ---------------------------------------------------------------------------------------------------------
# 4. UnknownNode (two capability strings)
# ---------------------------------------------------------------------------------------------------------

def _opt_tok(i):
    return None if i == 0 else _tok(i - 1)


def _mk_unknown(rw, ro):
    n = UnknownNode.__new__(UnknownNode)
    n.error = None
    n.rw_uri = _opt_tok(rw)
    n.ro_uri = _opt_tok(ro)
    return n


def h_unknown_node(rwa: int, roa: int, sel: int, rwb: int, rob: int, nb: int, fk: int, fint: int) -> bool:
    """
    pre: 0 <= rwa <= B.get("ntok", 2) and 0 <= roa <= B.get("ntok", 2)
    pre: 0 <= rwb <= B.get("ntok", 2) and 0 <= rob <= B.get("ntok", 2)
    pre: 0 <= sel <= 2 and 0 <= nb < NNODE and 0 <= fk < NFOREIGN
    pre: sel == 1 or nb == 0
    pre: sel == 2 or fk == 0
    pre: sel == 0 or (rwb == 0 and rob == 0)
    post: _ == True
    """
    nb, fk, sel = _conc(nb, NNODE), _conc(fk, NFOREIGN), _conc(sel, 3)
    rwa, roa, rwb, rob = _conc(rwa, len(TOK) + 1), _conc(roa, len(TOK) + 1), _conc(rwb, len(TOK) + 1), _conc(rob, len(TOK) + 1)
    a = _mk_unknown(rwa, roa)
    if not bool(a == a) or bool(a != a):
        return "object is not equal to itself"
    if sel == 0:
        b = _mk_unknown(rwb, rob)
        return _pair(a, b, rwa == rwb and roa == rob, check_hash=False)
    if sel == 1:
        # a node of another class whose capability string is one of the unknown node's strings
        t = _opt_tok(roa) or _opt_tok(rwa) or b""
        b = _mk_node(nb, _standin(NODE_CAPS[nb][0], t))
        return _pair(a, b, False, check_hash=False)
    b = _foreign(fk, _opt_tok(roa), fint, [a])
    return _pair(a, b, False, check_hash=False)


# ---------------------------------------------------------------------------------------------------------
# 5. real nodes from the real NodeMaker
# ---------------------------------------------------------------------------------------------------------
_TERM = NS(register=lambda x: None)


def _maker():
    return NodeMaker(None, None, None, None, _TERM, {"k": 3, "n": 10}, None, None)


# node-producing cap kinds (indices of _real_cap): files 0..6, directories 9..14
REAL_NODE_KINDS = [0, 1, 2, 3, 4, 5, 6, 9, 10, 11, 12, 13, 14]
_EXPECT_CLASS = {0: ImmutableFileNode, 1: LiteralFileNode, 2: MutableFileNode, 3: MutableFileNode, 4: MutableFileNode,
                 5: MutableFileNode, 6: CiphertextFileNode, 9: DirectoryNode, 10: DirectoryNode, 11: DirectoryNode,
                 12: DirectoryNode, 13: DirectoryNode, 14: DirectoryNode}
_NODE_KIND_OF = {ImmutableFileNode: N_IMM, LiteralFileNode: N_LIT, MutableFileNode: N_MUT, DirectoryNode: N_DIR,
                 CiphertextFileNode: N_CIPHER}


def _node_tables():
    m1, m2 = _maker(), _maker()
    first, again, other = {}, {}, {}
    for k in REAL_NODE_KINDS:
        for i in range(len(KEYS)):
            s = REAL[k][i][0].to_string()
            first[(k, i)] = m1.create_from_cap(s)
    for k in REAL_NODE_KINDS:
        for i in range(len(KEYS)):
            s = REAL[k][i][0].to_string()
            again[(k, i)] = m1.create_from_cap(s)       # second request to the same NodeMaker (its cache is alive)
            other[(k, i)] = m2.create_from_cap(s)       # an independent NodeMaker
    return first, again, other


# built once at import by the real NodeMaker (plain interpreter speed); the harness only selects and compares
NODE_FIRST, NODE_AGAIN, NODE_OTHER = _node_tables()


def h_nodes_real(qa: int, ia: int, sel: int, qb: int, ib: int, same_maker: bool) -> bool:
    """
    pre: 0 <= qa < len(REAL_NODE_KINDS) and 0 <= qb < len(REAL_NODE_KINDS)
    pre: B.get("qa") is None or qa in B["qa"]
    pre: 0 <= ia < B.get("nkey", 2) and 0 <= ib < B.get("nkey", 2)
    pre: 0 <= sel <= 1 and (sel == 1 or qb == 0)
    pre: B.get("full", False) or sel == 0 or (ib == ia and qb in (0, 1, 3, 6, 7, 11))
    post: _ == True
    """
    qa, qb, ia, ib = _conc(qa, len(REAL_NODE_KINDS)), _conc(qb, len(REAL_NODE_KINDS)), _conc(ia, len(KEYS)), _conc(ib, len(KEYS))
    ka = REAL_NODE_KINDS[qa]
    kb = ka if sel == 0 else REAL_NODE_KINDS[qb]
    sa = REAL[ka][ia][0].to_string()
    sb = REAL[kb][ib][0].to_string()
    a = NODE_FIRST[(ka, ia)]
    b = NODE_AGAIN[(kb, ib)] if same_maker else NODE_OTHER[(kb, ib)]
    if type(a) is not _EXPECT_CLASS[ka] or type(b) is not _EXPECT_CLASS[kb]:
        raise hlib.HarnessError("NodeMaker built an unexpected node class")
    na = _NODE_KIND_OF[type(a)]
    if _node_uri(na, a) != sa or _node_uri(_NODE_KIND_OF[type(b)], b) != sb:
        return "node does not report the capability string it was made from"
    r = _self_checks(a)
    if r is not True:
        return r
    return _node_pair(na, a, b, sa == sb)


_MSG_UNEQUAL = "objects with equal capability strings compare unequal"


def _classifier(fn, kind_of_first_arg):
    """Witness class = '<Class>-compares-by-identity' only if the (concrete) witness fails exactly the clause 'equal
    capability strings => equal' on a node class without comparison methods; anything else is 'other'."""
    def classify(*args, **kw):
        r = fn(*args, **kw)
        if r == _MSG_UNEQUAL:
            return IDENTITY_CLASS.get(kind_of_first_arg(args[0]), "other")
        return "other"
    return classify


CLASSIFY = {"h_node_tokens": _classifier(h_node_tokens, lambda na: na),
            "h_node_symbytes": _classifier(h_node_symbytes, lambda na: na),
            "h_nodes_real": _classifier(h_nodes_real, lambda qa: _NODE_KIND_OF[_EXPECT_CLASS[REAL_NODE_KINDS[qa]]])}


# ---------------------------------------------------------------------------------------------------------
# 6. real immutable file nodes whose caps differ in ONE field (key, UEB hash, needed_shares, total_shares, size), and
#    real mutable-file / directory nodes of the SAME object at different authority (write cap vs its own get_readonly()).
#    Equal nodes must have equal capability strings (hence equal get_uri() and equal is_readonly()).
# ---------------------------------------------------------------------------------------------------------
_F_KS, _F_NS, _F_SZ = (1, 3), (3, 10), (0, 1234)


def _chk_string(ik, iu, ikk, inn, isz):
    return U.CHKFileURI(KEYS[ik], FPS[iu], _F_KS[ikk], _F_NS[inn], _F_SZ[isz]).to_string()


def _imm_tables():
    m1, m2 = _maker(), _maker()
    t1, t2 = {}, {}
    for ik in range(2):
        for iu in range(2):
            for ikk in range(2):
                for inn in range(2):
                    for isz in range(2):
                        s = _chk_string(ik, iu, ikk, inn, isz)
                        t1[(ik, iu, ikk, inn, isz)] = m1.create_from_cap(s)
                        t2[(ik, iu, ikk, inn, isz)] = (m1.create_from_cap(s), m2.create_from_cap(s))
    return t1, t2


IMM_A, IMM_B = _imm_tables()


def h_imm_fields(ik: int, iu: int, ikk: int, inn: int, isz: int, fld: int, same_maker: bool) -> bool:
    """
    pre: 0 <= ik <= 1 and 0 <= iu <= 1 and 0 <= ikk <= 1 and 0 <= inn <= 1 and 0 <= isz <= 1
    pre: 0 <= fld <= 5
    post: _ == True
    """
    ik, iu, ikk, inn, isz, fld = _conc(ik, 2), _conc(iu, 2), _conc(ikk, 2), _conc(inn, 2), _conc(isz, 2), _conc(fld, 6)
    fa = [ik, iu, ikk, inn, isz]
    fb = list(fa)
    if fld > 0:
        fb[fld - 1] = 1 - fb[fld - 1]          # the other node's cap differs in exactly this field
    a = IMM_A[tuple(fa)]
    b = IMM_B[tuple(fb)][0 if same_maker else 1]
    if type(a) is not ImmutableFileNode or type(b) is not ImmutableFileNode:
        raise hlib.HarnessError("NodeMaker built an unexpected node class")
    sa, sb = _chk_string(*fa), _chk_string(*fb)
    if a.get_uri() != sa or b.get_uri() != sb:
        return "node does not report the capability string it was made from"
    r = _self_checks(a)
    if r is not True:
        return r
    return _node_pair(N_IMM, a, b, sa == sb)


# write-cap kinds (indices of _real_cap) whose nodes can be diminished: SSK, MDMF, DIR2, DIR2-MDMF
_ATT_KINDS = [2, 4, 11, 13]


def _att_tables():
    m1, m2 = _maker(), _maker()
    out = {}
    for q, k in enumerate(_ATT_KINDS):
        for i in range(2):
            w = REAL[k][i][0]
            ro = w.get_readonly()
            out[(q, i)] = (w.to_string(), ro.to_string(), m1.create_from_cap(w.to_string()),
                           (m1.create_from_cap(ro.to_string()), m2.create_from_cap(ro.to_string())),
                           (m1.create_from_cap(w.to_string()), m2.create_from_cap(w.to_string())))
    return out


ATT = _att_tables()


def h_attenuated(q: int, i: int, other_ro: bool, same_maker: bool, swap: bool) -> bool:
    """
    pre: 0 <= q < len(_ATT_KINDS) and 0 <= i <= 1
    post: _ == True
    """
    q, i = _conc(q, len(_ATT_KINDS)), _conc(i, 2)
    (sw, sro, nw, nros, nws) = ATT[(q, i)]
    a = nw
    b = (nros if other_ro else nws)[0 if same_maker else 1]
    sb = sro if other_ro else sw
    if type(a) is not type(b) or type(a) not in (MutableFileNode, DirectoryNode):
        raise hlib.HarnessError("NodeMaker built an unexpected node class")
    if a.get_uri() != sw or b.get_uri() != sb:
        return "node does not report the capability string it was made from"
    if a.is_readonly() or b.is_readonly() != other_ro:
        raise hlib.HarnessError("write / read authority of the sample nodes is not what the caps say")
    if swap:
        a, b = b, a
    r = _self_checks(a)
    if r is not True:
        return r
    if bool(a == b) and (a.get_uri() != b.get_uri() or a.is_readonly() != b.is_readonly()):
        return "nodes of different authority (write cap vs read cap of the same object) compare equal"
    return _node_pair(N_MUT if type(a) is MutableFileNode else N_DIR, a, b, sw == sb)
