"""
Engine E2 helper: translate LIVE compiled Python regular expressions into z3 regular
expressions, with Python's matching semantics made explicit.

* The structure comes from `re._parser.parse(pattern.pattern, pattern.flags)` of the compiled
  pattern object taken from the imported module at run time.
* The meaning of every one-character atom (literal under IGNORECASE, `[...]`, `\\d`, `\\s`, `.`,
  bytes vs str) is NOT re-implemented: the atom is re-compiled on its own with the pattern's
  flags and pushed over the whole character domain through the real `re` engine (one C-level
  `findall`), so case folding / Unicode classes / ASCII-only classes of bytes patterns are the
  engine's own.
* `search` / `match` / `fullmatch`, `^`, `$` (= end OR before one final "\\n"), `\\Z` are made
  explicit when the language of whole subject strings is built (`Rx.lang(mode)`).
* Character domain: bytes patterns 0..255 (exact).  str patterns: z3 characters 0..0x2FFFF; code
  points above are represented by U+2FFFF, which is checked (per atom) to behave like every
  code point above it.
* Anchors are supported at the edges only (first item; last item, possibly inside a trailing
  group/alternation such as `(:|$)`); MULTILINE, look-around, back-references, possessive
  and conditional constructs raise HarnessError (= harness error, never a property result).

`Rx.validate(corpus)` compares the translation with the real engine on concrete strings;
disagreement raises HarnessError.
"""
import re
import re._constants as C
import re._parser as P
import time

import z3

from vlib import hlib

Z3_MAXCHAR = 0x2FFFF
QUERIES = {"n": 0, "t": 0.0}

_DOMAIN_STR = None
_ATOM_CACHE = {}


def _domain(is_bytes):
    global _DOMAIN_STR
    if is_bytes:
        return bytes(range(256))
    if _DOMAIN_STR is None:
        _DOMAIN_STR = "".join(map(chr, range(0x110000)))
    return _DOMAIN_STR


def _esc(c, is_bytes):
    return ("\\x%02x" % c) if is_bytes else ("\\U%08x" % c)


_CATS = {
    C.CATEGORY_DIGIT: "\\d", C.CATEGORY_NOT_DIGIT: "\\D", C.CATEGORY_SPACE: "\\s", C.CATEGORY_NOT_SPACE: "\\S",
    C.CATEGORY_WORD: "\\w", C.CATEGORY_NOT_WORD: "\\W",
}


def _atom_text(op, av, is_bytes):
    """Pattern text of a one-character atom (re-compiled and calibrated on the real engine)."""
    if op is C.LITERAL:
        return _esc(av, is_bytes)
    if op is C.NOT_LITERAL:
        return "[^%s]" % _esc(av, is_bytes)
    if op is C.ANY:
        return "."
    if op is C.IN:
        out = []
        neg = False
        for (o, a) in av:
            if o is C.NEGATE:
                neg = True
            elif o is C.LITERAL:
                out.append(_esc(a, is_bytes))
            elif o is C.RANGE:
                out.append("%s-%s" % (_esc(a[0], is_bytes), _esc(a[1], is_bytes)))
            elif o is C.CATEGORY:
                if a not in _CATS:
                    raise hlib.HarnessError("_rx: unsupported category %r" % (a,))
                out.append(_CATS[a])
            else:
                raise hlib.HarnessError("_rx: unsupported set item %r" % (o,))
        return "[%s%s]" % ("^" if neg else "", "".join(out))
    raise hlib.HarnessError("_rx: not an atom: %r" % (op,))


_ATOM_FLAGS = re.IGNORECASE | re.ASCII | re.UNICODE | re.DOTALL


def atom_chars(op, av, flags, is_bytes):
    """Sorted list of (lo, hi) code point ranges matched by the atom, as decided by the real engine."""
    text = _atom_text(op, av, is_bytes)
    fl = flags & _ATOM_FLAGS
    if is_bytes:
        fl &= ~re.UNICODE
    key = (text, fl, is_bytes)
    if key in _ATOM_CACHE:
        return _ATOM_CACHE[key]
    rx = re.compile(text.encode("ascii") if is_bytes else text, fl)
    dom = _domain(is_bytes)
    hits = rx.findall(dom)
    if is_bytes:
        cps = [h[0] for h in hits]
    else:
        cps = [ord(h) for h in hits]
    ranges = []
    for c in cps:
        if ranges and ranges[-1][1] == c - 1:
            ranges[-1][1] = c
        else:
            ranges.append([c, c])
    ranges = [tuple(r) for r in ranges]
    if not is_bytes:
        # alphabet bound: everything above U+2FFFF must behave like U+2FFFF for this atom
        top_in = any(lo <= Z3_MAXCHAR <= hi for (lo, hi) in ranges)
        above = [(lo, hi) for (lo, hi) in ranges if hi > Z3_MAXCHAR]
        if top_in:
            ok = len(above) == 1 and above[0][0] <= Z3_MAXCHAR and above[0][1] == 0x10FFFF
        else:
            ok = not above
        if not ok:
            raise hlib.HarnessError("_rx: atom %r distinguishes code points above U+2FFFF (%r)" % (text, above))
        ranges = [(lo, min(hi, Z3_MAXCHAR)) for (lo, hi) in ranges if lo <= Z3_MAXCHAR]
    _ATOM_CACHE[key] = ranges
    return ranges


def chars_re(ranges):
    """z3 regex for a union of code point ranges."""
    if not ranges:
        return z3.Empty(z3.ReSort(z3.StringSort()))
    parts = []
    for (lo, hi) in ranges:
        if lo == hi:
            parts.append(z3.Re(z3.StringVal(chr(lo))))
        else:
            parts.append(z3.Range(z3.StringVal(chr(lo)), z3.StringVal(chr(hi))))
    return parts[0] if len(parts) == 1 else z3.Union(*parts)


def sigma(is_bytes):
    return chars_re([(0, 255)] if is_bytes else [(0, Z3_MAXCHAR)])


def sigma_star(is_bytes):
    return z3.Star(sigma(is_bytes))


def lit_re(text):
    return z3.Re(z3.StringVal(text))


def cat(*rs):
    rs = [r for r in rs if r is not None]
    if not rs:
        return z3.Re(z3.StringVal(""))
    return rs[0] if len(rs) == 1 else z3.Concat(*rs)


def alt(*rs):
    return rs[0] if len(rs) == 1 else z3.Union(*rs)


EPS = None


def eps():
    return z3.Re(z3.StringVal(""))


def py2z(x):
    """bytes/str -> python str of code points (latin-1 view of bytes)."""
    return x.decode("latin-1") if isinstance(x, (bytes, bytearray)) else x


def z2py(zs, is_bytes):
    """z3 string model value -> bytes/str."""
    s = zs.as_string() if hasattr(zs, "as_string") else str(zs)
    out = []
    i = 0
    while i < len(s):
        if s.startswith("\\u{", i):
            j = s.index("}", i)
            out.append(chr(int(s[i + 3:j], 16)))
            i = j + 1
        else:
            out.append(s[i])
            i += 1
    u = "".join(out)
    return u.encode("latin-1") if is_bytes else u


class Seg(object):
    """One top-level piece of a pattern: its z3 language, the capturing group it is (or None),
    and the literal text when the piece is a fixed string."""
    __slots__ = ("re", "group", "lit")

    def __init__(self, rex, group=None, lit=None):
        self.re, self.group, self.lit = rex, group, lit


class Variant(object):
    """A way the pattern can end: segments + end kind (None: nothing required after the match,
    '$': end or before one final newline, 'Z': end of string)."""
    __slots__ = ("segs", "end")

    def __init__(self, segs, end):
        self.segs, self.end = segs, end


class Rx(object):
    def __init__(self, pattern, flags=0):
        if isinstance(pattern, re.Pattern):
            self.src, self.flags = pattern.pattern, pattern.flags
            self.pat = pattern
        else:
            self.pat = re.compile(pattern, flags)
            self.src, self.flags = self.pat.pattern, self.pat.flags
        self.is_bytes = isinstance(self.src, bytes)
        if self.flags & (re.MULTILINE | re.VERBOSE | re.LOCALE):
            if self.flags & re.MULTILINE:
                raise hlib.HarnessError("_rx: MULTILINE is not supported")
            if self.flags & re.LOCALE:
                raise hlib.HarnessError("_rx: LOCALE is not supported")
        self.tree = P.parse(self.src, self.flags)
        self.anchored_start = False
        self.variants = self._structure()

    # -- translation ------------------------------------------------------------------------
    def _atom(self, op, av):
        return chars_re(atom_chars(op, av, self.flags, self.is_bytes))

    def _lit_text(self, items):
        """literal text if every item is a LITERAL whose calibrated charset is that single char."""
        out = []
        for (op, av) in items:
            if op is not C.LITERAL:
                return None
            if atom_chars(op, av, self.flags, self.is_bytes) != [(av, av)]:
                return None
            out.append(chr(av))
        return "".join(out)

    def _seq(self, items, tail):
        """-> list of (z3 regex, endkind).  Only the last item may carry an end anchor."""
        items = list(items)
        if not items:
            return [(eps(), None)]
        head = []
        for (op, av) in items[:-1]:
            vs = self._item(op, av, False)
            if len(vs) != 1 or vs[0][1] is not None:
                raise hlib.HarnessError("_rx: end anchor in non-final position")
            head.append(vs[0][0])
        last = self._item(items[-1][0], items[-1][1], tail)
        return [(cat(*(head + [r])), e) for (r, e) in last]

    def _item(self, op, av, tail):
        if op in (C.LITERAL, C.NOT_LITERAL, C.ANY, C.IN):
            return [(self._atom(op, av), None)]
        if op is C.AT:
            if av in (C.AT_END, C.AT_END_STRING):
                if not tail:
                    raise hlib.HarnessError("_rx: end anchor in non-final position")
                return [(eps(), "$" if av is C.AT_END else "Z")]
            raise hlib.HarnessError("_rx: anchor %r in unsupported position" % (av,))
        if op is C.SUBPATTERN:
            (group, add_flags, del_flags, sub) = av
            if add_flags or del_flags:
                raise hlib.HarnessError("_rx: inline flag groups are not supported")
            return self._seq(sub, tail)
        if op is C.BRANCH:
            out = []
            for alt_items in av[1]:
                out.extend(self._seq(alt_items, tail))
            # merge by end kind
            kinds = []
            for (_, e) in out:
                if e not in kinds:
                    kinds.append(e)
            return [(alt(*[r for (r, e2) in out if e2 == e]), e) for e in kinds]
        if op in (C.MAX_REPEAT, C.MIN_REPEAT):
            (lo, hi, sub) = av
            vs = self._seq(sub, False)
            if len(vs) != 1 or vs[0][1] is not None:
                raise hlib.HarnessError("_rx: anchor inside a repeat")
            r = vs[0][0]
            if hi is C.MAXREPEAT:
                if lo == 0:
                    return [(z3.Star(r), None)]
                if lo == 1:
                    return [(z3.Plus(r), None)]
                return [(z3.Concat(z3.Loop(r, lo, lo), z3.Star(r)), None)]
            if lo == 0 and hi == 1:
                return [(z3.Option(r), None)]
            return [(z3.Loop(r, lo, hi), None)]
        raise hlib.HarnessError("_rx: unsupported regex construct %r" % (op,))

    def _structure(self):
        items = list(self.tree)
        while items and items[0][0] is C.AT and items[0][1] in (C.AT_BEGINNING, C.AT_BEGINNING_STRING):
            self.anchored_start = True
            items = items[1:]
        # split the top-level sequence into segments (capturing groups on their own)
        segs = []
        run = []

        def flush():
            if run:
                vs = self._seq(run, False)
                segs.append(Seg(vs[0][0], None, self._lit_text(run)))
                del run[:]
        n = len(items)
        variants = None
        for i, (op, av) in enumerate(items):
            last = (i == n - 1)
            if op is C.SUBPATTERN and av[0] is not None:
                flush()
                vs = self._item(op, av, last)
                if not last or (len(vs) == 1 and vs[0][1] is None):
                    if len(vs) != 1 or vs[0][1] is not None:
                        raise hlib.HarnessError("_rx: end anchor in non-final position")
                    segs.append(Seg(vs[0][0], av[0], self._lit_text(av[3]) if not any(o is C.BRANCH for (o, _) in av[3]) else None))
                else:
                    variants = [Variant(segs + [Seg(r, av[0], None)], e) for (r, e) in vs]
            elif last:
                vs = self._item(op, av, True)
                if len(vs) == 1 and vs[0][1] is None:
                    run.append((op, av))
                    flush()
                elif op is C.AT:
                    flush()
                    variants = [Variant(list(segs), vs[0][1])]
                else:
                    flush()
                    variants = [Variant(segs + [Seg(r, None, None)], e) for (r, e) in vs]
            else:
                run.append((op, av))
        if variants is None:
            flush()
            variants = [Variant(list(segs), None)]
        return variants

    # -- whole-subject languages ------------------------------------------------------------
    def _pre(self, mode):
        if mode == "search" and not self.anchored_start:
            return sigma_star(self.is_bytes)
        return None

    def _suf(self, mode, end):
        if mode == "fullmatch":
            return None
        if end is None:
            return sigma_star(self.is_bytes)
        if end == "$":
            return z3.Union(eps(), lit_re("\n"))
        return None

    def lang(self, mode="search"):
        """z3 regex of all subject strings on which pattern.<mode>() succeeds."""
        outs = []
        for v in self.variants:
            outs.append(cat(self._pre(mode), *([s.re for s in v.segs] + [self._suf(mode, v.end)])))
        return alt(*outs)

    def match_sym(self, s, mode="search", tag="m"):
        """Symbolic match of z3 string `s`: list (one per variant) of
        (constraint, {group: z3 string}, pre, suf, variant) with fresh variables per segment."""
        out = []
        for vi, v in enumerate(self.variants):
            cons = []
            parts = []
            groups = {}
            pre = None
            p = self._pre(mode)
            if p is not None:
                pre = z3.String("%s_v%d_pre" % (tag, vi))
                cons.append(z3.InRe(pre, p))
                parts.append(pre)
            for si, sg in enumerate(v.segs):
                if sg.lit is not None and sg.group is None:
                    parts.append(z3.StringVal(sg.lit))
                    continue
                x = z3.String("%s_v%d_s%d" % (tag, vi, si))
                cons.append(z3.InRe(x, sg.re))
                parts.append(x)
                if sg.group is not None:
                    groups[sg.group] = x
            suf = None
            sf = self._suf(mode, v.end)
            if sf is not None:
                suf = z3.String("%s_v%d_suf" % (tag, vi))
                cons.append(z3.InRe(suf, sf))
                parts.append(suf)
            if not parts:
                cons.append(s == z3.StringVal(""))
            elif len(parts) == 1:
                cons.append(s == parts[0])
            else:
                cons.append(s == z3.Concat(*parts))
            out.append((z3.And(*cons), groups, pre, suf, v))
        return out

    def _concrete_ok(self, v, mo, lit, mode):
        """Does the real match (spans of its groups) fit variant v segment by segment?"""
        pos = mo.start()
        segs = v.segs
        for i, sg in enumerate(segs):
            if sg.group is not None:
                if mo.group(sg.group) is None or mo.start(sg.group) != pos:
                    return False
                text = mo.group(sg.group)
                pos = mo.end(sg.group)
            else:
                nxt = [x.group for x in segs[i + 1:] if x.group is not None]
                end = mo.start(nxt[0]) if nxt and mo.group(nxt[0]) is not None else mo.end()
                if end < pos:
                    return False
                text = lit[pos:end]
                pos = end
            if not member(py2z(text), sg.re):
                return False
        if pos != mo.end():
            return False
        suf = self._suf(mode, v.end)
        rest = py2z(lit[mo.end():])
        if suf is None:
            return rest == ""
        return member(rest, suf)

    # -- validation against the real engine -----------------------------------------------
    def validate(self, corpus, mode="search", check_groups=True):
        """Compare with the real `re` on concrete subjects; raises HarnessError on any disagreement."""
        L = self.lang(mode)
        n = 0
        for lit in corpus:
            if isinstance(lit, bytes) != self.is_bytes:
                continue
            zs = py2z(lit)
            if (not self.is_bytes) and any(ord(ch) > Z3_MAXCHAR for ch in zs):
                continue
            mo = getattr(self.pat, mode)(lit)
            model = member(zs, L)
            if bool(mo) != model:
                raise hlib.HarnessError("_rx: translation of %r disagrees with re.%s on %r: real=%r model=%r" % (
                    self.src, mode, lit, bool(mo), model))
            n += 1
            if mo and check_groups:
                if not any(self._concrete_ok(v, mo, lit, mode) for v in self.variants):
                    raise hlib.HarnessError("_rx: group decomposition of %r on %r disagrees with the real match" % (self.src, lit))
        return n


def check(sol):
    t = time.perf_counter()
    r = sol.check()
    QUERIES["n"] += 1
    QUERIES["t"] += time.perf_counter() - t
    return r


def member(text, L):
    """Decide concrete membership text in L (simplifier first, solver as fallback)."""
    e = z3.simplify(z3.InRe(z3.StringVal(text), L))
    if z3.is_true(e):
        return True
    if z3.is_false(e):
        return False
    sol = z3.Solver()
    sol.add(e)
    r = check(sol)
    if r == z3.sat:
        return True
    if r == z3.unsat:
        return False
    raise hlib.HarnessError("_rx: membership of %r undecided" % (text,))


def new_solver(seed=0, timeout_ms=None):
    sol = z3.Solver()
    try:
        sol.set("random_seed", int(seed) % (2 ** 31))
    except Exception:
        pass
    if timeout_ms:
        sol.set("timeout", int(timeout_ms))
    return sol


def not_in(s, L):
    return z3.Not(z3.InRe(s, L))


def in_alphabet(s, is_bytes):
    return z3.InRe(s, sigma_star(is_bytes))


# ---- cvc5 cross-check (once per encoding; optional) -----------------------------------------

def cvc5_check(assertions, timeout_ms=20000):
    """Run the same assertions through cvc5 (via SMT-LIB text).  Returns 'sat'/'unsat'/'unknown'/'unavailable'."""
    try:
        import cvc5
    except ImportError:
        return "unavailable"
    sol = z3.Solver()
    for a in assertions:
        sol.add(a)
    smt = sol.to_smt2()
    try:
        slv = cvc5.Solver()
        slv.setOption("strings-exp", "true")
        slv.setOption("tlimit-per", str(int(timeout_ms)))
        slv.setLogic("QF_SLIA")
        parser = cvc5.InputParser(slv)
        parser.setStringInput(cvc5.InputLanguage.SMT_LIB_2_6, smt, "q")
        sm = parser.getSymbolManager()
        res = None
        while True:
            cmd = parser.nextCommand()
            if cmd.isNull():
                break
            out = cmd.invoke(slv, sm)
            o = str(out).strip()
            if o in ("sat", "unsat", "unknown"):
                res = o
        return res or "unknown"
    except Exception as e:  # cvc5 front-end problem is not a property result
        return "unavailable(%s)" % (str(e)[:120],)


# ---- character maps (str.upper / str.lower applied to the subject before / after matching) ------------

class CharMap(object):
    """Per-character view of a real str method ('upper' or 'lower'), computed over all code points by calling the
    real method.  pre(ranges) = code points whose image is a single character inside `ranges`.
    Characters with a multi-character image are listed in `multi`; `check_multi(alphabet)` makes sure none of them
    can take part in a match (some character of their image is outside the pattern's alphabet)."""
    _cache = {}

    def __new__(cls, method):
        if method in cls._cache:
            return cls._cache[method]
        self = object.__new__(cls)
        cls._cache[method] = self
        self.method = method
        f = getattr(str, method)
        self.moved = {}     # code point -> single-character image different from itself
        self.multi = {}     # code point -> multi-character image
        high = "".join(map(chr, range(Z3_MAXCHAR + 1, 0x110000)))
        if f(high) != high:
            raise hlib.HarnessError("_rx: str.%s moves a code point above U+2FFFF" % method)
        for c in range(Z3_MAXCHAR + 1):
            ch = chr(c)
            im = f(ch)
            if im != ch:
                if len(im) == 1:
                    self.moved[c] = ord(im)
                else:
                    self.multi[c] = im
        if any(c > Z3_MAXCHAR for c in self.moved) or any(c > Z3_MAXCHAR for c in self.multi):
            raise hlib.HarnessError("_rx: str.%s moves a code point above U+2FFFF" % method)
        # context sensitivity: Python's lower() treats GREEK CAPITAL SIGMA by context; callers must keep it out
        self.context_sensitive = [0x3A3] if method == "lower" else []
        return self

    def image(self, c):
        if c in self.multi:
            return None
        return self.moved.get(c, c)

    def pre(self, ranges):
        def inside(x):
            return any(lo <= x <= hi for (lo, hi) in ranges)
        # identity part: the ranges minus everything that moves away or expands
        pts = set()
        out = []
        for (lo, hi) in ranges:
            cur = lo
            movers = sorted(c for c in list(self.moved) + list(self.multi) if lo <= c <= hi)
            for mv in movers:
                if cur <= mv - 1:
                    out.append((cur, mv - 1))
                cur = mv + 1
            if cur <= hi:
                out.append((cur, hi))
        for c, im in self.moved.items():
            if inside(im):
                pts.add(c)
        for c in sorted(pts):
            out.append((c, c))
        out.sort()
        merged = []
        for (lo, hi) in out:
            if merged and merged[-1][1] >= lo - 1:
                merged[-1] = (merged[-1][0], max(hi, merged[-1][1]))
            else:
                merged.append((lo, hi))
        return merged

    def check_multi(self, alphabet):
        """alphabet: ranges of every character any atom of the pattern can match"""
        def inside(x):
            return any(lo <= x <= hi for (lo, hi) in alphabet)
        bad = [c for c, im in self.multi.items() if all(inside(ord(x)) for x in im)]
        if bad:
            raise hlib.HarnessError("_rx: str.%s expands %r into characters that all belong to the pattern alphabet" % (
                self.method, [chr(c) for c in bad[:5]]))


class MappedRx(Rx):
    """Rx whose subject is passed through str.upper()/str.lower() before matching: every atom's character set is
    replaced by its preimage under the real method."""

    def __init__(self, pattern, flags=0, method="upper"):
        self.cmap = CharMap(method)
        self._alphabet = []
        Rx.__init__(self, pattern, flags)
        if self.is_bytes:
            raise hlib.HarnessError("_rx: MappedRx is for str patterns")
        self.cmap.check_multi(self._alphabet)
        if any(any(lo <= c <= hi for (lo, hi) in self._alphabet) for c in self.cmap.context_sensitive):
            raise hlib.HarnessError("_rx: pattern alphabet contains a context-sensitive character for str.%s" % method)

    def _atom(self, op, av):
        ranges = atom_chars(op, av, self.flags, self.is_bytes)
        self._alphabet.extend(ranges)
        return chars_re(self.cmap.pre(ranges))

    def _lit_text(self, items):
        return None

    def _suf(self, mode, end):
        # "$" looks at the MAPPED subject: a final "\n" is mapped to itself by upper()/lower()
        return Rx._suf(self, mode, end)

    def validate(self, corpus, mode="search", check_groups=False):
        L = self.lang(mode)
        n = 0
        f = getattr(str, self.cmap.method)
        for lit in corpus:
            if not isinstance(lit, str) or any(ord(ch) > Z3_MAXCHAR for ch in lit):
                continue
            real = bool(getattr(self.pat, mode)(f(lit)))
            model = member(lit, L)
            if real != model:
                raise hlib.HarnessError("_rx: mapped translation of %r disagrees with re.%s on %r.%s(): real=%r model=%r" % (
                    self.src, mode, lit, self.cmap.method, real, model))
            n += 1
        return n
