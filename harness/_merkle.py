"""
Shared ideal-hash vocabulary for the Merkle-tree gates (C35, C02, C45, C10).

Hash values are modelled by `HV`: a `bytes` subclass (so the real code's
`isinstance(h, bytes)` assertions hold and `len()` is the digest length) whose
*identity* is an integer `.v` that may be symbolic.  `==`/`!=`/truthiness of two hash
values are decided by the solver on the ids.  id 0 models the empty byte string
(falsy), every other id a non-empty string.

The ideal pair hash is an injective, piecewise-linear map N x N -> N with a range
disjoint from [0, K0) ("leaf-like" values):

    tier(a, b)  = least t with a < K_t and b < K_t      (K_{t+1} = K_t + K_t**2)
    pair(a, b)  = K_t + a*K_t + b     in [K_t, K_{t+1})

Distinct tiers have disjoint ranges and a*K_t + b is injective on [0,K_t)^2, so
pair(a,b) == pair(c,d)  <=>  (a,b) == (c,d): exactly the collision-freedom that the
properties assume, and nothing more.  Coefficients are concrete, so every comparison
the real code makes is linear integer arithmetic for z3.  An adversary-chosen symbolic
id below K_t may coincide with any leaf-like value, with any genuine node, or with the
pair hash of any two values below K_{t-1} (a "consistently forged" parent).
"""
from vlib import hlib

K0 = 32          # ids [0, K0): 0 = b"", 1..8 = empty-leaf hashes, the rest free leaf-like values
EMPTY_BASE = 1   # empty_leaf_hash(i) -> id EMPTY_BASE + i   (i < 16)

_BODY = b"ideal-hash-token-(id-is-in-.v)##"   # 32 bytes, never inspected by the code under test
assert len(_BODY) == 32


class HV(bytes):
    """hash-value token; identity is the (possibly symbolic) integer .v"""

    def __new__(cls, v, lo=0, hi=None):
        """lo/hi: concrete tier bounds known by construction: K_(lo-1) <= v < K_hi (K_-1 = 0).  They only
        save solver queries when the ideal pair hash has to determine the tier of v; hi=None = unknown."""
        o = bytes.__new__(cls, _BODY)
        o.v = v
        o.lo = lo
        o.hi = hi
        return o

    def __eq__(self, other):
        if isinstance(other, HV):
            return self.v == other.v
        return NotImplemented

    def __ne__(self, other):
        if isinstance(other, HV):
            return self.v != other.v
        return NotImplemented

    def __bool__(self):
        if self.v != 0:     # (forks under CrossHair; __bool__ must return a real bool)
            return True
        return False

    __hash__ = None

    def __getitem__(self, key):
        # slices of a hash value are only ever used for log prefixes / messages: hand out plain constant bytes
        return _BODY[key]

    def __repr__(self):
        return "HV(%r)" % (self.v,)


def tiers(upto):
    """[K_0, K_1, ..., K_upto]"""
    out = [K0]
    for _ in range(upto):
        out.append(out[-1] + out[-1] * out[-1])
    return out


def kmax(t):
    return tiers(t)[t]


def pair_id(a, b):
    k = K0
    n = 0
    while not (a < k and b < k):
        k = k + k * k
        n += 1
        if n > 12:
            raise hlib.HarnessError("ideal pair hash: value outside the modelled range")
    return k + a * k + b


_KS = tiers(12)


def _tier_of(x):
    """least t with x.v < K_t, deciding by the solver only what the concrete bounds leave open"""
    if x.hi is None:
        t = x.lo
        while not (x.v < _KS[t]):
            t += 1
            if t > 12:
                raise hlib.HarnessError("ideal pair hash: value outside the modelled range")
        return t
    t = x.lo
    while t < x.hi and not (x.v < _KS[t]):
        t += 1
    return t


def ideal_pair_hash(a, b):
    if not (isinstance(a, HV) and isinstance(b, HV)):
        raise hlib.HarnessError("ideal pair_hash applied to a non-token %r %r" % (type(a), type(b)))
    # tier = max(tier(a), tier(b)); skip the query for the operand that cannot raise the maximum
    if a.hi is not None and b.hi is not None and a.lo == a.hi and b.hi <= a.lo:
        t = a.lo
    elif a.hi is not None and b.hi is not None and b.lo == b.hi and a.hi <= b.lo:
        t = b.lo
    else:
        ta = _tier_of(a)
        if b.hi is not None and b.hi <= ta:
            t = ta
        else:
            tb = _tier_of(b)
            t = ta if ta > tb else tb
    k = _KS[t]
    return HV(k + a.v * k + b.v, t + 1, t + 1)


def sym(v, hi):
    """token for a symbolic id known (by precondition) to lie in [0, K_hi)"""
    return HV(v, 0, hi)


def ideal_empty_leaf_hash(i):
    if not (0 <= i < 16):
        raise hlib.HarnessError("empty_leaf_hash index outside model")
    return HV(EMPTY_BASE + i, 0, 0)


def pow2_at_least(n):
    p = 1
    while p < n:
        p = p + p
    return p


def model_tree(leaf_ids):
    """Independent definition of the Merkle tree over `leaf_ids` (ids, not tokens):
    bottom row = leaves then empty-leaf constants up to the next power of two; node i =
    pair(node 2i+1, node 2i+2).  Returns the list of ids in heap order."""
    n = len(leaf_ids)
    width = pow2_at_least(n)
    row = list(leaf_ids) + [EMPTY_BASE + j for j in range(n, width)]
    size = 2 * width - 1
    out = [None] * size
    for j in range(width):
        out[width - 1 + j] = row[j]
    for i in range(width - 2, -1, -1):
        out[i] = pair_id(out[2 * i + 1], out[2 * i + 2])
    return out


def install(module):
    """Replace the hash primitives in `module`'s namespace by the ideal model."""
    if hasattr(module, "pair_hash"):
        module.pair_hash = ideal_pair_hash
    if hasattr(module, "empty_leaf_hash"):
        module.empty_leaf_hash = ideal_empty_leaf_hash
    if module.__name__ == "allmydata.hashtree":
        # base32.b2a only renders hash values into BadHashError messages (b32-encoding 32 bytes under the tracer
        # costs ~100 ms per path); the message text is not part of any property
        module.base32 = hlib.NS(b2a=lambda b: b"<hash>", b2a_or_none=lambda b: None if b is None else b"<hash>")


def same(a, b):
    """token-or-None equality (None only equals None)"""
    if a is None or b is None:
        return a is None and b is None
    if a is b:
        return True
    return a.v == b.v


B32_NOTE = "hashtree.base32.b2a (used only to render hashes into BadHashError messages) replaced by a constant"
MODEL_NOTE = ("ideal hash: hashtree.pair_hash / empty_leaf_hash replaced by an injective piecewise-linear "
              "constructor over integer ids (harness/_merkle.py); hash values are bytes-subclass tokens compared by id")


# ---- reachable pre-state family of an IncompleteHashTree (proved inductive in C35) -------------

def family_ok(n, X, xs=None):
    """X[i] (i < 7): internal node i is 'expanded' (both children validated).  Held set = root + children of
    expanded nodes; an expanded non-root node has an expanded parent; only internal nodes can be expanded.
    xs: optional case split = the exact list of expanded nodes."""
    w = pow2_at_least(n)
    if xs is not None:
        for i in range(len(X)):
            if X[i] != (i in xs):
                return False
    for i in range(len(X)):
        if i >= w - 1:
            if X[i]:
                return False
        elif i > 0 and X[i] and not X[(i - 1) // 2]:
            return False
    return True


def mk_family(hashtree, n, X, leaf_tokens):
    """(genuine HashTree over leaf_tokens, IncompleteHashTree(n) holding the genuine root and the family nodes)"""
    gen = hashtree.HashTree(list(leaf_tokens))
    iht = hashtree.IncompleteHashTree(n)
    if len(iht) != len(gen):
        raise hlib.HarnessError("tree shapes differ")
    iht[0] = gen[0]
    for i in range(len(X)):
        if X[i]:
            iht[2 * i + 1] = gen[2 * i + 1]
            iht[2 * i + 2] = gen[2 * i + 2]
    return gen, iht


def tree_unchanged(before, iht):
    if len(before) != len(iht):
        return False
    for i in range(len(before)):
        if not same(before[i], iht[i]):
            return False
    return True


def tree_genuine(gen, iht):
    for i in range(len(iht)):
        if iht[i] is not None and not same(iht[i], gen[i]):
            return False
    return True


def tree_family(iht):
    if iht[0] is None:
        return False
    for i in range(1, len(iht)):
        if iht[i] is not None:
            sib = i + 1 if i % 2 == 1 else i - 1
            if iht[sib] is None or iht[(i - 1) // 2] is None:
                return False
    return True
