"""
C05 — convergent capabilities and literal files.

 * Uploader.upload: literal iff size <= 55 (URI_LIT_SIZE_THRESHOLD); otherwise EncryptAnUploadable + CHKUploader
   (or AssistedUploader with a helper); read cap = verify cap fields + the uploadable's key.
 * LiteralUploader.start: the literal cap embeds exactly the bytes [0, size) whatever the read chunking.
 * FileHandle._get_encryption_key_convergent: hasher created with exactly (k, n, segsize, convergence) of this
   uploadable and fed exactly the bytes [0, size) in order for every chunking of the file reads; random-key path.
 * EncryptAnUploadable.read_encrypted/_read_encrypted/_hash_and_encrypt_plaintext: ciphertext pieces contiguous.
Plaintext is a provenance buffer ("pt", offset).
"""
from vlib import hlib
from vlib.hlib import ProvBuf, NS, assume
hlib.ensure_shims()
from twisted.internet import defer
from twisted.python.failure import Failure
from allmydata.immutable import upload as up
from allmydata import uri as uri_mod
from allmydata.util import hashutil

B = hlib.bounds()
NOTES = [
    "upload.LiteralUploader / EncryptAnUploadable / CHKUploader / AssistedUploader replaced by recorders in the threshold obligation",
    "upload.convergence_hasher replaced by a recording hasher (records constructor arguments and every update())",
    "upload.os.urandom replaced by a recorder returning a 16-byte token",
    "upload.aes replaced by an identity cipher (create_encryptor/encrypt_data record and pass data through); plaintext hashers replaced by recorders",
    "upload.uri.LiteralFileURI replaced by a recorder in the LiteralUploader obligation (cap string formatting is C15/C38)",
    "file objects are fakes returning provenance buffers with symbolic short-read sizes",
]


def _collect(d):
    out = []
    d.addBoth(out.append)
    for r in out:
        if isinstance(r, Failure) and not isinstance(r.value, Exception):
            raise r.value
    return out


# ---- literal threshold -------------------------------------------------------------

class _RecLiteral(object):
    made = []

    def __init__(self):
        _RecLiteral.made.append(self)
        self.started = []

    def start(self, uploadable):
        self.started.append(uploadable)
        return defer.succeed("LITERAL-RESULTS")


class _RecEU(object):
    made = []

    def __init__(self, original, log_parent=None, chunk_size=None):
        self.original = original
        _RecEU.made.append(self)

    def get_storage_index(self):
        return defer.succeed(b"S" * 16)


_VCAP = uri_mod.CHKFileVerifierURI(b"I" * 16, b"U" * 32, 3, 10, 1000).to_string()


class _Results(object):
    def __init__(self):
        self.uri = None

    def get_verifycapstr(self):
        return _VCAP

    def set_uri(self, u):
        self.uri = u


class _RecCHK(object):
    made = []

    def __init__(self, storage_broker, secret_holder, reactor=None):
        self.args = (storage_broker, secret_holder)
        self.started = []
        _RecCHK.made.append(self)

    def start(self, eu):
        self.started.append(eu)
        return defer.succeed(_Results())

    def get_upload_status(self):
        return "status"


class _RecAssisted(object):
    made = []

    def __init__(self, helper, storage_broker):
        self.args = (helper, storage_broker)
        self.started = []
        _RecAssisted.made.append(self)

    def start(self, eu, si):
        self.started.append((eu, si))
        return defer.succeed(_Results())

    def get_upload_status(self):
        return "status"


_upload = hlib.encoded(up.Uploader.upload)


def h_literal_threshold(size: int, with_helper: bool) -> bool:
    """
    pre: size >= 0
    post: _ == True
    """
    fh = up.FileHandle(NS(), None)
    fh._size = size
    fh._key = b"K" * 16
    closed = []
    fh.close = lambda: closed.append(1)
    parent = NS(get_encoding_parameters=lambda: {"k": 3, "happy": 7, "n": 10, "max_segment_size": 131072},
                get_storage_broker=lambda: "BROKER", _secret_holder="SECRETS")
    me = NS(parent=parent, running=True, stats_provider=None, URI_LIT_SIZE_THRESHOLD=up.Uploader.URI_LIT_SIZE_THRESHOLD,
            _parentmsgid=0, _helper=("HELPER" if with_helper else None), _all_uploads={}, _history=None)
    saved = (up.LiteralUploader, up.EncryptAnUploadable, up.CHKUploader, up.AssistedUploader)
    for c in (_RecLiteral, _RecEU, _RecCHK, _RecAssisted):
        c.made = []
    up.LiteralUploader, up.EncryptAnUploadable, up.CHKUploader, up.AssistedUploader = _RecLiteral, _RecEU, _RecCHK, _RecAssisted
    try:
        out = _collect(_upload(me, fh))
    finally:
        up.LiteralUploader, up.EncryptAnUploadable, up.CHKUploader, up.AssistedUploader = saved
    if len(out) != 1 or isinstance(out[0], Failure):
        return "upload did not complete: %r" % (out,)
    if closed != [1]:
        return "uploadable not closed exactly once"
    if not fh.default_params_set:
        return "default encoding parameters not pushed into the uploadable"
    if size <= 55:
        # 55 is the documented literal threshold (independent constant, not read from the class)
        if len(_RecLiteral.made) != 1 or _RecLiteral.made[0].started != [fh]:
            return "file of <= 55 bytes did not go to the LiteralUploader"
        if _RecEU.made or _RecCHK.made or _RecAssisted.made:
            return "literal upload touched the CHK machinery (needs no servers)"
        if out[0] != "LITERAL-RESULTS":
            return "literal results not returned"
        return True
    if _RecLiteral.made:
        return "file of > 55 bytes became a literal"
    if len(_RecEU.made) != 1 or _RecEU.made[0].original is not fh:
        return "EncryptAnUploadable not wrapped around the uploadable"
    eu = _RecEU.made[0]
    if with_helper:
        if _RecCHK.made or len(_RecAssisted.made) != 1 or _RecAssisted.made[0].started != [(eu, b"S" * 16)]:
            return "helper upload not started with (eu, storage index)"
    else:
        if _RecAssisted.made or len(_RecCHK.made) != 1 or _RecCHK.made[0].started != [eu]:
            return "CHK upload not started"
        if _RecCHK.made[0].args != ("BROKER", "SECRETS"):
            return "CHK uploader wiring"
    res = out[0]
    if not isinstance(res, _Results) or res.uri is None:
        return "read cap not stored in the results"
    r = uri_mod.from_string(res.uri)
    if not isinstance(r, uri_mod.CHKFileURI) or r.key != b"K" * 16:
        return "read cap does not carry the uploadable's encryption key"
    if (r.uri_extension_hash, r.needed_shares, r.total_shares, r.size) != (b"U" * 32, 3, 10, 1000):
        return "read cap fields differ from the verify cap"
    return True


# ---- a file that returns provenance buffers with symbolic short reads ---------------

class _ChunkFile(object):
    """file of `size` bytes; the i-th read returns at most caps[i] bytes (short reads), later reads are full."""

    def __init__(self, size, caps):
        self.size = size
        self.caps = list(caps)
        self.pos = 0
        self.nreads = 0
        self.seeks = []
        self.reads = []

    def seek(self, pos, whence=0):
        self.seeks.append((pos, whence, self.nreads))
        if whence == 0:
            self.pos = pos
        elif whence == 2:
            self.pos = self.size + pos
        else:
            raise hlib.HarnessError("seek whence")

    def tell(self):
        return self.pos

    def read(self, n):
        avail = self.size - self.pos
        if avail < 0:
            avail = 0
        m = n if n < avail else avail
        if self.nreads < len(self.caps) and self.caps[self.nreads] < m:
            m = self.caps[self.nreads]
        self.nreads += 1
        if self.nreads > 40:
            raise RuntimeError("runaway read loop (more than 40 reads of this small file)")
        r = ProvBuf.src("pt", m, self.pos)
        self.reads.append((self.pos, n, m))
        self.pos = self.pos + m
        return r


class _RecHasher(object):
    made = []

    def __init__(self, *args):
        self.args = args
        self.fed = []
        self.digests = 0
        _RecHasher.made.append(self)

    def update(self, data):
        self.fed.append(data)

    def digest(self):
        self.digests += 1
        return b"D" * 16


def _fed_ok(fed, total, p):
    """the concatenation of the update() arguments is exactly plaintext[0:total] (checked at position p)"""
    pos = 0
    hit = None
    for w in fed:
        n = len(w)
        if pos <= p and p < pos + n:
            hit = w.at(p - pos)
        pos = pos + n
    if pos != total:
        return "hasher was fed a different number of bytes than the file has"
    if 0 <= p and p < total and hit != ("pt", p):
        return "hasher input at position p is not file byte p"
    return True


hlib.encoded(up.FileHandle._get_encryption_key_convergent, up.FileHandle.get_encryption_key, up.FileHandle._get_encryption_key_random,
             up.FileHandle.get_size, up.BaseUploadable.get_all_encoding_parameters, up.BaseUploadable.set_default_encoding_parameters)


def _nreads(size, c1, c2, c3):
    if size <= c1:
        return 1
    if size <= c1 + c2:
        return 2
    if size <= c1 + c2 + c3:
        return 3
    if size <= c1 + c2 + c3 + 65536:
        return 4
    return 5


def h_convergent_key(size: int, c1: int, c2: int, c3: int, k: int, n: int, segsize: int, pos0: int, p: int) -> bool:
    """
    pre: 1 <= size and 1 <= c1 <= 65536 and 1 <= c2 <= 65536 and 1 <= c3 <= 65536
    pre: 0 <= pos0 <= size
    pre: size <= c1 + c2 + c3 + 2 * 65536
    pre: B.get("nreads") is None or _nreads(size, c1, c2, c3) == B["nreads"]
    pre: 1 <= k <= n <= 256 and 1 <= segsize
    post: _ == True
    """
    # three short reads (a cap above the 64 KiB block size would have no effect) of arbitrary sizes, then full 64 KiB reads; (k, happy, n, segsize) are this upload's
    # encoding parameters (how they are derived from the configuration is C01)
    f = _ChunkFile(size, [c1, c2, c3])
    f.pos = pos0            # the handle may have been used before (its size is already known to the uploadable)
    fh = up.FileHandle(f, b"convergence-secret")
    fh._size = size
    fh.default_params_set = True
    fh._all_encoding_parameters = (k, 1, n, segsize)
    _RecHasher.made = []
    saved = up.convergence_hasher
    up.convergence_hasher = _RecHasher
    try:
        out = _collect(fh.get_encryption_key())
        out2 = _collect(fh.get_encryption_key())
    finally:
        up.convergence_hasher = saved
    if out != [b"D" * 16] or out2 != [b"D" * 16]:
        return "key is not the hasher's digest / not stable: %r" % (out,)
    if len(_RecHasher.made) != 1:
        return "the file must be hashed exactly once (key cached)"
    h = _RecHasher.made[0]
    if h.args != (k, n, segsize, b"convergence-secret"):
        return "hasher not created with exactly (k, n, segsize, convergence secret) of this upload"
    r = _fed_ok(h.fed, size, p)
    if r is not True:
        return r
    if h.digests != 1:
        return "digest taken more than once"
    # whole file read from the start, and rewound for the upload proper
    if not f.reads or f.reads[0][0] != 0:
        return "file not rewound before hashing"
    if f.pos != 0:
        return "file not rewound after hashing"
    return True


def h_random_key(size: int) -> bool:
    """
    pre: size >= 0
    post: _ == True
    """
    f = _ChunkFile(size, [])
    fh = up.FileHandle(f, None)
    fh.set_default_encoding_parameters({"k": 3, "happy": 7, "n": 10, "max_segment_size": 131072})
    asked = []

    def _urandom(nbytes):
        asked.append(nbytes)
        return b"R%015d" % len(asked)
    _RecHasher.made = []
    saved = (up.convergence_hasher, up.os)
    up.convergence_hasher = _RecHasher
    up.os = NS(urandom=_urandom, SEEK_END=2)
    try:
        out = _collect(fh.get_encryption_key())
        out2 = _collect(fh.get_encryption_key())
        fh2 = up.FileHandle(_ChunkFile(size, []), None)
        out3 = _collect(fh2.get_encryption_key())
    finally:
        up.convergence_hasher, up.os = saved
    if asked != [16, 16]:
        return "random key must come from os.urandom(16), once per uploadable"
    if out != [b"R%015d" % 1] or out2 != out or out3 != [b"R%015d" % 2]:
        return "random key not cached per uploadable / not fresh per upload"
    if _RecHasher.made or f.nreads:
        return "random-key path hashed or read the file"
    return True


# ---- LiteralUploader ------------------------------------------------------------------

class _RecLit(object):
    def __init__(self, data=None):
        self.data = data

    def to_string(self):
        return ("LIT", self.data)


from _stripall import strip_all
strip_all(up.LiteralUploader, consts=hlib.PROV_CONSTS)      # b"".join of the pieces, wherever it is written
hlib.encoded(up.read_this_many_bytes, up.LiteralUploader._build_results, up.FileHandle.read)


def h_literal_uploader(size: int, c1: int, c2: int, c3: int, p: int) -> bool:
    """
    pre: 0 <= size <= B.get("lit_max", 55) and 1 <= c1 and 1 <= c2 and 1 <= c3
    pre: size <= c1 + c2 + c3 + 1
    post: _ == True
    """
    f = _ChunkFile(size, [c1, c2, c3])
    fh = up.FileHandle(f, None)
    lu = up.LiteralUploader()
    saved = up.uri
    up.uri = NS(LiteralFileURI=_RecLit)
    try:
        out = _collect(lu.start(fh))
    finally:
        up.uri = saved
    if len(out) != 1 or isinstance(out[0], Failure):
        return "literal upload failed: %r" % (out,)
    ur = out[0]
    cap = ur.get_uri()
    if not isinstance(cap, tuple) or cap[0] != "LIT":
        return "result is not the literal cap"
    data = cap[1]
    if len(data) != size:
        return "literal cap embeds a different number of bytes"
    if 0 <= p and p < size and data.at(p) != ("pt", p):
        return "literal cap byte p is not file byte p"
    if ur.get_file_size() != size or ur.get_pushed_shares() != 0 or ur.get_verifycapstr() is not None:
        return "literal results claim shares / wrong size"
    return True


# ---- EncryptAnUploadable: chunked encryption -------------------------------------------

class _IdAES(object):
    def __init__(self):
        self.keys = []
        self.stream = []

    def create_encryptor(self, key):
        self.keys.append(key)
        return NS(key=key)

    def encrypt_data(self, enc, data):
        self.stream.append(data)
        return data


strip_all(up.EncryptAnUploadable)        # every method, so that helpers extracted from them lose their log lines too
hlib.encoded(up.EncryptAnUploadable.read_encrypted, up.EncryptAnUploadable._read_encrypted, up.EncryptAnUploadable._get_encryptor,
             up._Accum.extend)


class _MultiPieceUploadable(up.FileHandle):
    """an IUploadable whose read() returns SEVERAL strings per call (allowed by IUploadable.read): the bytes of each
    read are split into up to three pieces at the given (symbolic) cut points"""
    cuts = (0, 0)

    def read(self, length):
        data = self._filehandle.read(length)
        n = len(data)
        (c1, c2) = self.cuts
        a = c1 if c1 < n else n
        b = c2 if c2 < n else n
        if b < a:
            b = a
        return defer.succeed([data[:a], data[a:b], data[b:]])


def _eu_for(size, chunk, segsize, cuts=(0, 0)):
    f = _ChunkFile(size, [])
    fh = _MultiPieceUploadable(f, None)
    fh.cuts = cuts
    fh._key = b"K" * 16
    fh._size = size
    fh.default_params_set = True
    fh._all_encoding_parameters = (3, 7, 10, segsize)
    return fh


def _pieces_at(pieces, p):
    tot = 0
    hit = None
    for piece in pieces:
        if tot <= p and p < tot + len(piece):
            hit = piece.at(p - tot)
        tot = tot + len(piece)
    return tot, hit


def h_read_encrypted(size: int, chunk: int, l1: int, l2: int, hash_only1: bool, p: int) -> bool:
    """
    pre: 1 <= size and 1 <= chunk and 0 <= l1 and 0 <= l2
    pre: l1 <= B.get("nchunks", 2) * chunk and l2 <= B.get("nchunks", 2) * chunk
    pre: B.get("hash_only") is None or hash_only1 == (B["hash_only"] == 1)
    pre: B.get("first") is None or (l1 <= chunk) == (B["first"] == 1)
    post: _ == True
    """
    # two consecutive read_encrypted calls (the first possibly hash_only); one plaintext segment (see h_segment_hashes)
    fh = _eu_for(size, chunk, size + 1)
    idaes = _IdAES()
    saved = (up.aes, up.plaintext_hasher, up.plaintext_segment_hasher, up.storage_index_hash)
    up.aes = idaes
    _RecHasher.made = []
    up.plaintext_hasher = _RecHasher
    up.plaintext_segment_hasher = _RecHasher
    up.storage_index_hash = lambda key: b"S" * 16
    try:
        eu = up.EncryptAnUploadable(fh, chunk_size=chunk)
        whole = _RecHasher.made[0]
        o1 = _collect(eu.read_encrypted(l1, hash_only1))
        o2 = _collect(eu.read_encrypted(l2, False))
        si = _collect(eu.get_storage_index())
    finally:
        up.aes, up.plaintext_hasher, up.plaintext_segment_hasher, up.storage_index_hash = saved
    if len(o1) != 1 or isinstance(o1[0], Failure) or len(o2) != 1 or isinstance(o2[0], Failure):
        return "read_encrypted failed: %r %r" % (o1, o2)
    if idaes.keys != [b"K" * 16] or si != [b"S" * 16]:
        return "one encryptor, keyed with the uploadable's key"
    a1 = l1 if l1 < size else size              # bytes the first call covers
    rest = size - a1
    a2 = l2 if l2 < rest else rest
    (tot, hit) = _pieces_at(o1[0], p)
    if hash_only1:
        if tot != 0:
            return "hash_only read returned ciphertext"
    else:
        if tot != a1:
            return "first read returned the wrong amount"
        if 0 <= p and p < a1 and hit != ("pt", p):
            return "first read: ciphertext byte p does not come from plaintext byte p"
    # second call continues exactly where the first stopped
    (tot, hit) = _pieces_at(o2[0], p)
    if tot != a2:
        return "second read returned the wrong amount"
    if 0 <= p and p < a2 and hit != ("pt", a1 + p):
        return "second read is not contiguous with the first"
    # the AES stream and the whole-file plaintext hasher saw every byte once, in order (also when hash_only)
    r = _fed_ok(idaes.stream, a1 + a2, p)
    if r is not True:
        return "encryptor stream: " + r
    r = _fed_ok(whole.fed, a1 + a2, p)
    if r is not True:
        return "plaintext hasher: " + r
    if eu._ciphertext_bytes_read != a1 + a2:
        return "byte counter"
    return True


def h_segment_hashes(size: int, chunk: int, l1: int, segsize: int, p: int) -> bool:
    """
    pre: 1 <= size and 1 <= chunk and 0 <= l1 and 1 <= segsize
    pre: l1 <= B.get("nchunks", 2) * chunk
    pre: size <= B.get("nsegs", 2) * segsize
    post: _ == True
    """
    fh = _eu_for(size, chunk, segsize)
    idaes = _IdAES()
    saved = (up.aes, up.plaintext_hasher, up.plaintext_segment_hasher, up.storage_index_hash)
    up.aes = idaes
    _RecHasher.made = []
    up.plaintext_hasher = _RecHasher
    up.plaintext_segment_hasher = _RecHasher
    up.storage_index_hash = lambda key: b"S" * 16
    try:
        eu = up.EncryptAnUploadable(fh, chunk_size=chunk)
        o1 = _collect(eu.read_encrypted(l1, False))
    finally:
        up.aes, up.plaintext_hasher, up.plaintext_segment_hasher, up.storage_index_hash = saved
    if len(o1) != 1 or isinstance(o1[0], Failure):
        return "read_encrypted failed: %r" % (o1,)
    a1 = l1 if l1 < size else size
    # segment hashers: each fed at most segsize bytes, together the same stream; closed hashes == full segments
    segfed = []
    for h in _RecHasher.made[1:]:
        n = 0
        for w in h.fed:
            n = n + len(w)
            segfed.append(w)
        if n > segsize:
            return "a plaintext segment hasher was fed more than one segment"
    r = _fed_ok(segfed, a1, p)
    if r is not True:
        return "segment hashers: " + r
    nclosed = len(eu._plaintext_segment_hashes)
    if not (nclosed * segsize <= a1 and a1 < (nclosed + 1) * segsize):
        return "number of closed segment hashes is not floor(bytes/segsize)"
    return True


# ---- convergence tag: distinct (k, n, segsize) give distinct tags (real function, small domain) -------------

hlib.encoded(hashutil._convergence_hasher_tag, hashutil.convergence_hasher, hashutil.tagged_hasher, hashutil.netstring)


def _pin(x, lo, hi):
    """explicit case split on the value of a small-range symbolic int (returns a concrete int)"""
    for v in range(lo, hi + 1):
        if x == v:
            return v
    raise hlib.HarnessError("value outside its declared range")


def h_tag_params(k1: int, n1: int, g1: int, k2: int, n2: int, g2: int, secret2: bool) -> bool:
    """
    pre: 1 <= k1 <= n1 <= B.get("kn_max", 2) and 1 <= k2 <= n2 <= B.get("kn_max", 2)
    pre: B.get("seg_min", 8) <= g1 <= B.get("seg_max", 11) and B.get("seg_min", 8) <= g2 <= B.get("seg_max", 11)
    pre: (k1, n1, g1) != (k2, n2, g2) or secret2
    post: _ == True
    """
    # path-per-input: the %d formatting realises the integers, so this enumerates the (small) domain on the real
    # function; the unbounded statement is the cvc5 obligation tag_injective on the string model
    kn, lo, hi = B.get("kn_max", 2), B.get("seg_min", 8), B.get("seg_max", 11)
    k1, n1, k2, n2 = _pin(k1, 1, kn), _pin(n1, 1, kn), _pin(k2, 1, kn), _pin(n2, 1, kn)
    g1, g2 = _pin(g1, lo, hi), _pin(g2, lo, hi)
    s1 = b"1:2,secret"
    s2 = b"1:2,secreu" if secret2 else s1
    t1 = hashutil._convergence_hasher_tag(k1, n1, g1, s1)
    t2 = hashutil._convergence_hasher_tag(k2, n2, g2, s2)
    if t1 == t2:
        return "two different (k, n, segsize, secret) settings hash under the same tag"
    return True


def h_multi_piece_read(size: int, l1: int, c1: int, c2: int, hash_only: bool, p: int) -> bool:
    """
    pre: 1 <= size and 1 <= l1 and 0 <= c1 <= c2
    post: _ == True
    """
    # ONE read of the underlying uploadable returns three strings (cut at c1 <= c2, empty pieces included), as
    # IUploadable.read allows: they must be hashed and encrypted in the order given
    fh = _eu_for(size, l1, size + 1, (c1, c2))
    idaes = _IdAES()
    saved = (up.aes, up.plaintext_hasher, up.plaintext_segment_hasher, up.storage_index_hash)
    up.aes = idaes
    _RecHasher.made = []
    up.plaintext_hasher = _RecHasher
    up.plaintext_segment_hasher = _RecHasher
    up.storage_index_hash = lambda key: b"S" * 16
    try:
        eu = up.EncryptAnUploadable(fh, chunk_size=l1)
        whole = _RecHasher.made[0]
        o1 = _collect(eu.read_encrypted(l1, hash_only))
    finally:
        up.aes, up.plaintext_hasher, up.plaintext_segment_hasher, up.storage_index_hash = saved
    if len(o1) != 1 or isinstance(o1[0], Failure):
        return "read_encrypted failed: %r" % (o1,)
    a1 = l1 if l1 < size else size
    (tot, hit) = _pieces_at(o1[0], p)
    if hash_only:
        if tot != 0:
            return "hash_only read returned ciphertext"
    else:
        if tot != a1:
            return "wrong amount of ciphertext"
        if 0 <= p and p < a1 and hit != ("pt", p):
            return "ciphertext byte p does not come from plaintext byte p (pieces out of order?)"
    r = _fed_ok(idaes.stream, a1, p)
    if r is not True:
        return "encryptor stream: " + r
    r = _fed_ok(whole.fed, a1, p)
    if r is not True:
        return "plaintext hasher: " + r
    segfed = []
    for h in _RecHasher.made[1:]:
        for w in h.fed:
            segfed.append(w)
    r = _fed_ok(segfed, a1, p)
    if r is not True:
        return "segment hasher: " + r
    return True


# ---- FileHandle.get_size: the size is the length of the data the handle yields ----------------------

class _BufferedFile(_ChunkFile):
    """a read/write buffered file object: `size` bytes are readable through the handle, but only `flushed` of them have
    reached the OS so far (what os.fstat on its descriptor reports)"""

    def fileno(self):
        return 987654


def h_get_size(size: int, flushed: int, pos0: int) -> bool:
    """
    pre: 0 <= flushed <= size and 0 <= pos0 <= size
    post: _ == True
    """
    f = _BufferedFile(size, [])
    f.pos = pos0
    fh = up.FileHandle(f, None)
    saved = up.os
    up.os = NS(fstat=lambda fd: NS(st_size=flushed), SEEK_END=2, SEEK_SET=0, urandom=saved.urandom)
    try:
        out = _collect(fh.get_size())
        out2 = _collect(fh.get_size())
    finally:
        up.os = saved
    if out != [size] or out2 != [size]:
        return "get_size() is not the number of bytes the handle yields (whatever its position / OS-level size)"
    if f.pos != 0:
        return "handle not rewound after sizing"
    return True
