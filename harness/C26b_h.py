"""
C26 — the expirer over TWO crawl cycles on a real mutable container (fake file system of harness/_sharefix.py):
real LeaseCheckingCrawler.process_share, real MutableShareFile.get_leases / _enumerate_leases / _read_lease_record /
_get_num_lease_slots / cancel_lease / _write_lease_record / unlink.

A mutable container keeps its first four leases in fixed header slots; cancel_lease blanks a slot in place.  After cycle 1
cancelled an expired lease in a lower slot, cycle 2 must still see (and honour) the lease in the higher slot.
"""
from vlib import hlib
from vlib.hlib import NS, assume   # noqa: F401
import _sharefix as X
from _sharefix import FS, MSF
from allmydata.storage import expirer, crawler as crawler_mod, lease as lease_mod

B = hlib.bounds()
DAY = 24 * 60 * 60
D31 = 31 * DAY
NOTES = list(X.NOTES) + [
    "time.time in storage.expirer / storage.lease: harness clock, standing still during one cycle (t1 in cycle 1, t2 >= t1 in cycle 2)",
    "expirer.get_share_file opens the container with the real MutableShareFile constructor on the fake file system",
    "ShareCrawler.__init__ replaced by: self.state = {}; self.add_initial_state(); _HistorySerializer in-memory; "
    "add_lease_age_to_histogram a recorder; LeaseCheckingCrawler.stat a stub",
]
hlib.encoded(expirer.LeaseCheckingCrawler.process_share, MSF.get_leases, MSF._enumerate_leases, MSF._read_lease_record,
             MSF._get_num_lease_slots, MSF.cancel_lease, MSF._write_lease_record)


def _restore_method(module, cls, name):
    """_sharefix replaces the literal b"\\x00" by a provenance zero-run in every MutableShareFile method that contains it (meant for
    zero *fill*); in cancel_lease the literal builds the blank lease record (32/20 real NUL bytes that go through LeaseInfo's
    validators), so that one method is recompiled here from the current source text, unchanged"""
    import ast
    import inspect
    tree = ast.parse(inspect.getsource(module))
    for node in tree.body:
        if isinstance(node, ast.ClassDef) and node.name == cls.__name__:
            for item in node.body:
                if isinstance(item, ast.FunctionDef) and item.name == name:
                    mod = ast.Module(body=[item], type_ignores=[])
                    ns = {}
                    exec(compile(mod, inspect.getsourcefile(module), "exec"), module.__dict__, ns)
                    fn = ns[name]
                    fn.__qualname__ = "%s.%s" % (cls.__name__, name)
                    setattr(cls, name, fn)
                    return fn
    raise hlib.HarnessError("no method %s.%s" % (cls.__name__, name))


_restore_method(X.mut, MSF, "cancel_lease")
PATH = X.share_path(0)
IPATH = X.share_path(1)
PARENT = X.Parent()
RS = [X.tok("r", i) for i in range(4)]
CS = [X.tok("c", i) for i in range(4)]


class _Clock(object):
    now = 0

    def time(self):
        return _Clock.now


expirer.time = _Clock()
lease_mod.time = expirer.time


class _MemHistory(object):
    def __init__(self, path):
        self.h = {}

    def load(self):
        return dict(self.h)

    def save(self, h):
        self.h = dict(h)


def _fake_sharecrawler_init(self, server, statefile, allowed_cpu_percentage=None):
    self.server = server
    self.state = {}
    self.add_initial_state()


expirer._HistorySerializer = _MemHistory
crawler_mod.ShareCrawler.__init__ = _fake_sharecrawler_init
def _open_share(fn):
    # what allmydata.storage.shares.get_share_file does, on the fake file system: mutable iff the path says so (the real one sniffs the header)
    if fn == IPATH:
        return X.SF(fn)
    return MSF(fn, PARENT)


expirer.get_share_file = _open_share


def _blank():
    return X.mlease_rec(0, 0, b"\x00" * 32, b"\x00" * 32, b"\x00" * 20)


def _slot_leases(st):
    """occupied header slots as seen directly in the file: list of (slot, expiry)"""
    out = []
    for i in range(4):
        rec = X.rec_values(st, X.HEADER_SIZE + i * X.MLEASE, ">LL32s32s20s")
        if rec[0] != 0:
            out.append((i, rec[1]))
    return out


def h_two_cycles_mutable(ea: int, eb: int, t1: int, t2: int, slot_b: int, version: int, cutoff_mode: bool, cutoff: int) -> bool:
    """
    pre: D31 <= ea < X.U32 and D31 <= eb < X.U32
    pre: 0 <= t1 <= t2
    pre: 1 <= slot_b <= 3 and 1 <= version <= 2
    pre: B.get("version") is None or version == B["version"]
    pre: B.get("slot_b") is None or slot_b == B["slot_b"]
    pre: B.get("cutoff_mode") is None or cutoff_mode == B["cutoff_mode"]
    post: _ == True
    """
    return X.guard(_two_cycles, ea, eb, t1, t2, slot_b, version, cutoff_mode, cutoff)


def _expired(expiry, now, cutoff_mode, cutoff):
    renewal = expiry - D31
    if cutoff_mode:
        return renewal < cutoff
    return renewal + D31 < now


def _two_cycles(ea, eb, t1, t2, slot_b, version, cutoff_mode, cutoff):
    X.reset()
    slots = [_blank(), _blank(), _blank(), _blank()]
    slots[0] = X.mlease_rec(1, ea, X.hashed(version, RS[0]), X.hashed(version, CS[0]))
    slots[slot_b] = X.mlease_rec(2, eb, X.hashed(version, RS[1]), X.hashed(version, CS[1]))
    st = X.mk_mutable(PATH, 10, X.DATA_OFFSET + 10, slots, [], version=version)
    ages = []
    c = expirer.LeaseCheckingCrawler(NS(sharedir="/s/shares"), "statefile", "historyfile", True,
                                     "cutoff-date" if cutoff_mode else "age", None, cutoff if cutoff_mode else None,
                                     ("mutable", "immutable"))
    c.stat = lambda fn: NS(st_size=10, st_blocks=1)
    c.add_lease_age_to_histogram = lambda age: ages.append(age)
    live = {0: ea, slot_b: eb}            # model: slot -> expiry of the leases that must still be on the share
    for (cycle, now) in ((1, t1), (2, t2)):
        _Clock.now = now
        c.started_cycle(cycle)
        del ages[:]
        if not FS.os.path.exists(PATH):
            break
        wks = c.process_share(PATH)
        seen = c.state["cycle-to-date"]["leases-per-share-histogram"]
        if seen != {str(len(live)): 1}:
            return "cycle %d: the crawler saw %r leases on a share that holds %d" % (cycle, sorted(seen), len(live))
        if len(ages) != len(live):
            return "cycle %d: not every lease was examined" % cycle
        for slot in sorted(live):
            if _expired(live[slot], now, cutoff_mode, cutoff):
                del live[slot]
        removable = (wks[1] == 0)
        if removable != (len(live) == 0):
            return "cycle %d: share reported %s although %d unexpired lease(s) remain" % (cycle, "removable" if removable else "kept", len(live))
        if FS.os.path.exists(PATH):
            if not live:
                return "cycle %d: all leases expired but the share was not deleted" % cycle
            if _slot_leases(st) != sorted(live.items()):
                return "cycle %d: leases left in the container are not exactly the unexpired ones (in their slots)" % cycle
        elif live:
            return "cycle %d: share deleted while an unexpired lease remained" % cycle
    return True


# ---- immutable container: several leases expiring in the same cycle -------------------------------------------------

hlib.encoded(X.SF.cancel_lease, X.SF.get_leases, X.SF.__init__)


def _imm_leases(st):
    (version, hdr_len, cnt) = X.rec_values(st, 0, ">LLL")
    return cnt


def h_immutable_cycle(n: int, e0: int, e1: int, e2: int, now: int, version: int, cutoff_mode: bool, cutoff: int) -> bool:
    """
    pre: 1 <= n <= B.get("n_max", 3) and B.get("n_min", 1) <= n
    pre: D31 <= e0 < X.U32 and D31 <= e1 < X.U32 and D31 <= e2 < X.U32
    pre: 0 <= now and 1 <= version <= 2
    pre: B.get("version") is None or version == B["version"]
    pre: B.get("cutoff_mode") is None or cutoff_mode == B["cutoff_mode"]
    post: _ == True
    """
    return X.guard(_immutable_cycle, n, e0, e1, e2, now, version, cutoff_mode, cutoff)


def _immutable_cycle(n, e0, e1, e2, now, version, cutoff_mode, cutoff):
    X.reset()
    exps = [e0, e1, e2][:n]
    recs = [X.ilease_rec(1 + i, X.hashed(version, RS[i]), X.hashed(version, CS[i]), exps[i]) for i in range(n)]
    st = X.mk_immutable(IPATH, 10, recs, version=version)
    ages = []
    c = expirer.LeaseCheckingCrawler(NS(sharedir="/s/shares"), "statefile", "historyfile", True,
                                     "cutoff-date" if cutoff_mode else "age", None, cutoff if cutoff_mode else None,
                                     ("mutable", "immutable"))
    c.stat = lambda fn: NS(st_size=10, st_blocks=1)
    c.add_lease_age_to_histogram = lambda age: ages.append(age)
    _Clock.now = now
    c.started_cycle(1)
    wks = c.process_share(IPATH)
    keep = [e for e in exps if not _expired(e, now, cutoff_mode, cutoff)]
    if len(ages) != n or c.state["cycle-to-date"]["leases-per-share-histogram"] != {str(n): 1}:
        return "not every lease was examined"
    if (wks[1] == 0) != (len(keep) == 0) or (wks[2] == 0) != (len(keep) == 0):
        return "share reported %s although %d unexpired lease(s) remain" % ("removable" if wks[1] == 0 else "kept", len(keep))
    exists = FS.os.path.exists(IPATH)
    if not keep:
        if exists:
            return "all %d leases expired in this cycle but the share file is still there (with %d leases)" % (n, _imm_leases(st))
        return True
    if not exists:
        return "share deleted while an unexpired lease remained"
    if _imm_leases(st) != len(keep):
        return "lease count in the container differs from the number of unexpired leases"
    left = [X.rec_values(st, st.size - X.ILEASE * (len(keep) - i), ">L32s32sL")[3] for i in range(len(keep))]
    if left != keep:
        return "leases left in the container are not exactly the unexpired ones, in order"
    return True
