"""
C31 — HTTP and direct storage access agree.

Every obligation runs ONE IStorageServer operation (or a short upload history) twice from the same symbolic server state:
once through storage_client._HTTPStorageServer -> http_client -> loopback -> http_server.HTTPServer routes, once through
storage_client._StorageServer -> FoolscapStorageServer (see _httploop.py for what exactly is real and what is replaced),
both ending in the real StorageServer / BucketWriter / BucketReader / ShareFile / MutableShareFile on the in-memory file
system.  Asserted: same client-visible result, same file-system state afterwards; where cheap, also the independent
byte-array model of the result (so that an error common to both paths does not hide).
"""
from vlib import hlib
from vlib.hlib import ProvBuf, assume
import _httploop as L
from _httploop import X, FS, World, fired, snapshot, same_state, hs, hc, sc
from _sharefix import ILEASE, MLEASE, DATA_OFFSET, MAX_SIZE
from allmydata.storage import immutable as imm, server as server_mod
from allmydata.interfaces import BadWriteEnablerError
from foolscap.api import RemoteException

B = hlib.bounds()
EXCLUDED = []
NOTES = list(L.NOTES)


def _enc(owner, *names):
    """record the named functions of `owner` that exist (a refactor may rename or inline private helpers: a missing name
    must not take every obligation down at import)"""
    for n in names:
        f = getattr(owner, n, None) if not isinstance(owner, dict) else owner.get(n)
        if f is not None:
            try:
                hlib.encoded(f)
            except hlib.HarnessError:
                pass


hlib.encoded(hs.read_range, hs._ReadRangeProducer.resumeProducing, hs._ReadRangeProducer.stopProducing,
             hs.HTTPServer.read_share_chunk, hs.HTTPServer.read_mutable_chunk, hs.HTTPServer.list_shares,
             hs.HTTPServer.enumerate_mutable_shares,
             hc.read_share_chunk, hc.StorageClientImmutables.read_share_chunk, hc.StorageClientImmutables.list_shares,
             hc.StorageClientMutables.read_share_chunk, hc.StorageClientMutables.list_shares,
             sc._HTTPStorageServer.get_buckets, sc._HTTPBucketReader.read, sc._HTTPStorageServer.slot_readv,
             sc._FakeRemoteReference.callRemote, sc._StorageServer.get_buckets, sc._StorageServer.slot_readv,
             server_mod.FoolscapStorageServer.remote_get_buckets, server_mod.FoolscapStorageServer.remote_slot_readv,
             imm.FoolscapBucketReader.remote_read, imm.BucketReader.read, imm.BucketReader.get_length,
             X.SS.get_buckets, X.SS.get_shares, X.SS.slot_readv, X.SS.get_mutable_share_length, X.SS.enumerate_mutable_shares)

RS, CS = X.tok("R", 1), X.tok("C", 1)
_ILEASES = [X.ilease_rec(1, X.hashed(2, X.tok("r", i)), X.hashed(2, X.tok("c", i)), 1000 + i) for i in range(2)]
_SLOTS = [X.mlease_rec(1, 1000 + i, X.hashed(2, X.tok("r", i)), X.hashed(2, X.tok("c", i))) for i in range(4)]


def _pin(x, lo, hi):
    for v in range(lo, hi + 1):
        if x == v:
            return v
    raise hlib.HarnessError("harness: value outside its declared range")


def _outcome(d):
    """('ok', value) | ('err', exception) of an already fired Deferred"""
    try:
        return ("ok", fired(d))
    except hlib.HarnessError:
        raise
    except Exception as e:
        return ("err", e)


def _tb(e):
    import traceback
    try:
        return " | ".join("%s:%d" % (f.filename.split("/")[-1], f.lineno) for f in traceback.extract_tb(e.__traceback__)[-6:])
    except Exception:
        return "?"


def _clip(dl, o, l):
    end = o + l if o + l < dl else dl
    return end - o if end > o else 0


# ---- range reads of immutable shares ----------------------------------------------------------------------------------

def _imm_state(dlen, nl, other):
    X.reset()
    X.mk_immutable(X.share_path(0), dlen, _ILEASES[:nl])
    if other:
        X.mk_immutable(X.share_path(3), 7, _ILEASES[:1])
    FS.fileutil.avail = 2 ** 80


def _imm_read(side_name, dlen, nl, other, shnum, off, ln):
    _imm_state(dlen, nl, other)
    w = World()
    side = getattr(w, side_name)
    readers = fired(side.get_buckets(X.SI))
    nums = sorted(readers.keys())
    if shnum not in readers:
        return nums, None, FS.nops
    return nums, _outcome(readers[shnum].callRemote("read", off, ln)), FS.nops


def h_read_immutable(dlen: int, nl: int, other: bool, off: int, ln: int, p: int) -> bool:
    """
    pre: 0 <= dlen <= B["size_max"] and 0 <= off and B["ln_min"] <= ln <= B["ln_max"] and 0 <= p
    post: _ == True
    """
    return X.guard(_h_read_immutable, dlen, nl, other, off, ln, p)


def _h_read_immutable(dlen, nl, other, off, ln, p):
    nl = B.get("nl", 1)                            # number of leases behind the data (what a case does not vary is a plain value)
    if B.get("other") is not None:
        other = bool(B["other"])
    assume(("zero-length-read" if ln == 0 else "other") not in EXCLUDED)
    (nums_h, res_h, nops_h) = _imm_read("http", dlen, nl, other, 0, off, ln)
    (nums_d, res_d, nops_d) = _imm_read("direct", dlen, nl, other, 0, off, ln)
    if nums_h != nums_d or nums_d != ([0, 3] if other else [0]):
        return "share listing differs between the HTTP and the direct path"
    if nops_h != 0 or nops_d != 0:
        return "a read modified the server state"
    if res_d[0] != "ok":
        return "direct read failed"
    want = _clip(dlen, off, ln)
    got_d = res_d[1]
    if len(got_d) != want or (p < want and got_d.at(p) != ("old", off + p)):
        return "direct read is not bytes [off, min(off+ln, share length))"
    if res_h[0] != "ok":
        return "read through HTTP failed where the direct read succeeds"
    got_h = res_h[1]
    if len(got_h) != want:
        return "read through HTTP returned a different number of bytes than the direct read"
    if p < want and got_h.at(p) != ("old", off + p):
        return "read through HTTP returned different bytes than the direct read"
    return True


# ---- range reads of mutable shares (slot_readv) -------------------------------------------------------------------------

def _mut_state(dl, elo, has2, other=2):
    X.reset()
    FS.split_hint = DATA_OFFSET
    X.mk_mutable(X.share_path(0), dl, elo, list(_SLOTS), [])
    if has2:
        X.mk_mutable(X.share_path(other), 5, DATA_OFFSET + 9, list(_SLOTS), [])
    FS.fileutil.avail = 2 ** 80


_SHARE_ARGS = [[0], [], [2, 0], [0, 1]]          # [] = every share; the second share (if any) is number 2, in the last mode number 1


def _cls_readv(mode, has2, ln_min):
    if mode >= 2 and not has2:
        return "readv-names-missing-share"
    if ln_min == 0:
        return "zero-length-read"
    return "other"


def h_read_mutable(dl: int, elo: int, has2: bool, mode: int, nv: int, o1: int, l1: int, o2: int, l2: int, p: int) -> bool:
    """
    pre: X.mutable_inv(dl, elo) and dl <= B["size_max"]
    pre: 0 <= o1 and B["ln_min"] <= l1 <= B["ln_max"] and 0 <= o2 and B["ln_min"] <= l2 <= B["ln_max"] and 0 <= p
    post: _ == True
    """
    return X.guard(_h_read_mutable, dl, elo, has2, mode, nv, o1, l1, o2, l2, p)


def _h_read_mutable(dl, elo, has2, mode, nv, o1, l1, o2, l2, p):
    (mode, nv) = (B["mode"], B["nv"])
    if B.get("has2") is not None:
        has2 = bool(B["has2"])
    if B.get("dl") is not None:                    # concrete container geometry (what a case does not vary is a plain value)
        (dl, elo) = (B["dl"], DATA_OFFSET + B["dl"] + 7)
    if B.get("second") is not None:                # concrete second read vector
        (o2, l2) = B["second"]
    readv = [(o1, l1), (o2, l2)][:nv]
    other = 1 if mode == 3 else 2
    assume(_cls_readv(mode, has2, l1 if nv == 1 or l1 < l2 else l2) not in EXCLUDED)
    res = {}
    for name in ("http", "direct"):
        _mut_state(dl, elo, has2, other)
        w = World()
        res[name] = _outcome(getattr(w, name).slot_readv(X.SI, list(_SHARE_ARGS[mode]), list(readv)))
        if FS.nops != 0:
            return "slot_readv modified the server state (%s path)" % name
    (kd, vd), (kh, vh) = res["direct"], res["http"]
    if kd != "ok":
        return "direct slot_readv failed"
    want_keys = [n for n in ((0, other) if has2 else (0,)) if (mode == 1 or n in _SHARE_ARGS[mode])]
    if sorted(vd.keys()) != want_keys:
        return "direct slot_readv did not answer for exactly the existing shares among those named"
    if kh != "ok":
        return "slot_readv through HTTP failed where the direct call succeeds"
    if sorted(vh.keys()) != want_keys:
        return "slot_readv through HTTP answered for different shares than the direct call"
    for n in want_keys:
        if len(vd[n]) != nv or len(vh[n]) != nv:
            return "number of read results differs from the number of read vectors"
        sdl = dl if n == 0 else 5
        for i in range(nv):
            (o, l) = readv[i]
            want = _clip(sdl, o, l)
            gd, gh = vd[n][i], vh[n][i]
            if len(gd) != want or (p < want and gd.at(p) != ("old", o + p)):
                return "direct slot_readv result is not bytes [off, min(off+ln, data length))"
            if len(gh) != want:
                return "slot_readv through HTTP returned a different number of bytes than the direct call"
            if p < want and gh.at(p) != ("old", o + p):
                return "slot_readv through HTTP returned different bytes than the direct call"
    return True


# ---- chunked immutable uploads ----------------------------------------------------------------------------------------
hlib.encoded(hs.HTTPServer.allocate_buckets, hs.HTTPServer.write_share_data, hs.UploadsInProgress.add_write_bucket,
             hs.UploadsInProgress.get_write_bucket, hs.UploadsInProgress.remove_write_bucket, hs.UploadsInProgress.validate_upload_secret,
             hc.StorageClientImmutables.create, hc.StorageClientImmutables.write_share_chunk,
             sc._HTTPStorageServer.allocate_buckets, sc._HTTPBucketWriter.write,
             sc._HTTPBucketWriter.close, sc._StorageServer.allocate_buckets, server_mod.FoolscapStorageServer.remote_allocate_buckets,
             imm.FoolscapBucketWriter.remote_write, imm.FoolscapBucketWriter.remote_close, imm.BucketWriter.write,
             imm.BucketWriter.close, imm.BucketWriter.required_ranges, X.SS.allocate_buckets)
_enc(hc.StorageClientImmutables, "_create", "_write_share_chunk", "_list_shares")
_enc(hc.StorageClientMutables, "_list_shares", "_read_test_write_chunks")
_enc(imm.BucketWriter, "_is_finished")


class _Canary(object):
    def notifyOnDisconnect(self, cb, *a, **kw):
        return 1

    def dontNotifyOnDisconnect(self, marker):
        pass


class _RecClient(object):
    """delegating wrapper around the StorageClientImmutables of an _HTTPBucketWriter: remembers each UploadProgress"""

    def __init__(self, real):
        self.real = real
        self.progress = []

    def write_share_chunk(self, *a, **kw):
        d = self.real.write_share_chunk(*a, **kw)

        def rec(r):
            self.progress.append(r)
            return r
        d.addCallback(rec)
        return d

    def __getattr__(self, name):
        return getattr(self.real, name)


def _model_upload(size, chunks):
    """independent model: per chunk 'ok' | 'conflict' | 'too-large' (history stops at the first rejected chunk), accepted list"""
    accepted = []
    verdicts = []
    for (off, ln, tag) in chunks:
        bad = None
        if off + ln > size:
            bad = "too-large"
        else:
            for (o2, l2, t2) in accepted:
                lo = off if off > o2 else o2
                hi = off + ln if off + ln < o2 + l2 else o2 + l2
                if lo < hi and t2 != tag:
                    bad = "conflict"
        if bad:
            verdicts.append(bad)
            break
        verdicts.append("ok")
        accepted.append((off, ln, tag))
    return verdicts, accepted


def _covered(accepted, q):
    for (o, l, _t) in accepted:
        if o <= q < o + l:
            return True
    return False


def _union_len(ivs):
    ivs = sorted([(a, b) for (a, b) in ivs if a < b], key=lambda iv: iv[0])
    total = 0
    cur_a = cur_b = None
    for (a, b) in ivs:
        if cur_a is None:
            cur_a, cur_b = a, b
        elif a <= cur_b:
            if b > cur_b:
                cur_b = b
        else:
            total = total + (cur_b - cur_a)
            cur_a, cur_b = a, b
    if cur_a is not None:
        total = total + (cur_b - cur_a)
    return total


def _upload(side_name, size, chunks, has1, do_close):
    """-> (allocation result, [outcome per chunk], close fired?, visible shares, required-range probe fn, snapshot)"""
    X.reset()
    FS.split_hint = 0xc
    if has1:
        X.mk_immutable(X.share_path(1), 9, _ILEASES[:1])
    FS.fileutil.avail = 2 ** 80
    w = World()
    side = getattr(w, side_name)
    (already, writers) = fired(side.allocate_buckets(X.SI, RS, CS, set([0, 1]), size, _Canary()))
    alloc = (sorted(already), sorted(writers.keys()))
    if 0 not in writers:
        return alloc, [], None, None, None, snapshot()
    bw = writers[0]
    rec = None
    if side_name == "http":
        rec = _RecClient(bw.local_object.client)
        bw.local_object.client = rec
    outs = []
    for (off, ln, tag) in chunks:
        o = _outcome(bw.callRemote("write", off, ProvBuf.src(tag, ln, off)))
        outs.append(o)
        if o[0] != "ok":
            break
    closed = None
    if do_close:
        box = []
        bw.callRemote("close").addBoth(box.append)
        closed = bool(box)
        if box and isinstance(box[0], L.Failure):
            L._raise_if_control(box[0])
            closed = "failed"
    visible = [n for n in (0, 1) if FS.os.path.isfile(X.share_path(n))]        # (listing itself: read_immutable / list_lease)
    return alloc, outs, closed, visible, rec, snapshot()


def _cls_upload(size, chunks):
    """zero-length-write: a chunk of length 0; rejected-chunk-longer-than-64KiB: the chunk that is refused (conflict / beyond the
    allocated size) is longer than the 65536-byte pieces in which the HTTP server applies a PATCH"""
    for (_o, l, _t) in chunks:
        if l == 0:
            return "zero-length-write"
    verdicts, _acc = _model_upload(size, chunks)
    if verdicts[-1] != "ok" and chunks[len(verdicts) - 1][1] > 65536:
        return "rejected-chunk-longer-than-64KiB"
    return "other"


def _chunks(n, o1, l1, o2, l2, b2, o3, l3, b3):
    return [(o1, l1, "A"), (o2, l2, "B" if b2 else "A"), (o3, l3, "B" if b3 else "A")][:n]


def h_upload(size: int, n: int, o1: int, l1: int, o2: int, l2: int, b2: bool, o3: int, l3: int, b3: bool, has1: bool, p: int) -> bool:
    """
    pre: 1 <= size <= B["size_max"] and 0 <= p
    pre: 0 <= o1 and B["ln_min"] <= l1 <= B["ln_max"] and 0 <= o2 and B["ln_min"] <= l2 <= B["ln_max"] and 0 <= o3 and B["ln_min"] <= l3 <= B["ln_max"]
    pre: B.get("shape") is None or _shape(o1, l1, o2, l2) == B["shape"]
    pre: B.get("l1_min") is None or l1 >= B["l1_min"]
    pre: B.get("third") != "from-end-of-second" or o3 == o2 + l2
    pre: B.get("fits") is None or o1 + l1 <= size
    pre: B.get("complete") is None or (_span2(o1, l1, o2, l2) == size) == (B["complete"] == 1)
    pre: B.get("probe") is None or (p < (o1 if o1 < o2 else o2)) == (B["probe"] == 0)
    post: _ == True
    """
    return X.guard(_h_upload, size, n, o1, l1, o2, l2, b2, o3, l3, b3, has1, p)


def _span2(o1, l1, o2, l2):
    """length of the union of two overlapping or touching chunks"""
    lo = o1 if o1 < o2 else o2
    hi = o1 + l1 if o1 + l1 > o2 + l2 else o2 + l2
    return hi - lo


def _shape(o1, l1, o2, l2):
    """relative position of the first two chunks: 0 second entirely before the first (a gap between them), 2 entirely after;
    overlapping or touching: 10 + (2 if the second starts after the first starts) + (1 if the second ends after the first ends)"""
    if o2 + l2 < o1:
        return 0
    if o1 + l1 < o2:
        return 2
    return 10 + (2 if o2 > o1 else 0) + (1 if o2 + l2 > o1 + l1 else 0)


def _h_upload(size, n, o1, l1, o2, l2, b2, o3, l3, b3, has1, p):
    n = B["n"]
    if B.get("has1") is not None:
        has1 = bool(B["has1"])
    if B.get("conflict") is not None:
        (b2, b3) = (bool(B["conflict"]), bool(B["conflict"]) and n >= 3 and b3)
    chunks = _chunks(n, o1, l1, o2, l2, b2, o3, l3, b3)
    assume(_cls_upload(size, chunks) not in EXCLUDED)
    verdicts, accepted = _model_upload(size, chunks)
    complete = len(accepted) == n and _union_len([(o, o + l) for (o, l, _t) in accepted]) == size
    # client precondition: nothing more is sent once every byte has been written (the HTTP server finalises the share at that
    # moment, the Foolscap one when close() is called: a write after completion is a client error on both, with different symptoms)
    for i in range(1, len(verdicts)):
        assume(_union_len([(o, o + l) for (o, l, _t) in accepted[:i]]) != size)
    (alloc_h, outs_h, closed_h, vis_h, rec, snap_h) = _upload("http", size, chunks, has1, True)
    (alloc_d, outs_d, closed_d, vis_d, _r, snap_d) = _upload("direct", size, chunks, has1, complete)
    want_alloc = ([1] if has1 else [], [0] if has1 else [0, 1])
    if alloc_d != want_alloc:
        return "direct allocate_buckets: already-have / allocated sets"
    if alloc_h != alloc_d:
        return "allocate_buckets through HTTP reports different already-have / allocated sets than the direct call"
    if len(outs_h) != len(verdicts) or len(outs_d) != len(verdicts):
        return "number of chunks processed differs from the model"
    for i in range(len(verdicts)):
        if (outs_d[i][0] == "ok") != (verdicts[i] == "ok"):
            return "direct write: accepted/rejected differs from the model (%s)" % verdicts[i]
        if (outs_h[i][0] == "ok") != (verdicts[i] == "ok"):
            return "write through HTTP accepted/rejected differently from the direct write (%s)" % verdicts[i]
    if rec is None or len(rec.progress) != len(accepted):
        return "harness: upload progress was not recorded for every accepted chunk"
    # completion detection, chunk by chunk
    for i in range(len(accepted)):
        fin = _union_len([(o, o + l) for (o, l, _t) in accepted[:i + 1]]) == size
        if rec.progress[i].finished != fin:
            return "HTTP write reported finished=%r although the written ranges %s cover the share" % (rec.progress[i].finished, "do" if fin else "do not")
    if accepted:
        req = rec.progress[-1].required
        if (req.get(p) is not None) != (p < size and not _covered(accepted, p)):
            return "the `required` ranges reported over HTTP are not the unwritten bytes of the share"
    if complete:
        if closed_h is not True:
            return "HTTP upload complete but close() did not fire"
        if closed_d is not True:
            return "direct close failed"
    else:
        if closed_h is not False:
            return "HTTP close() fired although the upload is not complete"
    want_vis = sorted(([0] if complete else []) + ([1] if has1 else []))
    if vis_d != want_vis:
        return "direct path: visible shares"
    if vis_h != vis_d:
        return "shares visible through HTTP differ from the direct path"
    bad = same_state(snap_h, snap_d)
    if bad:
        return "server state after the upload differs between the paths: " + bad
    return True


# ---- read-test-write ------------------------------------------------------------------------------------------------------
# (the log statements of _evaluate_test_vectors/_evaluate_write_vectors, which format the symbolic vectors, are cut in _httploop.py)
hlib.encoded(hs.HTTPServer.mutable_read_test_write, hc.StorageClientMutables.read_test_write_chunks, hc.TestWriteVectors.asdict,
             sc._HTTPStorageServer.slot_testv_and_readv_and_writev, sc._StorageServer.slot_testv_and_readv_and_writev,
             server_mod.FoolscapStorageServer.remote_slot_testv_and_readv_and_writev, X.SS.slot_testv_and_readv_and_writev)
_enc(X.SS, "_collect_mutable_shares_for_storage_index", "_evaluate_read_vectors", "_add_or_renew_leases", "_make_lease_info", "_iter_share_files")

_ZREC = X.FStruct.pack(">LL32s32s20s", 0, 0, b"\x00" * 32, b"\x00" * 32, b"\x00" * 20)


def _mslots(renewing):
    """4 in-header lease slots: two taken (the second one by the caller's renew secret iff `renewing`), two free"""
    second = X.mlease_rec(1, 500, X.hashed(2, RS), X.hashed(2, CS)) if renewing else _SLOTS[1]
    return [_SLOTS[0], second, _ZREC, _ZREC]


def _rtw(side_name, dl, elo, has2, renewing, secrets, tw, rv):
    X.reset()
    FS.split_hint = DATA_OFFSET
    X.mk_mutable(X.share_path(0), dl, elo, _mslots(renewing), [])
    if has2:
        X.mk_mutable(X.share_path(2), 5, DATA_OFFSET + 9, _mslots(False), [])
    FS.fileutil.avail = 2 ** 80
    w = World()
    out = _outcome(getattr(w, side_name).slot_testv_and_readv_and_writev(X.SI, secrets, tw, rv))
    return out, FS.nops, snapshot()


def h_rtw(dl: int, elo: int, has2: bool, good_we: bool, renewing: bool, tl: int, so: int, sl: int, wo: int, wl: int,
          nlkind: int, newlen: int, create1: bool, ro: int, rl: int, p: int) -> bool:
    """
    pre: X.mutable_inv(dl, elo) and dl <= B["size_max"]
    pre: 0 <= tl and 0 <= so and 0 <= sl and 0 <= wo and 0 <= wl and wo + wl <= MAX_SIZE and 0 <= newlen and 0 <= ro and 0 <= rl and 0 <= p
    pre: B.get("wshape") is None or _wshape(dl, wo, wl) == B["wshape"]
    post: _ == True
    """
    return X.guard(_h_rtw, dl, elo, has2, good_we, renewing, tl, so, sl, wo, wl, nlkind, newlen, create1, ro, rl, p)


def _wshape(dl, wo, wl):
    """where the write vector lies relative to the current data: 0 inside, 1 extends the data, 2 starts beyond the end (gap)"""
    if wo + wl <= dl:
        return 0
    if wo <= dl:
        return 1
    return 2


def _h_rtw(dl, elo, has2, good_we, renewing, tl, so, sl, wo, wl, nlkind, newlen, create1, ro, rl, p):
    # what a case does not vary is a plain Python value (no solver work on it); B["vary"] names the symbolic part of the request
    vary = B["vary"]
    good_we = True
    nlkind = B["nlkind"]
    has2, create1, renewing = bool(B["has2"]), bool(B["create1"]), bool(B["renewing"])
    if B.get("dl") is not None:
        (dl, elo) = (B["dl"], DATA_OFFSET + B["dl"] + 10)
    so = 0
    if vary != "test":
        (tl, sl) = (2, 2)                    # passes whenever the share has two bytes
    if vary != "write":
        (wo, wl) = (dl, 3)                          # an append
    if vary != "read":
        (ro, rl, p) = (0, 1, 0)
    if vary != "new-length":
        newlen = 7
    assume(wo + wl <= MAX_SIZE)                    # (a write beyond the maximum container size fails on both paths: C23)
    nl = None if nlkind == 0 else (0 if nlkind == 1 else newlen)
    if nlkind == 2:
        assume(newlen > 0)
    secrets = (X.WE_GOOD if good_we else X.WE_BAD, RS, CS)

    def vectors():
        tw = {0: ([(0, tl, ProvBuf.src("old", sl, so))], [(wo, ProvBuf.src("new", wl))], nl)}
        if create1:
            tw[1] = ([], [(0, ProvBuf.src("n1", 7))], None)
        return tw, [(ro, rl)]
    (tw, rv) = vectors()
    (out_h, nops_h, snap_h) = _rtw("http", dl, elo, has2, renewing, secrets, tw, rv)
    (tw, rv) = vectors()
    (out_d, nops_d, snap_d) = _rtw("direct", dl, elo, has2, renewing, secrets, tw, rv)
    if not good_we:
        if out_d[0] != "err" or not isinstance(out_d[1], BadWriteEnablerError):
            return "direct call with a wrong write enabler must fail with BadWriteEnablerError"
        if out_h[0] != "err" or not isinstance(out_h[1], RemoteException):
            return "HTTP call with a wrong write enabler must fail with RemoteException"
        if nops_h != 0 or nops_d != 0:
            return "a request with a wrong write enabler modified the server state"
        return True
    if out_d[0] != "ok":
        return "direct read-test-write failed: " + type(out_d[1]).__name__ + " " + _tb(out_d[1])
    if out_h[0] != "ok":
        return "read-test-write through HTTP failed where the direct call succeeds"
    (ok_d, reads_d), (ok_h, reads_h) = out_d[1], out_h[1]
    cl = _clip(dl, 0, tl)
    passes = (cl == sl) and (cl == 0 or so == 0)
    if ok_d != passes:
        return "direct result flag is not the outcome of the test vector"
    if ok_h != ok_d or not isinstance(ok_h, bool):
        return "success flag through HTTP differs from the direct call"
    keys = [0, 2] if has2 else [0]
    if sorted(reads_d.keys()) != keys:
        return "direct call: reads must be reported for exactly the existing shares"
    if sorted(reads_h.keys()) != keys:
        return "reads reported through HTTP are for different shares than the direct call"
    for n in keys:
        if len(reads_d[n]) != 1 or len(reads_h[n]) != 1:
            return "one read result per read vector expected"
        want = _clip(dl if n == 0 else 5, ro, rl)
        gd, gh = reads_d[n][0], reads_h[n][0]
        if len(gd) != want or (p < want and gd.at(p) != ("old", ro + p)):
            return "direct call: read data is not the data before the write"
        if len(gh) != want or (p < want and gh.at(p) != ("old", ro + p)):
            return "read data through HTTP differs from the direct call"
    bad = same_state(snap_h, snap_d)
    if bad:
        return "server state after read-test-write differs between the paths: " + bad
    if not passes and (nops_h != 0 or nops_d != 0):
        return "failed test vector but the state was modified"
    return True



def h_rtw_bad_enabler(has2: bool, bad0: bool, bad2: bool, create1: bool, given_good: bool) -> bool:
    """
    pre: has2 or not bad2
    post: _ == True
    """
    return X.guard(_h_rtw_bad_enabler, has2, bad0, bad2, create1, given_good)


def _h_rtw_bad_enabler(has2, bad0, bad2, create1, given_good):
    (dl, elo) = (10, DATA_OFFSET + 12)
    # shares 0 (and 2) were made with the good or the bad enabler; the request presents the good or the bad one
    outs = {}
    for name in ("http", "direct"):
        X.reset()
        FS.split_hint = DATA_OFFSET
        X.mk_mutable(X.share_path(0), dl, elo, _mslots(False), [], we=X.WE_BAD if bad0 else X.WE_GOOD)
        if has2:
            X.mk_mutable(X.share_path(2), 5, DATA_OFFSET + 9, _mslots(False), [], we=X.WE_BAD if bad2 else X.WE_GOOD)
        FS.fileutil.avail = 2 ** 80
        w = World()
        tw = {0: ([], [(0, ProvBuf.src("new", 3))], None)}
        if create1:
            tw[1] = ([], [(0, ProvBuf.src("n1", 7))], None)
        secrets = (X.WE_GOOD if given_good else X.WE_BAD, RS, CS)
        outs[name] = (_outcome(getattr(w, name).slot_testv_and_readv_and_writev(X.SI, secrets, tw, [(0, 1)])), FS.nops, snapshot())
    (out_h, nops_h, snap_h), (out_d, nops_d, snap_d) = outs["http"], outs["direct"]
    mismatch = (bad0 == given_good) or (has2 and (bad2 == given_good))
    if (out_d[0] == "err") != mismatch:
        return "direct call: BadWriteEnablerError iff some existing share was made with another enabler"
    if out_d[0] != out_h[0]:
        return "write-enabler verdict through HTTP differs from the direct call"
    if mismatch:
        if not isinstance(out_d[1], BadWriteEnablerError) or not isinstance(out_h[1], RemoteException):
            return "wrong write enabler must surface as BadWriteEnablerError (direct) / RemoteException (HTTP)"
        if nops_h != 0 or nops_d != 0:
            return "a request with a wrong write enabler modified the server state"
        return True
    if out_h[1][0] is not True or out_d[1][0] is not True:
        return "request with empty test vectors and the right enabler must succeed"
    bad = same_state(snap_h, snap_d)
    if bad:
        return "server state differs between the paths: " + bad
    return True


class _RecServer(object):
    """recording stand-in for StorageServer (marshalling obligation): remembers the arguments, returns canned answers"""

    def __init__(self, answer):
        self.calls = []
        self.answer = answer
        self._close_handlers = []

    def register_bucket_writer_close_handler(self, handler):
        self._close_handlers.append(handler)

    def slot_testv_and_readv_and_writev(self, storage_index, secrets, test_and_write_vectors, read_vector, renew_leases=True):
        self.calls.append((storage_index, secrets, test_and_write_vectors, read_vector, renew_leases))
        if self.answer == "bad-enabler":
            raise BadWriteEnablerError("The write enabler was recorded by nodeid 'x'.")
        return self.answer


def _seq_equal(a, b):
    """structural equality where a list and a tuple with equal items are the same (Foolscap and CBOR both carry arrays)"""
    if isinstance(a, (list, tuple)) and isinstance(b, (list, tuple)):
        if len(a) != len(b):
            return False
        for (x, y) in zip(a, b):
            if not _seq_equal(x, y):
                return False
        return True
    if isinstance(a, dict) and isinstance(b, dict):
        if sorted(a.keys()) != sorted(b.keys()):
            return False
        for k in a:
            if not _seq_equal(a[k], b[k]):
                return False
        return True
    if isinstance(a, ProvBuf) or isinstance(b, ProvBuf):
        return a is b
    if type(a) is bool or type(b) is bool or a is None or b is None:
        return a is b
    return a == b


# request shapes of the marshalling obligation: (share numbers, #test vectors, #write vectors, #read vectors, new_length given
# for the first share?, for the second share?) -- ONE selector picks a row (the integers inside the vectors are what is symbolic)
_SHAPES = [
    ((), 0, 0, 0, 0, 0),
    ((0,), 0, 0, 0, 0, 0),
    ((3,), 1, 1, 1, 1, 0),
    ((255,), 2, 2, 2, 0, 0),
    ((0, 1), 2, 2, 2, 1, 0),
    ((255, 3), 1, 2, 0, 0, 1),
    ((7, 0), 0, 1, 2, 1, 1),
    ((1, 200), 2, 0, 1, 0, 0),
]


def h_rtw_marshalling(shape: int, answer: int, to0: int, ts0: int, to1: int, ts1: int, wo0: int, wo1: int,
                      nl0: int, nl1: int, ro0: int, rs0: int, ro1: int, rs1: int) -> bool:
    """
    pre: 0 <= shape < len(_SHAPES) and 0 <= answer <= 2
    pre: 0 <= to0 and 0 <= ts0 and 0 <= to1 and 0 <= ts1 and 0 <= wo0 and 0 <= wo1 and 0 <= nl0 and 0 <= nl1
    pre: 0 <= ro0 and 0 <= rs0 and 0 <= ro1 and 0 <= rs1
    pre: B.get("answer") is None or answer == B["answer"]
    post: _ == True
    """
    return X.guard(_h_rtw_marshalling, shape, answer, to0, ts0, to1, ts1, wo0, wo1, nl0, nl1, ro0, rs0, ro1, rs1)


def _h_rtw_marshalling(shape, answer, to0, ts0, to1, ts1, wo0, wo1, nl0, nl1, ro0, rs0, ro1, rs1):
    answer = _pin(answer, 0, 2)
    (shnums, nt, nw, nr, nlk0, nlk1) = _SHAPES[_pin(shape, 0, len(_SHAPES) - 1)]
    spec = [ProvBuf.src("sp0", 4), ProvBuf.src("sp1", 2)]
    wdata = [ProvBuf.src("wd0", 5), ProvBuf.src("wd1", 1)]
    back = [ProvBuf.src("rd0", 3), ProvBuf.src("rd1", 6)]
    tw = {}
    for (i, n) in enumerate(shnums):
        testv = [(to0, ts0, spec[0]), (to1, ts1, spec[1])][:nt] if i == 0 else []
        writev = [(wo0, wdata[0]), (wo1, wdata[1])][:nw] if i == 0 else [(wo1, wdata[1])]
        (k, v) = (nlk0, nl0) if i == 0 else (nlk1, nl1)
        tw[n] = (testv, writev, v if k else None)
    rv = [(ro0, rs0), (ro1, rs1)][:nr]
    secrets = (X.WE_GOOD, RS, CS)
    canned = [(True, {3: [back[0], back[1]], 200: [b""]}), (False, {}), "bad-enabler"][answer]
    seen = {}
    for name in ("http", "direct"):
        X.reset()
        w = World()
        rec = _RecServer(canned)
        w.http_server._storage_server = rec
        w.fss._server = rec
        out = _outcome(getattr(w, name).slot_testv_and_readv_and_writev(X.SI, secrets, tw, rv))
        if len(rec.calls) != 1:
            return "the %s path must call StorageServer.slot_testv_and_readv_and_writev exactly once" % name
        seen[name] = (rec.calls[0], out)
    (call_h, out_h), (call_d, out_d) = seen["http"], seen["direct"]
    # independent statement of the expected arguments: the caller's vectors with the b"eq" operator spliced into each test vector
    want_tw = dict((n, ([(o, sz, b"eq", sp) for (o, sz, sp) in t], list(wv), nl)) for (n, (t, wv, nl)) in tw.items())
    want = (X.SI, secrets, want_tw, rv, True)
    for (name, call) in (("direct", call_d), ("HTTP", call_h)):
        if not _seq_equal(call, want):
            return "the %s path hands different arguments to StorageServer.slot_testv_and_readv_and_writev than the caller gave" % name
    if answer == 2:
        if out_d[0] != "err" or not isinstance(out_d[1], BadWriteEnablerError):
            return "direct: BadWriteEnablerError must propagate"
        if out_h[0] != "err" or not isinstance(out_h[1], RemoteException):
            return "HTTP: a BadWriteEnablerError of the server must reach the caller as RemoteException"
        return True
    for (name, out) in (("direct", out_d), ("HTTP", out_h)):
        if out[0] != "ok":
            return "%s call failed" % name
        (ok, reads) = out[1]
        if ok is not canned[0] or not _seq_equal(reads, canned[1]):
            return "the %s path does not return the server's (success, read data) unchanged" % name
    return True


# ---- share listing and lease addition ------------------------------------------------------------------------------------
_enc(hc.StorageClientGeneral, "_add_or_renew_lease")
hlib.encoded(hs.HTTPServer.add_or_renew_lease, hc.StorageClientGeneral.add_or_renew_lease,
             sc._HTTPStorageServer.add_lease, sc._StorageServer.add_lease, server_mod.FoolscapStorageServer.remote_add_lease,
             X.SS.add_lease)


def _lease_state(mutable, have0, have2, junk, dlen, elo, renewing):
    X.reset()
    FS.split_hint = DATA_OFFSET if mutable else 0xc
    if mutable:
        if have0:
            X.mk_mutable(X.share_path(0), dlen, elo, _mslots(renewing), [])
        if have2:
            X.mk_mutable(X.share_path(2), 5, DATA_OFFSET + 9, _mslots(False), [])
    else:
        mine = X.ilease_rec(1, X.hashed(2, RS), X.hashed(2, CS), 500)
        if have0:
            X.mk_immutable(X.share_path(0), dlen, [_ILEASES[0], mine] if renewing else [_ILEASES[0]])
        if have2:
            X.mk_immutable(X.share_path(2), 5, [_ILEASES[1]])
    if junk:
        FS.put(X.BUCKET + "/README", [], [(b"not a share", 0, 11)], 11, split=0, mkdirs=False)


def h_list_lease(mutable: bool, have0: bool, have2: bool, junk: bool, dlen: int, elo: int, renewing: bool, avail: int) -> bool:
    """
    pre: 0 <= dlen <= B["size_max"] and (X.mutable_inv(dlen, elo) if mutable else elo == 0) and 0 <= avail
    pre: mutable == (B["mutable"] == 1) and (B.get("have0") is None or have0 == (B["have0"] == 1))
    post: _ == True
    """
    return X.guard(_h_list_lease, mutable, have0, have2, junk, dlen, elo, renewing, avail)


def _h_list_lease(mutable, have0, have2, junk, dlen, elo, renewing, avail):
    res = {}
    for name in ("http", "direct"):
        _lease_state(mutable, have0, have2, junk, dlen, elo, renewing)
        FS.fileutil.avail = avail
        w = World()
        side = getattr(w, name)
        if mutable:
            listing = _outcome(side.slot_readv(X.SI, [], []))
        else:
            listing = _outcome(side.get_buckets(X.SI))
        if FS.nops != 0:
            return "listing modified the server state"
        lease = _outcome(side.add_lease(X.SI, RS, CS))
        res[name] = (listing, lease, FS.nops, snapshot())
    (list_h, lease_h, nops_h, snap_h), (list_d, lease_d, nops_d, snap_d) = res["http"], res["direct"]
    want = [n for (n, have) in ((0, have0), (2, have2)) if have]
    if list_d[0] != "ok" or sorted(list_d[1].keys()) != want:
        return "direct listing is not the set of stored share numbers"
    if list_h[0] != "ok" or sorted(list_h[1].keys()) != want:
        return "listing through HTTP differs from the direct listing"
    if lease_d[0] != lease_h[0]:
        return "add_lease through HTTP %s where the direct call %s" % ("fails" if lease_h[0] == "err" else "succeeds", "fails" if lease_d[0] == "err" else "succeeds")
    if lease_d[0] == "ok" and (lease_d[1] is not None or lease_h[1] is not None):
        return "add_lease must return None on both paths"
    if not want and (nops_h != 0 or nops_d != 0):
        return "add_lease without any share modified the server state"
    bad = same_state(snap_h, snap_d)
    if bad:
        return "server state after add_lease differs between the paths: " + bad
    # independent check on one path: the lease (RS, CS) with the new expiry is on share 0 afterwards, exactly once
    if have0 and lease_d[0] == "ok":
        leases = list(w.ss.get_slot_leases(X.SI) if mutable else w.ss.get_leases(X.SI))
        mine = [li for li in leases if li.is_renew_secret(RS)]
        if len(mine) != 1 or mine[0].get_expiration_time() != 1000 + 31 * 24 * 60 * 60:
            return "after add_lease the share must carry exactly one lease with the caller's secrets, expiring 31 days from now"
    return True


# ---- the two range kernels on their own (no storage server, integers unbounded) ----------------------------------------------

class _Share(object):
    """abstract share of `avail` bytes: read(offset, length) returns the provenance of bytes [offset, min(offset+length, avail))"""

    def __init__(self, avail):
        self.avail = avail
        self.calls = []

    def read(self, offset, length):
        self.calls.append((offset, length))
        end = offset + length if offset + length < self.avail else self.avail
        if end <= offset:
            return b""
        return ProvBuf.src("S", end - offset, offset)


def _range_header(kind, a, b):
    """Range header text of the kernel obligation: None | single closed range | other unit | two ranges | open-ended | garbage"""
    if kind == 0:
        return None
    if kind == 1:
        return L.SymRange("bytes", [(a, b)]).to_header()
    if kind == 2:
        return L.SymRange("lines", [(a, b)]).to_header()
    if kind == 3:
        L._TAB.append(("range", "bytes", [(a, b), (b + 5, b + 9)]))
        return "bytes=<verif-sym-%d>" % (len(L._TAB) - 1)
    if kind == 4:
        return "bytes=5-"
    if kind == 5:
        return "bytes=-5"
    return "bytes=abc"


def h_server_read_range(kind: int, a: int, b: int, share_length: int, p: int) -> bool:
    """
    pre: 0 <= kind <= 6 and 0 <= a < b and 0 <= share_length and 0 <= p
    pre: B.get("kind") is None or kind == B["kind"]
    post: _ == True
    """
    return X.guard(_h_server_read_range, kind, a, b, share_length, p)


def _h_server_read_range(kind, a, b, share_length, p):
    kind = _pin(kind, 0, 6)
    del L._TAB[:]
    hdrs = L.Headers()
    text = _range_header(kind, a, b)
    if text is not None:
        hdrs.setRawHeaders("range", [text])
    req = L.ServerRequest(b"GET", b"/x", hdrs, None)
    share = _Share(share_length)
    end = b if b < share_length else share_length
    if kind == 0:
        assume(share_length <= B["body_max"])
    elif kind == 1:
        assume(end - a <= B["body_max"])
    err = None
    d = None
    try:
        d = hs.read_range(req, share.read, share_length)
    except hs._HTTPError as e:
        err = e
    if kind >= 2:
        if err is None or err.code != hs.http.REQUESTED_RANGE_NOT_SATISFIABLE or share.calls or req.producer is not None:
            return "a Range header that is not one closed byte range must be refused with 416 before anything is read"
        return True
    if kind == 1 and a >= end:
        if err is None or err.code != hs.http.NO_CONTENT or share.calls or req.producer is not None:
            return "a range that selects no byte of the share must be answered 204 without reading"
        return True
    if err is not None:
        return "satisfiable request refused with %r" % (err.code,)
    n = 0
    while req.producer is not None:
        n += 1
        if n > 16:
            return "producer does not terminate"
        req.producer.resumeProducing()
    box = []
    d.addBoth(box.append)
    if box != [b""]:
        return "the route's Deferred must fire with an empty body once everything is written"
    (lo, hi) = (a, end) if kind == 1 else (0, share_length)
    body = ProvBuf()
    for piece in req.written:
        if len(piece) > 65536:
            return "a piece larger than 65536 bytes was written"
        body = body + piece
    if len(body) != hi - lo:
        return "body length is not the number of selected bytes"
    if p < hi - lo and body.at(p) != ("S", lo + p):
        return "body is not bytes [start, min(end, share length)) of the share"
    for (o, l) in share.calls:
        if l > 65536:
            return "more than 65536 bytes requested from the share in one read"
    if kind == 1:
        if req.code != hs.http.PARTIAL_CONTENT:
            return "a satisfiable range must be answered 206"
        cr = L.sym_parse_content_range_header(req.responseHeaders.getRawHeaders("content-range")[0])
        if cr is None or cr.units != "bytes" or cr.start != a or cr.stop != end:
            return "Content-Range does not announce exactly the bytes sent"
    else:
        if req.code != 200 or req.responseHeaders.hasHeader("content-range"):
            return "a request without Range header must be answered 200 with the whole share"
    return True


class _CannedClient(object):
    """what http_client.read_share_chunk uses of StorageClient: relative_url, request, _clock"""

    def __init__(self, response):
        self.response = response
        self.requests = []
        self._clock = X.Clock(0)

    def relative_url(self, path):
        return path

    def request(self, method, url, **kw):
        self.requests.append((method, url, kw))
        return L.defer.succeed(self.response)


_CODES = [204, 206, 200, 404, 416, 500, 201]
_read_share_chunk = hc.read_share_chunk


def h_client_read_chunk(code_k: int, ct: int, cr: int, start: int, stop: int, blen: int, offset: int, length: int, mutable: bool, p: int) -> bool:
    """
    pre: 0 <= code_k < len(_CODES) and 0 <= ct <= 2 and 0 <= cr <= 3 and 0 <= start and 0 <= stop and 0 <= blen <= B["body_max"]
    pre: 0 <= offset and 1 <= length and 0 <= p
    pre: (B.get("code_k") is None or code_k == B["code_k"]) and (B.get("not_code_k") is None or code_k != B["not_code_k"])
    pre: B.get("ct") is None or ct == B["ct"]
    post: _ == True
    """
    return X.guard(_h_client_read_chunk, code_k, ct, cr, start, stop, blen, offset, length, mutable, p)


def _h_client_read_chunk(code_k, ct, cr, start, stop, blen, offset, length, mutable, p):
    code = _CODES[_pin(code_k, 0, len(_CODES) - 1)]
    ct, cr = _pin(ct, 0, 2), _pin(cr, 0, 3)
    if code != 206 or ct != 0 or cr != 0:
        # the numbers only matter for a 206 with the right content type and a Content-Range that parses
        (start, stop, blen, offset, length, p) = (5, 15, 10, 5, 10, 3)
    del L._TAB[:]
    hdrs = L.Headers()
    if ct < 2:
        hdrs.setRawHeaders("content-type", [["application/octet-stream", "text/html"][ct]])
    # Content-Range: 0 = "bytes start-(stop-1)/*" (valid iff start < stop), 1 = absent, 2 = unparsable text, 3 = "bytes */5"
    if cr == 0:
        L._TAB.append(("content-range", "bytes", (start, stop, None)))
        hdrs.setRawHeaders("content-range", ["bytes <verif-sym-%d>" % (len(L._TAB) - 1)])
    elif cr == 2:
        hdrs.setRawHeaders("content-range", ["garbage"])
    elif cr == 3:
        hdrs.setRawHeaders("content-range", ["bytes */5"])
    pieces = []
    if blen > 1:
        pieces = [ProvBuf.src("body", 1, 0), ProvBuf.src("body", blen - 1, 1)]        # the body arrives in two pieces
    elif blen == 1:
        pieces = [ProvBuf.src("body", 1, 0)]
    resp = L.ClientResponse(code, hdrs, pieces)
    client = _CannedClient(resp)
    out = _outcome(_read_share_chunk(client, "mutable" if mutable else "immutable", X.SI, 7, offset, length))
    # the request: GET of the share's URL with a Range header that denotes exactly [offset, offset+length)
    if len(client.requests) != 1:
        return "exactly one request expected"
    (method, url, kw) = client.requests[0]
    if method != "GET" or url != "/storage/v1/%s/%s/7" % ("mutable" if mutable else "immutable", "a" * 26):
        return "wrong method / URL"
    rng = L.sym_parse_range_header(kw["headers"].getRawHeaders("range")[0])
    if rng is None or rng.units != "bytes" or len(rng.ranges) != 1 or rng.ranges[0][0] != offset or rng.ranges[0][1] != offset + length:
        return "the Range header does not denote [offset, offset+length)"
    # the answer
    if code == 204:
        if out[0] != "ok" or len(out[1]) != 0:
            return "204 means: no bytes in that range; must return empty data"
        return True
    announced_ok = (cr == 0 and start < stop)
    good = (code == 206 and ct == 0 and announced_ok and stop - start <= length and blen == stop - start)
    if good:
        if out[0] != "ok":
            return "well-formed 206 answer refused"
        if len(out[1]) != blen or (p < blen and out[1].at(p) != ("body", p)):
            return "returned data is not the response body"
        return True
    if out[0] != "err":
        return "data returned from an answer that is not a well-formed 206 (status %d, content-type kind %d, content-range kind %d)" % (code, ct, cr)
    if code != 206 and ct == 0 and not isinstance(out[1], hc.ClientException):
        return "unexpected status must raise ClientException"
    if code != 206 and ct == 0 and out[1].code != code:
        return "ClientException must carry the status code"
    return True



# ---- the upload route on its own (recording bucket, integers unbounded) ---------------------------------------------------------

class _RecBucket(object):
    """what HTTPServer.write_share_data uses of BucketWriter: write / close / required_ranges"""

    def __init__(self, fin_at, conf_at, r0, r1):
        self.writes = []
        self.closed = 0
        self.fin_at, self.conf_at, self.r0, self.r1 = fin_at, conf_at, r0, r1

    def write(self, offset, data):
        i = len(self.writes)
        if i == self.conf_at:
            raise imm.ConflictingWriteError("Chunk doesn't match already written data.")
        self.writes.append((offset, data))
        return i >= self.fin_at

    def close(self):
        self.closed += 1

    def required_ranges(self):
        m = imm.RangeMap()
        m.set(True, self.r0, self.r1)
        return m


def h_server_write_chunk(kind: int, offset: int, ln: int, fin_at: int, conf_at: int, r0: int, r1: int, p: int) -> bool:
    """
    pre: 0 <= kind <= 2 and 0 <= offset and 1 <= ln <= B["body_max"] and 0 <= fin_at <= 4 and 0 <= conf_at <= 4 and 0 <= r0 < r1 and 0 <= p
    post: _ == True
    """
    return X.guard(_h_server_write_chunk, kind, offset, ln, fin_at, conf_at, r0, r1, p)


def _h_server_write_chunk(kind, offset, ln, fin_at, conf_at, r0, r1, p):
    mode = B["mode"]                       # "ok": nothing refused; "conflict": a symbolic piece is refused; "bad-header"
    if mode == "bad-header":
        kind = _pin(kind, 1, 2) if kind >= 1 else 1
        (fin_at, conf_at, ln, p) = (0, 99, 5, 0)
    else:
        kind = 0
        if mode == "conflict":
            (fin_at, conf_at) = (99, _pin(conf_at, 0, 4))          # (the loop does not look at `finished` before its end)
        else:
            (fin_at, conf_at) = (_pin(fin_at, 0, 4), 99)
    X.reset()
    w = World()
    bucket = _RecBucket(fin_at, conf_at, r0, r1)
    secret = b"upload-secret-0123456789"
    w.http_server._uploads.add_write_bucket(X.SI, 0, secret, bucket)
    data = ProvBuf.src("up", ln, 0)
    ic = hc.StorageClientImmutables(w.client)
    if kind == 0:
        out = _outcome(ic.write_share_chunk(X.SI, 0, secret, offset, data))
    else:
        hdrs = L.Headers()
        if kind == 1:
            hdrs.setRawHeaders("content-range", [L.SymContentRange("lines", offset, offset + ln).to_header()])
        url = w.client.relative_url("/storage/v1/immutable/%s/0" % ("a" * 26,))
        out = _outcome(w.client.request("PATCH", url, upload_secret=secret, data=data, headers=hdrs))
    if kind != 0:
        if out[0] != "ok" or out[1].code != hs.http.REQUESTED_RANGE_NOT_SATISFIABLE or bucket.writes or bucket.closed:
            return "a PATCH without a byte Content-Range must be refused with 416 and write nothing"
        return True
    # independent statement: the body is applied in order, in pieces of at most 65536 bytes, until a piece is refused
    npieces = 0
    rest = ln
    while rest > 0:
        npieces += 1
        rest = rest - (65536 if rest > 65536 else rest)
    conflict = conf_at < npieces
    applied = conf_at if conflict else npieces
    if len(bucket.writes) != applied:
        return "number of pieces written to the bucket"
    pos = offset
    body = ProvBuf()
    for (o, d) in bucket.writes:
        if o != pos or len(d) < 1 or len(d) > 65536:
            return "pieces must be contiguous from the announced offset and at most 65536 bytes long"
        pos = pos + len(d)
        body = body + d
    if not conflict and pos != offset + ln:
        return "the pieces do not cover the announced range"
    if p < len(body) and body.at(p) != ("up", p):
        return "the pieces are not the request body in order"
    if conflict:
        if out[0] != "err" or not isinstance(out[1], hc.ClientException) or out[1].code != hs.http.CONFLICT or bucket.closed:
            return "a conflicting piece must end the request with 409 (no close)"
        return True
    if out[0] != "ok":
        return "well-formed chunk refused"
    finished = (npieces - 1) >= fin_at           # what the bucket said about the LAST piece
    if out[1].finished != finished:
        return "the client must see finished == the bucket's answer for the last piece"
    if bucket.closed != (1 if finished else 0):
        return "the bucket must be closed exactly when the upload is finished"
    req = out[1].required
    if (req.get(p) is not None) != (r0 <= p < r1):
        return "`required` seen by the client is not the bucket's required_ranges()"
    return True


# ---- the untouched header text path (real werkzeug Range / ContentRange / parsers), small pinned integers -------------------------

def _with_real_headers(fn, *args):
    """fn(*args) with the real werkzeug classes and parsers back in http_client / http_server; every input is a plain int by now
    (pinned), so the run is concrete and executes with tracing switched off"""
    L.install_real_headers()
    try:
        with L.NoTracing():
            for a in args:
                if type(a) not in (int, bool):
                    raise hlib.HarnessError("harness: unpinned value in the concrete text-path run")
            return fn(*args)
    finally:
        L.install_header_standins()


def h_read_strings(mutable: bool, dlen: int, off: int, ln: int) -> bool:
    """
    pre: 0 <= dlen <= B["d_max"] and 0 <= off <= B["d_max"] + 1 and B.get("l_min", 0) <= ln <= B["l_max"]
    post: _ == True
    """
    return X.guard(_h_read_strings, mutable, dlen, off, ln)


def _h_read_strings(mutable, dlen, off, ln):
    mutable = bool(mutable)
    dlen, off, ln = _pin(dlen, 0, B["d_max"]), _pin(off, 0, B["d_max"] + 1), _pin(ln, B.get("l_min", 0), B["l_max"])
    assume(("zero-length-read" if ln == 0 else "other") not in EXCLUDED)
    return _with_real_headers(_read_strings_concrete, mutable, dlen, off, ln)


def _read_strings_concrete(mutable, dlen, off, ln):
    got = {}
    for name in ("http", "direct"):
        if mutable:
            _mut_state(dlen, DATA_OFFSET + dlen + 3, False)
            w = World()
            out = _outcome(getattr(w, name).slot_readv(X.SI, [0], [(off, ln)]))
            if out[0] == "ok":
                out = ("ok", out[1][0][0])
        else:
            _imm_state(dlen, 1, False)
            w = World()
            readers = fired(getattr(w, name).get_buckets(X.SI))
            out = _outcome(readers[0].callRemote("read", off, ln))
        got[name] = out
        if name == "http":
            texts = [r.requestHeaders.getRawHeaders("range") for r in w.loop.requests if r.requestHeaders.hasHeader("range")]
            want_text = ["bytes=%d-%d" % (off, off + ln - 1)]
            if ln > 0 and texts != [want_text]:
                return "Range header text is not 'bytes=first-last' for [offset, offset+length): %r" % (texts,)
            for r in w.loop.requests:
                cr = r.responseHeaders.getRawHeaders("content-range")
                end = off + ln if off + ln < dlen else dlen
                if cr is not None and cr != ["bytes %d-%d/*" % (off, end - 1)]:
                    return "Content-Range text is not 'bytes first-last/*' of the bytes sent: %r" % (cr,)
    if got["direct"][0] != "ok":
        return "direct read failed"
    want = _clip(dlen, off, ln)
    gd = got["direct"][1]
    if len(gd) != want or (want and gd.render({"old": bytes(range(64))}) != bytes(range(64))[off:off + want]):
        return "direct read returned the wrong bytes"
    if got["http"][0] != "ok":
        return "read through HTTP (real header text) failed where the direct read succeeds"
    gh = got["http"][1]
    if len(gh) != want or (want and gh.render({"old": bytes(range(64))}) != bytes(range(64))[off:off + want]):
        return "read through HTTP (real header text) returned different bytes than the direct read"
    return True


def h_upload_strings(size: int, o1: int, l1: int, o2: int, l2: int, b2: bool) -> bool:
    """
    pre: 1 <= size <= B["d_max"] and 0 <= o1 <= B["d_max"] and B.get("l_min", 0) <= l1 <= B["l_max"] and 0 <= o2 <= B["d_max"] and B.get("l_min", 0) <= l2 <= B["l_max"]
    post: _ == True
    """
    return X.guard(_h_upload_strings, size, o1, l1, o2, l2, b2)


def _h_upload_strings(size, o1, l1, o2, l2, b2):
    size, o1, o2 = _pin(size, 1, B["d_max"]), _pin(o1, 0, B["d_max"]), _pin(o2, 0, B["d_max"])
    l1, l2 = _pin(l1, B.get("l_min", 0), B["l_max"]), _pin(l2, B.get("l_min", 0), B["l_max"])
    b2 = bool(b2)
    assume(_cls_upload(size, _chunks(2, o1, l1, o2, l2, b2, 0, 1, False)) not in EXCLUDED)
    return _with_real_headers(_upload_strings_concrete, size, o1, l1, o2, l2, b2)


def _upload_strings_concrete(size, o1, l1, o2, l2, b2):
    chunks = _chunks(2, o1, l1, o2, l2, b2, 0, 1, False)
    verdicts, accepted = _model_upload(size, chunks)
    for i in range(1, len(verdicts)):
        if _union_len([(o, o + l) for (o, l, _t) in accepted[:i]]) == size:
            hlib.assume(False)                      # nothing is sent after completion (see h_upload)
    complete = len(accepted) == 2 and _union_len([(o, o + l) for (o, l, _t) in accepted]) == size
    (alloc_h, outs_h, closed_h, vis_h, rec, snap_h) = _upload("http", size, chunks, False, True)
    (alloc_d, outs_d, closed_d, vis_d, _r, snap_d) = _upload("direct", size, chunks, False, complete)
    if alloc_h != alloc_d:
        return "allocate_buckets differs (real text path)"
    if [o[0] for o in outs_h] != [o[0] for o in outs_d] or [o[0] == "ok" for o in outs_d] != [v == "ok" for v in verdicts]:
        return "chunks accepted/refused differently with real Content-Range text"
    for i in range(len(accepted)):
        fin = _union_len([(o, o + l) for (o, l, _t) in accepted[:i + 1]]) == size
        if rec.progress[i].finished != fin:
            return "finished flag wrong (real text path)"
    if (closed_h is True) != complete or vis_h != vis_d:
        return "completion / visibility differs (real text path)"
    bad = same_state(snap_h, snap_d)
    if bad:
        return "server state differs (real text path): " + bad
    return True


CLASSIFY = {
    "h_read_strings": lambda mutable, dlen, off, ln: "zero-length-read" if ln == 0 else "other",
    "h_upload_strings": lambda size, o1, l1, o2, l2, b2: _cls_upload(size, _chunks(2, o1, l1, o2, l2, b2, 0, 1, False)),
    "h_upload": lambda size, n, o1, l1, o2, l2, b2, o3, l3, b3, has1, p: _cls_upload(size, _chunks(
        B["n"], o1, l1, o2, l2, bool(B["conflict"]) if B.get("conflict") is not None else b2, o3, l3,
        (bool(B["conflict"]) and B["n"] >= 3 and b3) if B.get("conflict") is not None else b3)),
    "h_read_immutable": lambda dlen, nl, other, off, ln, p: "zero-length-read" if ln == 0 else "other",
    "h_read_mutable": lambda dl, elo, has2, mode, nv, o1, l1, o2, l2, p: _cls_readv(
        B["mode"], bool(B["has2"]) if B.get("has2") is not None else has2, min([l1, (B.get("second") or [0, l2])[1]][:B["nv"]])),
}
