"""
C17 — key and secret derivations match the specification (structurally, under an ideal hash).

hashlib.sha256 inside allmydata.util.hashutil is replaced by an *ideal hash*: a recorder that concatenates what it is fed and
returns a fresh 32-byte token per distinct input (injective by construction, first 16 bytes already distinct).  The real
derivation code (hashutil and the chains through client.SecretHolder, MutableFileNode, uri, mutable.common, upload,
checker, dirnode) is executed on top of it and compared with a specification table written from
docs/specifications/{lease,file-encoding,mutable,dirnodes}.rst: SHA-256d = H(H(x)); tagged digest = SHA256d(netstring(tag) + value);
pair digest = SHA256d(netstring(tag) + netstring(a) + netstring(b)); truncation lengths as documented.
Because the hash is injective, equality of tokens means: the outer hash input is the inner digest, the inner input is exactly the
specified byte string (tag, netstring framing, argument order), and the truncation length is the specified one.

The spec table itself is validated at import against the published vectors (test_hashutil known answers, lease.rst vectors)
with the real SHA-256.
"""
import hashlib as _real_hashlib
from io import BytesIO
from vlib import hlib
from vlib.hlib import NS, assume
hlib.ensure_shims()
from twisted.internet import defer
from allmydata.util import hashutil, base32
from allmydata import uri as uri_mod, client as client_mod, dirnode as dirnode_mod
from allmydata.mutable import common as mcommon, filenode as mfilenode
from allmydata.immutable import upload as upload_mod, checker as checker_mod

B = hlib.bounds()
NOTES = [
    "hashlib in allmydata.util.hashutil replaced by an ideal injective hash (recorder + token per distinct input); SHA-256 itself is outside the claim",
    "inputs are concrete tokens of the documented lengths chosen by symbolic selectors (plus empty strings); k, n, segment size symbolic small ints",
    "mutable.common.rsa DER serialisers and aes replaced by token functions (derive_mutable_keys); dirnode.aes replaced by a recorder (_encrypt_rw_uri)",
    "spec table validated at import against the published vectors with the real SHA-256 (harness validation, not a solver obligation)",
]


# ---- the ideal hash -----------------------------------------------------------------------------------

class _Ideal(object):
    table = {}
    inverse = {}

    @classmethod
    def reset(cls):
        cls.table = {}
        cls.inverse = {}

    @classmethod
    def digest(cls, data):
        data = bytes(data)
        t = cls.table.get(data)
        if t is None:
            n = len(cls.table)
            t = b"\xf5" + bytes([n // 256, n % 256]) + b"<ideal-sha256-token>".ljust(29, b"#")
            cls.table[data] = t
            cls.inverse[t] = data
        return t


class _IdealSha256(object):
    def __init__(self, data=b""):
        self.buf = bytes(data)

    def update(self, data):
        self.buf = self.buf + bytes(data)

    def digest(self):
        return _Ideal.digest(self.buf)

    def copy(self):
        return _IdealSha256(self.buf)


class _IdealHashlib(object):
    sha256 = _IdealSha256
    sha1 = _real_hashlib.sha1


def _real_sha256(x):
    return _real_hashlib.sha256(x).digest()


# ---- the specification ---------------------------------------------------------------------------------
# every function takes `h` (the underlying SHA-256: real for validation, ideal for the obligations)

def ns(b):
    return str(len(b)).encode("ascii") + b":" + b + b","


def sha256d(h, x, n=32):
    return h(h(x))[:n]


def tagged(h, tag, val, n=32):
    return sha256d(h, ns(tag) + val, n)


def pair(h, tag, a, b, n=32):
    return sha256d(h, ns(tag) + ns(a) + ns(b), n)


TAGS = {
    # docs/specifications/file-encoding.rst
    "si": b"allmydata_immutable_key_to_storage_index_v1",
    # docs/specifications/lease.rst
    "client_renewal": b"allmydata_client_renewal_secret_v1", "client_cancel": b"allmydata_client_cancel_secret_v1",
    "file_renewal": b"allmydata_file_renewal_secret_v1", "file_cancel": b"allmydata_file_cancel_secret_v1",
    "bucket_renewal": b"allmydata_bucket_renewal_secret_v1", "bucket_cancel": b"allmydata_bucket_cancel_secret_v1",
    # compatibility contract (pinned literals; any change makes existing caps unreachable)
    "block": b"allmydata_encoded_subshare_v1", "ueb": b"allmydata_uri_extension_v1", "plaintext": b"allmydata_plaintext_v1",
    "crypttext": b"allmydata_crypttext_v1", "crypttext_segment": b"allmydata_crypttext_segment_v1",
    "plaintext_segment": b"allmydata_plaintext_segment_v1",
    "convergent": b"allmydata_immutable_content_to_key_with_added_secret_v1+",
    "writekey": b"allmydata_mutable_privkey_to_writekey_v1",
    "wem": b"allmydata_mutable_writekey_to_write_enabler_master_v1",
    "we": b"allmydata_mutable_write_enabler_master_and_nodeid_to_write_enabler_v1",
    "pubkey": b"allmydata_mutable_pubkey_to_fingerprint_v1",
    "readkey": b"allmydata_mutable_writekey_to_readkey_v1",
    "datakey": b"allmydata_mutable_readkey_to_datakey_v1",
    "ssk_si": b"allmydata_mutable_readkey_to_storage_index_v1",
    "dir_key": b"allmydata_mutable_writekey_and_salt_to_dirnode_child_capkey_v1",
    "dir_salt": b"allmydata_dirnode_child_rwcap_to_salt_v1",
    "backupdb": b"allmydata_backupdb_dirhash_v1",
}
T = TAGS


class Spec(object):
    """the derivations, as the documents state them"""

    def __init__(self, h):
        self.h = h

    # immutable files
    def storage_index(self, key):
        return tagged(self.h, T["si"], key, 16)

    def convergence_key(self, k, n, segsize, data, secret):
        tag = T["convergent"] + ns(secret) + ns(b"%d,%d,%d" % (k, n, segsize))
        return tagged(self.h, tag, data, 16)

    def simple(self, which, data):
        return tagged(self.h, T[which], data)

    # leases (lease.rst): client secret = tagged digest of (lease secret, client tag): the SECRET is the netstring-wrapped part
    def client_renewal(self, lease_secret):
        return tagged(self.h, lease_secret, T["client_renewal"])

    def client_cancel(self, lease_secret):
        return tagged(self.h, lease_secret, T["client_cancel"])

    def file_renewal(self, crs, si):
        return pair(self.h, T["file_renewal"], crs, si)

    def file_cancel(self, ccs, si):
        return pair(self.h, T["file_cancel"], ccs, si)

    def bucket_renewal(self, frs, peerid):
        return pair(self.h, T["bucket_renewal"], frs, peerid)

    def bucket_cancel(self, fcs, peerid):
        return pair(self.h, T["bucket_cancel"], fcs, peerid)

    def renewal_secret(self, lease_secret, si, peerid):
        return self.bucket_renewal(self.file_renewal(self.client_renewal(lease_secret), si), peerid)

    def cancel_secret(self, lease_secret, si, peerid):
        return self.bucket_cancel(self.file_cancel(self.client_cancel(lease_secret), si), peerid)

    # mutable files (mutable.rst "SDMF slots overview")
    def writekey(self, privkey_der):
        return tagged(self.h, T["writekey"], privkey_der, 16)

    def readkey(self, writekey):
        return tagged(self.h, T["readkey"], writekey, 16)

    def ssk_storage_index(self, readkey):
        return tagged(self.h, T["ssk_si"], readkey, 16)

    def fingerprint(self, pubkey_der):
        return tagged(self.h, T["pubkey"], pubkey_der)

    def write_enabler_master(self, writekey):
        return tagged(self.h, T["wem"], writekey)

    def write_enabler(self, writekey, nodeid):
        return pair(self.h, T["we"], self.write_enabler_master(writekey), nodeid)

    def datakey(self, iv, readkey):
        return pair(self.h, T["datakey"], iv, readkey, 16)

    # directories (dirnodes.rst): key from a tagged hash of the IV/salt and the dirnode's writekey
    def dir_salt(self, rw_uri):
        return tagged(self.h, T["dir_salt"], rw_uri, 16)

    def dir_key(self, salt, writekey):
        return pair(self.h, T["dir_key"], salt, writekey, 16)

    def backupdb_dirhash(self, contents):
        return tagged(self.h, T["backupdb"], contents)


def _validate_spec_table():
    """published vectors, with the real SHA-256 (test_hashutil.py known answers; docs/specifications/derive_renewal_secret.py)"""
    s = Spec(_real_sha256)
    a = base32.b2a
    checks = [
        (a(s.storage_index(b"")), b"qb5igbhcc5esa6lwqorsy7e6am"),
        (a(s.storage_index(b"x" * 16)), b"wvggbrnrezdpa5yayrgiw5nzja"),
        (a(s.storage_index(base32.a2b(b"2ckv3dfzh6rgjis6ogfqhyxnzy"))), b"aarbseqqrpsfowduchcjbonscq"),
        (a(s.simple("block", b"")), b"msjr5bh4evuh7fa3zw7uovixfbvlnstr5b65mrerwfnvjxig2jvq"),
        (a(s.simple("ueb", b"")), b"wthsu45q7zewac2mnivoaa4ulh5xvbzdmsbuyztq2a5fzxdrnkka"),
        (a(s.simple("plaintext", b"")), b"5lz5hwz3qj3af7n6e3arblw7xzutvnd3p3fjsngqjcb7utf3x3da"),
        (a(s.simple("crypttext", b"")), b"itdj6e4njtkoiavlrmxkvpreosscssklunhwtvxn6ggho4rkqwga"),
        (a(s.simple("crypttext_segment", b"")), b"aovy5aa7jej6ym5ikgwyoi4pxawnoj3wtaludjz7e2nb5xijb7aa"),
        (a(s.simple("plaintext_segment", b"")), b"4fdgf6qruaisyukhqcmoth4t3li6bkolbxvjy4awwcpprdtva7za"),
        (a(s.convergence_key(3, 10, 100, b"", b"converge")), b"3mo6ni7xweplycin6nowynw2we"),
        (a(s.client_renewal(b"")), b"ujhr5k5f7ypkp67jkpx6jl4p47pyta7hu5m527cpcgvkafsefm6q"),
        (a(s.client_cancel(b"")), b"rjwzmafe2duixvqy6h47f5wfrokdziry6zhx4smew4cj6iocsfaa"),
        (a(s.file_renewal(b"", b"si")), b"hzshk2kf33gzbd5n3a6eszkf6q6o6kixmnag25pniusyaulqjnia"),
        (a(s.file_cancel(b"", b"si")), b"bfciwvr6w7wcavsngxzxsxxaszj72dej54n4tu2idzp6b74g255q"),
        (a(s.bucket_renewal(b"", b"\x00" * 20)), b"e7imrzgzaoashsncacvy3oysdd2m5yvtooo4gmj4mjlopsazmvuq"),
        (a(s.bucket_cancel(b"", b"\x00" * 20)), b"dvdujeyxeirj6uux6g7xcf4lvesk632aulwkzjar7srildvtqwma"),
        (a(s.dir_key(b"iv", b"wk")), b"6rvn2iqrghii5n4jbbwwqqsnqu"),
        (a(s.writekey(b"")), b"ykpgmdbpgbb6yqz5oluw2q26ye"),
        (a(s.write_enabler_master(b"")), b"izbfbfkoait4dummruol3gy2bnixrrrslgye6ycmkuyujnenzpia"),
        (a(s.write_enabler(b"wk", b"\x00" * 20)), b"fuu2dvx7g6gqu5x22vfhtyed7p4pd47y5hgxbqzgrlyvxoev62tq"),
        (a(s.fingerprint(b"")), b"3opzw4hhm2sgncjx224qmt5ipqgagn7h5zivnfzqycvgqgmgz35q"),
        (a(s.readkey(b"")), b"vugid4as6qbqgeq2xczvvcedai"),
        (a(s.datakey(b"iv", b"rk")), b"73wsaldnvdzqaf7v4pzbr2ae5a"),
        (a(s.ssk_storage_index(b"")), b"j7icz6kigb6hxrej3tv4z7ayym"),
    ]
    lease_vectors = [
        (b"boity2cdh7jvl3ltaeebuiobbspjmbuopnwbde2yeh4k6x7jioga", b"vrttmwlicrzbt7gh5qsooogr7u", b"v67jiisoty6ooyxlql5fuucitqiok2ic",
         b"osd6wmc5vz4g3ukg64sitmzlfiaaordutrez7oxdp5kkze7zp5zq"),
        (b"boity2cdh7jvl3ltaeebuiobbspjmbuopnwbde2yeh4k6x7jioga", b"75gmmfts772ww4beiewc234o5e", b"v67jiisoty6ooyxlql5fuucitqiok2ic",
         b"35itmusj7qm2pfimh62snbyxp3imreofhx4djr7i2fweta75szda"),
        (b"boity2cdh7jvl3ltaeebuiobbspjmbuopnwbde2yeh4k6x7jioga", b"75gmmfts772ww4beiewc234o5e", b"lh5fhobkjrmkqjmkxhy3yaonoociggpz",
         b"srrlruge47ws3lm53vgdxprgqb6bz7cdblnuovdgtfkqrygrjm4q"),
        (b"vacviff4xfqxsbp64tdr3frg3xnkcsuwt5jpyat2qxcm44bwu75a", b"75gmmfts772ww4beiewc234o5e", b"lh5fhobkjrmkqjmkxhy3yaonoociggpz",
         b"b4jledjiqjqekbm2erekzqumqzblegxi23i5ojva7g7xmqqnl5pq"),
    ]
    for (ls, si, tub, want) in lease_vectors:
        checks.append((a(s.renewal_secret(base32.a2b(ls), base32.a2b(si), base32.a2b(tub))), want))
    for (i, (got, want)) in enumerate(checks):
        if got != want:
            raise hlib.HarnessError("spec table disagrees with published vector #%d: %r != %r" % (i, got, want))
    return len(checks)


N_VECTORS = _validate_spec_table()

# from here on the code under test hashes with the ideal hash
hashutil.hashlib = _IdealHashlib
hlib.encoded(hashutil._SHA256d_Hasher, hashutil.tagged_hasher, hashutil.tagged_hash, hashutil.tagged_pair_hash,
             hashutil._convergence_hasher_tag, hashutil.convergence_hasher, hashutil.convergence_hash,
             hashutil.storage_index_hash, hashutil.my_renewal_secret_hash, hashutil.my_cancel_secret_hash,
             hashutil.file_renewal_secret_hash, hashutil.file_cancel_secret_hash, hashutil.bucket_renewal_secret_hash,
             hashutil.bucket_cancel_secret_hash, hashutil.mutable_rwcap_key_hash, hashutil.mutable_rwcap_salt_hash,
             hashutil.ssk_writekey_hash, hashutil.ssk_write_enabler_master_hash, hashutil.ssk_write_enabler_hash,
             hashutil.ssk_pubkey_fingerprint_hash, hashutil.ssk_readkey_hash, hashutil.ssk_readkey_data_hash,
             hashutil.ssk_storage_index_hash, hashutil.backupdb_dirhash, hashutil.hmac,
             client_mod.SecretHolder, mfilenode.MutableFileNode.get_write_enabler, mfilenode.MutableFileNode.get_renewal_secret,
             mfilenode.MutableFileNode.get_cancel_secret, mfilenode.MutableFileNode.init_from_cap, mcommon.derive_mutable_keys,
             uri_mod.WriteableSSKFileURI.__init__, uri_mod.ReadonlySSKFileURI.__init__, uri_mod.WriteableMDMFFileURI.__init__,
             uri_mod.ReadonlyMDMFFileURI.__init__, uri_mod.CHKFileURI.__init__, upload_mod.Tahoe2ServerSelector._create_trackers,
             upload_mod.FileHandle._get_encryption_key_convergent, checker_mod.Checker.__init__, dirnode_mod._encrypt_rw_uri, dirnode_mod.DirectoryNode._decrypt_rwcapdata)


def _ideal(x):
    return _Ideal.digest(x)


def pick(seq, i):
    for j in range(len(seq)):
        if i == j:
            return seq[j]
    raise hlib.HarnessError("index out of range")


# argument tokens of the documented lengths (two of each, so that swapped arguments are visible) and the empty string
# (the second 32-byte secret begins and ends with ASCII whitespace: secrets are binary values, every byte counts)
V32 = (b"L" * 32, b" \t" + b"M" * 28 + b"\r\n", b"")
V16 = (b"k" * 16, b"j" * 15 + b"?", b"")
V20 = (b"p" * 20, b"q" * 19 + b"@")
VANY = (b"some data / DER bytes of arbitrary length", b"x", b"")


def h_hashutil(row: int, a: int, b: int, k: int, n: int, segsize: int, chunked: bool) -> bool:
    """
    pre: 0 <= row <= 24 and 0 <= a <= 2 and 0 <= b <= 2
    pre: 1 <= k <= n <= B.get("n_max", 4) and 1 <= segsize <= B.get("seg_max", 3)
    pre: B.get("rows") is None or row in B["rows"]
    post: _ == True
    """
    _Ideal.reset()
    s = Spec(_ideal)
    H = hashutil
    if row != 7:
        assume(k == 1 and n == 1 and segsize == 1)
    if row not in (1, 2, 3, 4, 5, 6, 7):
        assume(not chunked)
    x32, y32 = pick(V32, a), pick(V32, b)
    x16, y16 = pick(V16, a), pick(V16, b)
    p20 = pick(V20, b % 2)
    xa = pick(VANY, a)

    def hasher_or_fn(hasher, fn, data):
        if chunked:
            hh = hasher()
            half = len(data) // 2
            hh.update(data[:half])
            hh.update(data[half:])
            return hh.digest()
        return fn(data)

    if row == 0:
        assume(b == 0)
        got, want = H.storage_index_hash(x16), s.storage_index(x16)
    elif row == 1:
        assume(b == 0)
        got, want = hasher_or_fn(H.block_hasher, H.block_hash, xa), s.simple("block", xa)
    elif row == 2:
        assume(b == 0)
        got, want = hasher_or_fn(H.uri_extension_hasher, H.uri_extension_hash, xa), s.simple("ueb", xa)
    elif row == 3:
        assume(b == 0)
        got, want = hasher_or_fn(H.plaintext_hasher, H.plaintext_hash, xa), s.simple("plaintext", xa)
    elif row == 4:
        assume(b == 0)
        got, want = hasher_or_fn(H.crypttext_hasher, H.crypttext_hash, xa), s.simple("crypttext", xa)
    elif row == 5:
        assume(b == 0)
        got, want = hasher_or_fn(H.crypttext_segment_hasher, H.crypttext_segment_hash, xa), s.simple("crypttext_segment", xa)
    elif row == 6:
        assume(b == 0)
        got, want = hasher_or_fn(H.plaintext_segment_hasher, H.plaintext_segment_hash, xa), s.simple("plaintext_segment", xa)
    elif row == 7:
        if chunked:
            hh = H.convergence_hasher(k, n, segsize, y32)
            hh.update(xa[:3])
            hh.update(xa[3:])
            got = hh.digest()
        else:
            got = H.convergence_hash(k, n, segsize, xa, y32)
        want = s.convergence_key(k, n, segsize, xa, y32)
    elif row == 8:
        assume(b == 0)
        got, want = H.my_renewal_secret_hash(x32), s.client_renewal(x32)
    elif row == 9:
        assume(b == 0)
        got, want = H.my_cancel_secret_hash(x32), s.client_cancel(x32)
    elif row == 10:
        got, want = H.file_renewal_secret_hash(x32, y16), s.file_renewal(x32, y16)
    elif row == 11:
        got, want = H.file_cancel_secret_hash(x32, y16), s.file_cancel(x32, y16)
    elif row == 12:
        got, want = H.bucket_renewal_secret_hash(x32, p20), s.bucket_renewal(x32, p20)
    elif row == 13:
        got, want = H.bucket_cancel_secret_hash(x32, p20), s.bucket_cancel(x32, p20)
    elif row == 14:
        got, want = H.mutable_rwcap_key_hash(x16, y16), s.dir_key(x16, y16)
    elif row == 15:
        assume(b == 0)
        got, want = H.mutable_rwcap_salt_hash(xa), s.dir_salt(xa)
    elif row == 16:
        assume(b == 0)
        got, want = H.ssk_writekey_hash(xa), s.writekey(xa)
    elif row == 17:
        assume(b == 0)
        got, want = H.ssk_write_enabler_master_hash(x16), s.write_enabler_master(x16)
    elif row == 18:
        got, want = H.ssk_write_enabler_hash(x16, p20), s.write_enabler(x16, p20)
    elif row == 19:
        assume(b == 0)
        got, want = H.ssk_pubkey_fingerprint_hash(xa), s.fingerprint(xa)
    elif row == 20:
        assume(b == 0)
        got, want = H.ssk_readkey_hash(x16), s.readkey(x16)
    elif row == 21:
        got, want = H.ssk_readkey_data_hash(x16, y16), s.datakey(x16, y16)
    elif row == 22:
        assume(b == 0)
        got, want = H.ssk_storage_index_hash(x16), s.ssk_storage_index(x16)
    elif row == 23:
        assume(b == 0)
        got, want = H.backupdb_dirhash(xa), s.backupdb_dirhash(xa)
    else:
        # the generic helpers with a symbolic truncation choice
        tr = pick((None, 16, 32), b)
        got = H.tagged_pair_hash(b"some tag", x16, xa, tr) if chunked is False else None
        want = pair(_ideal, b"some tag", x16, xa, tr or 32)
    if not isinstance(got, bytes):
        return "derivation did not return bytes"
    if len(got) != len(want):
        return "row %d: length %d, specified %d" % (row, len(got), len(want))
    if got != want:
        return "row %d: digest differs from the specified derivation (inner input was %r)" % (row, _inner_of(got))
    return True


def _inner_of(d):
    """for messages: the byte string whose SHA-256d is (a prefix-truncation of) d, or None"""
    for (t, outer) in _Ideal.inverse.items():
        if t[:len(d)] == d:
            return _Ideal.inverse.get(outer)
    return None


class _Server(object):
    def __init__(self, seed, we_seed, sid):
        self.seed, self.we_seed, self.sid = seed, we_seed, sid

    def get_lease_seed(self):
        return self.seed

    def get_foolscap_write_enabler_seed(self):
        return self.we_seed

    def get_serverid(self):
        return self.sid

    def get_version(self):
        return {b"http://allmydata.org/tahoe/protocols/storage/v1": {b"maximum-immutable-share-size": 2 ** 40 if self.sid != b"small" else 10}}

    def __hash__(self):
        return 17 + len(self.sid) + self.sid[0]      # plain int (builtin hash() may be symbolic under CrossHair)

    def __eq__(self, o):
        return self is o


def h_mutable_chain(a: int, b: int, c: int, mdmf: bool, readonly: bool) -> bool:
    """
    pre: 0 <= a <= 1 and 0 <= b <= 1 and 0 <= c <= 1
    post: _ == True
    """
    _Ideal.reset()
    s = Spec(_ideal)
    lease_secret = pick(V32, a)
    writekey = pick(V16, b)
    seed, we_seed = pick(V20, c), pick(V20, 1 - c)
    fp = b"F" * 32
    want_rk = s.readkey(writekey)
    want_si = s.ssk_storage_index(want_rk)
    wcls = uri_mod.WriteableMDMFFileURI if mdmf else uri_mod.WriteableSSKFileURI
    rcls = uri_mod.ReadonlyMDMFFileURI if mdmf else uri_mod.ReadonlySSKFileURI
    w = wcls(writekey, fp)
    if w.readkey != want_rk or len(w.readkey) != 16:
        return "read key is not the specified hash of the write key"
    if w.storage_index != want_si:
        return "storage index is not the specified hash of the read key"
    r = w.get_readonly()
    if r.readkey != want_rk or r.storage_index != want_si:
        return "read-only cap's keys differ"
    if rcls(want_rk, fp).storage_index != want_si:
        return "storage index from a read cap differs"
    if r.get_verify_cap().storage_index != want_si:
        return "verify cap storage index differs"
    dw = uri_mod.MDMFDirectoryURI(w) if mdmf else uri_mod.DirectoryURI(w)
    if dw.get_storage_index() != want_si or dw.get_readonly().get_storage_index() != want_si:
        return "directory cap storage index differs"
    sh = client_mod.SecretHolder(lease_secret, b" conv\n")
    if sh.get_renewal_secret() != s.client_renewal(lease_secret) or sh.get_cancel_secret() != s.client_cancel(lease_secret):
        return "client renewal/cancel secret is not the tagged digest of exactly the configured lease secret"
    if sh.get_convergence_secret() != b" conv\n":
        return "convergence secret altered"
    node = mfilenode.MutableFileNode(None, sh, {"k": 3, "n": 10}, None)
    node.init_from_cap(r if readonly else w)
    if node.get_storage_index() != want_si or node.get_readkey() != want_rk:
        return "node keys differ"
    srv = _Server(seed, we_seed, b"srv")
    if node.get_renewal_secret(srv) != s.renewal_secret(lease_secret, want_si, seed):
        return "mutable lease renewal secret is not client->file->bucket as specified"
    if node.get_cancel_secret(srv) != s.cancel_secret(lease_secret, want_si, seed):
        return "mutable lease cancel secret is not client->file->bucket as specified"
    if not readonly:
        if node.get_writekey() != writekey:
            return "writekey"
        if node.get_write_enabler(srv) != s.write_enabler(writekey, we_seed):
            return "write enabler is not H(tag, H(tag', writekey), nodeid)"
    return True


class _FakeRSA(object):
    @staticmethod
    def der_string_from_verifying_key(k):
        return b"DER-PUB:" + k

    @staticmethod
    def der_string_from_signing_key(k):
        return b"DER-PRIV:" + k


class _RecAES(object):
    def __init__(self):
        self.calls = []

    def create_encryptor(self, key, iv=None):
        return ("enc", key)

    def encrypt_data(self, e, data):
        self.calls.append((e[1], data))
        return b"AES[" + data + b"]"


def h_keypair_and_dir(a: int, b: int) -> bool:
    """
    pre: 0 <= a <= 1 and 0 <= b <= 2
    post: _ == True
    """
    _Ideal.reset()
    s = Spec(_ideal)
    pub, priv = pick((b"pubkey-one", b"pubkey-two"), a), pick((b"privkey-one", b"privkey-two"), a)
    saved = (mcommon.rsa, mcommon.aes, dirnode_mod.aes)
    aes1, aes2 = _RecAES(), _RecAES()
    mcommon.rsa, mcommon.aes, dirnode_mod.aes = _FakeRSA, aes1, aes2
    try:
        (writekey, encprivkey, fingerprint) = mcommon.derive_mutable_keys((pub, priv))
        want_wk = s.writekey(b"DER-PRIV:" + priv)
        if writekey != want_wk or len(writekey) != 16:
            return "write key is not the specified hash of the signing key's DER string"
        if fingerprint != s.fingerprint(b"DER-PUB:" + pub) or len(fingerprint) != 32:
            return "fingerprint is not the specified hash of the verification key's DER string"
        if aes1.calls != [(want_wk, b"DER-PRIV:" + priv)] or encprivkey != b"AES[DER-PRIV:" + priv + b"]":
            return "private key not encrypted under the write key"
        # directory child write-cap encryption
        rw_uri = pick((b"URI:SSK:aaaa:bbbb", b"URI:DIR2:cccc:dddd", b""), b)
        dir_wk = pick(V16, a)
        out = dirnode_mod._encrypt_rw_uri(dir_wk, rw_uri)
    finally:
        mcommon.rsa, mcommon.aes, dirnode_mod.aes = saved
    salt = s.dir_salt(rw_uri)
    key = s.dir_key(salt, dir_wk)
    if out[:16] != salt:
        return "salt is not the specified hash of the child's write cap"
    if aes2.calls != [(key, rw_uri)]:
        return "child write cap not encrypted under H(tag, salt, directory writekey)"
    ct = b"AES[" + rw_uri + b"]"
    if out[16:16 + len(ct)] != ct or len(out) != 16 + len(ct) + 32:
        return "layout is not salt + ciphertext + 32-byte mac"
    mac = _ideal(bytes(c ^ 0x5c for c in key) + _ideal(bytes(c ^ 0x36 for c in key) + salt + ct))
    if out[16 + len(ct):] != mac:
        return "mac is not the (legacy) keyed hash of salt+ciphertext under the same key"
    return True


def h_immutable_chain(a: int, b: int, c: int, nserv: int, k: int, n: int, segsize: int) -> bool:
    """
    pre: 0 <= a <= 1 and 0 <= b <= 1 and 0 <= c <= 1 and 1 <= nserv <= 2
    pre: 1 <= k <= n <= B.get("n_max", 3) and 1 <= segsize <= B.get("seg_max", 2)
    post: _ == True
    """
    _Ideal.reset()
    s = Spec(_ideal)
    lease_secret, key = pick(V32, a), pick(V16, b)
    conv = pick((b"\n convergence-secret-one" + b"1" * 6 + b" \t", b""), c)
    # CHK cap -> storage index
    cap = uri_mod.CHKFileURI(key, b"U" * 32, 3, 10, 1000)
    want_si = s.storage_index(key)
    if cap.storage_index != want_si or cap.get_verify_cap().storage_index != want_si:
        return "CHK storage index is not the specified hash of the key"
    if upload_mod.storage_index_hash(key) != want_si:
        return "upload's storage_index_hash differs"
    sh = client_mod.SecretHolder(lease_secret, conv)
    if sh.get_renewal_secret() != s.client_renewal(lease_secret) or sh.get_cancel_secret() != s.client_cancel(lease_secret):
        return "client renewal/cancel secret is not the tagged digest of exactly the configured lease secret"
    if sh.get_convergence_secret() != conv:
        return "convergence secret altered"
    # upload: per-server lease secrets (_create_trackers); the file secrets are computed as get_shareholders does
    frs = upload_mod.file_renewal_secret_hash(sh.get_renewal_secret(), want_si)
    fcs = upload_mod.file_cancel_secret_hash(sh.get_cancel_secret(), want_si)
    servers = [_Server(V20[0], V20[1], b"s0"), _Server(V20[1], V20[0], b"small")][:nserv]
    made = []
    sel = NS(peer_selector=NS(add_peer=lambda sid: None, mark_readonly_peer=lambda sid: None))
    ro, wr = upload_mod.Tahoe2ServerSelector._create_trackers(sel, servers, 100, frs, fcs,
                                                              lambda srv, renew, cancel: made.append((srv, renew, cancel)) or (srv, renew, cancel))
    if len(made) != nserv:
        return "one tracker per server expected"
    for (srv, renew, cancel) in made:
        if renew != s.renewal_secret(lease_secret, want_si, srv.seed):
            return "upload renewal secret is not client->file->bucket as specified"
        if cancel != s.cancel_secret(lease_secret, want_si, srv.seed):
            return "upload cancel secret is not client->file->bucket as specified"
    # checker / repairer add-lease secrets
    chk = checker_mod.Checker(cap.get_verify_cap(), [], False, True, sh, None)
    if chk._get_renewal_secret(V20[0]) != s.renewal_secret(lease_secret, want_si, V20[0]):
        return "checker renewal secret"
    if chk._get_cancel_secret(V20[1]) != s.cancel_secret(lease_secret, want_si, V20[1]):
        return "checker cancel secret"
    # convergent encryption key of an uploadable
    data = b"file contents " * 3
    fh = upload_mod.FileHandle(BytesIO(data), conv)
    fh.set_default_encoding_parameters({"k": k, "happy": 1, "n": n, "max_segment_size": segsize})
    out = []
    fh.get_encryption_key().addCallbacks(out.append, out.append)
    if not out:
        raise hlib.HarnessError("get_encryption_key did not fire synchronously")
    if not isinstance(out[0], bytes):
        return "convergent key derivation failed: %r" % (out[0],)
    # the segment size that goes into the tag is the one the uploadable settles on (a multiple of k, C01)
    (pk, _happy, pn, pseg) = _res(fh.get_all_encoding_parameters())
    if (pk, pn) != (k, n):
        return "encoding parameters"
    if out[0] != s.convergence_key(k, n, pseg, data, conv) or len(out[0]) != 16:
        return "convergent key is not H(tag+netstring(secret)+netstring('k,n,segsize'), contents)[:16]"
    return True


def _res(d):
    out = []
    d.addCallbacks(out.append, out.append)
    if not out:
        raise hlib.HarnessError("Deferred did not fire")
    return out[0]


import _dirfix as _F


def h_dir_child_keys(order: int, r: int, same_child: bool) -> bool:
    """
    pre: 0 <= order <= 3 and 0 <= r <= 1
    post: _ == True
    """
    # the same child (same write cap => same salt) linked from two directories with different writekeys: every encryption and every
    # decryption must use H(tag, salt, THAT directory's writekey), whatever was computed before
    _Ideal.reset()
    s = Spec(_ideal)
    rw_a = pick((b"URI:SSK:childwritecap:fp", b"URI:DIR2:otherchild:fp"), r)
    rw_b = rw_a if same_child else b"URI:SSK:a-different-child:fp"
    wk = {"A": V16[0], "B": V16[1]}
    fake = _F.FakeAES()
    saved = dirnode_mod.aes
    dirnode_mod.aes = fake
    try:
        enc = {"A": dirnode_mod._encrypt_rw_uri(wk["A"], rw_a), "B": dirnode_mod._encrypt_rw_uri(wk["B"], rw_b)}
        plain = {"A": rw_a, "B": rw_b}
        nodes = {}
        for d in ("A", "B"):
            dn = dirnode_mod.DirectoryNode.__new__(dirnode_mod.DirectoryNode)
            dn._node = NS(get_writekey=(lambda k=wk[d]: k))
            nodes[d] = dn
        seq = pick((("A", "B"), ("B", "A"), ("A", "B", "A"), ("B", "B", "A")), order)
        del fake.calls[:]
        for d in seq:
            got = nodes[d]._decrypt_rwcapdata(enc[d])
            if got != plain[d]:
                return "directory %s does not recover its child's write cap (after %r)" % (d, seq)
        calls = list(fake.calls)
    finally:
        dirnode_mod.aes = saved
    if len(calls) != len(seq):
        return "one decryption per entry expected"
    for (d, (opn, key, data)) in zip(seq, calls):
        salt = s.dir_salt(plain[d])
        if enc[d][:16] != salt:
            return "salt is not the specified hash of the child's write cap"
        if opn != "decrypt" or key != s.dir_key(salt, wk[d]):
            return "directory %s decrypted with a key that is not H(tag, salt, its own writekey)" % d
    return True
