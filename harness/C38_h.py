"""
C38 — on-disk and wire encodings round-trip; malformed encodings are rejected.

CrossHair part (the table/format obligations decided directly by z3 live in props/C38.py):
 * base32: every string a2b accepts is the canonical encoding of what it decodes to; a2b(b2a(x)) == x
 * base62: a2b(b2a(x)) == x for symbolic byte values
 * netstring: split_netstring(netstring(a)+netstring(b)) round trip; accepted length fields are canonical
 * uri.pack_extension / unpack_extension round trip
 * LeaseInfo immutable/mutable records and the container headers through FakeStruct (field order/width agreement)
"""
import struct as _real_struct
from vlib import hlib
from vlib.hlib import ProvBuf, NS, FakeStruct, assume
hlib.ensure_shims()
from allmydata.util import base32, base62, netstring as ns_mod
from allmydata import uri as uri_mod
from allmydata.storage import lease as lease_mod, immutable_schema, mutable_schema, lease_schema

B = hlib.bounds()
NOTES = [
    "symbolic characters/bytes are pinned by explicit case splits over a small alphabet or range (path-per-input) before they reach bytes-level library code",
    "storage.lease / storage.immutable_schema / storage.mutable_schema: module name `struct` replaced by hlib.FakeStruct (field lists with the real range checks and sizes) inside the lease/header obligations",
]
hlib.encoded(base32.a2b, base32.b2a, base32.could_be_base32_encoded, base32.init_s8, base32.get_trailing_chars_without_lsbs,
             base62.a2b, base62.b2a, base62.a2b_l, base62.b2a_l, ns_mod.netstring, ns_mod.split_netstring,
             uri_mod.pack_extension, uri_mod.unpack_extension)


def _pin(x, lo, hi):
    """explicit case split on a small-range symbolic int; returns a concrete int"""
    for v in range(lo, hi + 1):
        if x == v:
            return v
    raise hlib.HarnessError("value outside its declared range")


# ---- base32 ---------------------------------------------------------------------------

_B32_ALPHA = b"abcdefghijklmnopqrstuvwxyz234567"      # RFC 3548 alphabet, lower case (the documented encoding)
_B32_EXTRA = b"=A18 "                                   # some bytes outside the alphabet


def h_b32_accepts_only_canonical(i0: int, i1: int) -> bool:
    """
    pre: 0 <= i0 < 37 and 0 <= i1 < 37
    post: _ == True
    """
    # string = fixed prefix (B["prefix"]) + two arbitrary characters (alphabet or not)
    table = _B32_ALPHA + _B32_EXTRA
    s = B.get("prefix", "").encode("ascii") + table[_pin(i0, 0, 36):][:1] + table[_pin(i1, 0, 36):][:1]
    ok = base32.could_be_base32_encoded(s)
    if not ok:
        # a2b's own precondition is could_be_base32_encoded(s): rejected strings never reach the decoder
        return True
    try:
        data = base32.a2b(s)
    except Exception as e:
        return "accepted string fails to decode: %r" % (e,)
    back = base32.b2a(data)
    if back != s:
        return "a2b accepts a non-canonical encoding: it decodes to a value whose encoding is a different string"
    return True


def h_b32_roundtrip(last: bool, v: int) -> bool:
    """
    pre: 0 <= v < 256
    post: _ == True
    """
    n = B.get("n", 3)
    v = _pin(v, 0, 255)
    x = bytes((37 * j + 11) % 256 for j in range(n))
    x = (x[:n - 1] + bytes([v])) if last else (bytes([v]) + x[1:])
    s = base32.b2a(x)
    if len(s) != (8 * n + 4) // 5:
        return "encoded length is not ceil(8n/5)"
    for ch in s:
        if ch not in _B32_ALPHA:
            return "encoder leaves the alphabet"
    if not base32.could_be_base32_encoded(s):
        return "own encoding rejected"
    if base32.a2b(s) != x:
        return "a2b(b2a(x)) != x"
    return True


# ---- base62 -----------------------------------------------------------------------------

def h_b62_roundtrip(n: int, b0: int, b1: int, b2: int, b3: int) -> bool:
    """
    pre: n == B.get("n", 2)
    pre: 0 <= b0 < 256 and 0 <= b1 < 256 and 0 <= b2 < 256 and 0 <= b3 < 256
    post: _ == True
    """
    n = B.get("n", 2)
    vals = [b0, b1, b2, b3][:n]
    # the integer core of b2a_l / a2b_l on symbolic byte values (the bytes<->list conversions are concrete plumbing)
    value = 0
    for o in vals:
        value = value * 256 + o
    cs = _b62_digits(vals)
    if len(cs) != base62.num_chars_that_this_many_octets_encode_to(n):
        return "number of base62 characters"
    for c in cs:
        if not (0 <= c and c < 62):
            return "digit out of range"
    back = _b62_undigits(cs, n)
    if back != vals:
        return "a2b(b2a(x)) != x"
    return True


def _b62_digits(vals):
    """base62.b2a_l with the bytes()/translate plumbing removed: same statements on a list of ints"""
    return _B62_B2A(vals, len(vals) * 8)


def _b62_undigits(cs, n):
    return _B62_A2B(cs, base62.num_octets_that_encode_to_this_many_chars(len(cs)) * 8)


def _b62_core(fn, drop):
    """recompile base62.b2a_l / a2b_l replacing the byte-string plumbing (bytes(..), translate(..)) by identity, so the
    integer loops run on lists of (symbolic) ints.  Everything else is the live source text."""
    import ast
    import inspect
    import textwrap
    src = textwrap.dedent(inspect.getsource(fn))
    tree = ast.parse(src)

    class T(ast.NodeTransformer):
        def visit_Call(self, node):
            self.generic_visit(node)
            if isinstance(node.func, ast.Name) and node.func.id in ("bytes", "translate"):
                return node.args[0]
            return node
    tree = T().visit(tree)
    ast.fix_missing_locations(tree)
    g = dict(fn.__globals__)
    exec(compile(tree, inspect.getsourcefile(fn), "exec"), g)
    hlib.CUTS.append({"file": inspect.getsourcefile(fn), "line": fn.__code__.co_firstlineno,
                      "src": "in %s: bytes(..)/translate(..) wrappers replaced by identity (integer loops run on lists of ints)" % fn.__name__})
    return g[fn.__name__]


_B62_B2A = _b62_core(base62.b2a_l, None)
_B62_A2B = _b62_core(base62.a2b_l, None)


def h_b62_real_bytes(last: bool, v: int) -> bool:
    """
    pre: 0 <= v < 256
    post: _ == True
    """
    # the untouched functions on real bytes, one varying byte (path-per-input): ties the plumbing to the integer core
    n = B.get("n", 2)
    v = _pin(v, 0, 255)
    x = bytes((91 * j + 7) % 256 for j in range(n))
    x = (x[:n - 1] + bytes([v])) if last else (bytes([v]) + x[1:])
    s = base62.b2a(x)
    for ch in s:
        if ch not in base62.chars:
            return "encoder leaves the alphabet"
    if base62.a2b(s) != x:
        return "a2b(b2a(x)) != x"
    if [base62.chars.index(bytes([c])) for c in s] != _B62_B2A(list(x), n * 8):
        return "integer core and byte-level function disagree"
    return True


# ---- netstring ---------------------------------------------------------------------------

_NS_ALPHA = b"0123456789+- _\t\nx:,"


def h_netstring_roundtrip(n1: int, n2: int, trailer: bool) -> bool:
    """
    pre: 0 <= n1 <= B.get("len_max", 12) and 0 <= n2 <= B.get("len_max", 12)
    post: _ == True
    """
    n1, n2 = _pin(n1, 0, B.get("len_max", 12)), _pin(n2, 0, B.get("len_max", 12))
    # payloads full of the framing characters themselves
    s1 = (b"1:,9" * 4)[:n1]
    s2 = (b",:0x" * 4)[:n2]
    data = ns_mod.netstring(s1) + ns_mod.netstring(s2) + (b"TR" if trailer else b"")
    (els, pos) = ns_mod.split_netstring(data, 2, required_trailer=(b"TR" if trailer else None))
    if els != [s1, s2] or pos != len(data):
        return "split_netstring(netstring(a)+netstring(b)) != [a, b]"
    (els1, pos1) = ns_mod.split_netstring(data, 1)
    (els2, pos2) = ns_mod.split_netstring(data, 1, position=pos1)
    if els1 != [s1] or els2 != [s2]:
        return "positional parsing"
    try:
        ns_mod.split_netstring(data, 3)
    except ValueError:
        pass
    else:
        return "asked for more netstrings than there are"
    if not trailer:
        try:
            ns_mod.split_netstring(data + b"x", 2, required_trailer=b"")
        except ValueError:
            pass
        else:
            return "leftover data accepted"
    return True


def _natural_length(field):
    """the natural integer reading of a length field (what Python's int() makes of it); None if it has none"""
    try:
        return int(field)
    except ValueError:
        return None


def h_netstring_canonical(nf: int, c0: int, c1: int, c2: int, plen: int) -> bool:
    """
    pre: 1 <= nf <= B.get("field_max", 2) and 0 <= plen <= 2
    pre: 0 <= c0 < 19 and 0 <= c1 < 19 and 0 <= c2 < 19
    post: _ == True
    """
    # data = netstring(b"a") + <length field of nf arbitrary characters> ':' <payload> ','
    # Non-canonical spellings of the length (leading zeros, sign, blanks, underscores) are tolerated by the parser and
    # are NOT counted as violations as long as they are read with their natural value; what is accepted must decode to
    # [b"a", payload] with nothing left over, and the field's natural value must be the (non-negative) payload length.
    nf = _pin(nf, 1, B.get("field_max", 2))
    idx = [_pin(c, 0, 18) for c in (c0, c1, c2)[:nf]]
    field = b"".join(_NS_ALPHA[i:i + 1] for i in idx)
    payload = [b"", b"x", b"x" * 10][_pin(plen, 0, 2)]
    data = b"1:a," + field + b":" + payload + b","
    # natural reading of the second netstring in `data` (the field may itself contain ':' or ',')
    rest = data[4:]
    f = rest[:rest.index(b":")]
    nat = _natural_length(f)
    model = None
    if nat is not None and nat >= 0:
        body = rest[len(f) + 1:len(f) + 1 + nat]
        if len(body) == nat and rest[len(f) + 1 + nat:len(f) + 2 + nat] == b",":
            model = (body, 4 + len(f) + 2 + nat)
    try:
        (els, pos) = ns_mod.split_netstring(data, 2)
    except (ValueError, AssertionError, IndexError):
        if model is not None and f.isdigit() and str(int(f)).encode() == f:
            return "a canonical netstring was rejected"
        return True
    if model is None:
        return "accepted although the length field has no natural non-negative reading that matches the data"
    if els != [b"a", model[0]]:
        return "an accepted netstring was read as something other than the bytes it frames"
    if pos != model[1]:
        return "accepted, but the reported position is not the end of the second netstring"
    return True


def h_netstring_terminator(plen: int, term: int, extra: int) -> bool:
    """
    pre: 0 <= plen <= 12 and 0 <= term < 19 and 0 <= extra <= 2
    post: _ == True
    """
    # right length field, arbitrary terminator character, payload shorter/longer than announced
    plen, t, extra = _pin(plen, 0, 12), _pin(term, 0, 18), _pin(extra, 0, 2)
    payload = b"x" * plen
    announced = plen + extra - 1            # announced length = actual-1, actual, actual+1
    if announced < 0:
        return True
    data = b"%d:" % announced + payload + _NS_ALPHA[t:t + 1]
    try:
        (els, pos) = ns_mod.split_netstring(data, 1, required_trailer=b"")
    except (ValueError, AssertionError, IndexError):
        return True
    if len(els) != 1 or ns_mod.netstring(els[0]) != data:
        return "a netstring with a wrong terminator or a wrong length was accepted"
    return True


# ---- URI extension block -------------------------------------------------------------------

_UEB_SIZES = [0, 1, 9, 10, 99, 100, 255, 256, 65535, 65536, 2 ** 32, 2 ** 64]


def h_ueb_roundtrip(isize: int, iseg: int, nseg: int, kn: bool, hlen: int) -> bool:
    """
    pre: 0 <= isize < 12 and 0 <= iseg < 3 and 0 <= nseg <= 1 and 0 <= hlen <= 3
    post: _ == True
    """
    # integers are formatted with %d (realised): pinned to boundary values; hash values are byte strings full of framing characters
    size = _UEB_SIZES[_pin(isize, 0, 11)]
    segsize = [0, 7, 131073][_pin(iseg, 0, 2)]
    nseg = _pin(nseg, 0, 1) * 10
    (k, n) = (3, 10) if kn else (1, 1)
    hlen = _pin(hlen, 0, 3)
    h1 = (b":,9:")[:hlen]
    h2 = (b"12:ab,")[hlen:]
    d = {"size": size, "segment_size": segsize, "num_segments": nseg, "needed_shares": k, "total_shares": n,
         "crypttext_root_hash": h1, "share_root_hash": h2, "codec_name": b"crs", "tail_codec_params": b"%d-%d-%d" % (segsize, k, n)}
    packed = uri_mod.pack_extension(d)
    back = uri_mod.unpack_extension(packed)
    if back != d:
        return "unpack_extension(pack_extension(d)) != d"
    if uri_mod.pack_extension(back) != packed:
        return "packing is not canonical"
    return True


# ---- lease records and container headers (FakeStruct) -----------------------------------------

class _Patched(object):
    def __enter__(self):
        self.saved = (lease_mod.struct, immutable_schema.struct, mutable_schema.struct)
        lease_mod.struct = FakeStruct
        immutable_schema.struct = FakeStruct
        mutable_schema.struct = FakeStruct
        return self

    def __exit__(self, *a):
        lease_mod.struct, immutable_schema.struct, mutable_schema.struct = self.saved
        return False


hlib.encoded(lease_mod.LeaseInfo.to_immutable_data, lease_mod.LeaseInfo.from_immutable_data,
             lease_mod.LeaseInfo.to_mutable_data, lease_mod.LeaseInfo.from_mutable_data,
             lease_mod.LeaseInfo.immutable_size, lease_mod.LeaseInfo.mutable_size)

_RS, _CS, _NID = b"r" * 32, b"c" * 32, b"n" * 20


_SECRETS = [b"r" * 32, b"r" * 31 + b"\x00", b"\x00" * 32, b"c" * 30 + b"\x00\x00", b"\x00" + b"c" * 31]


class _NoPatch(object):
    def __enter__(self):
        return self

    def __exit__(self, *a):
        return False


def h_lease_roundtrip(owner: int, exp: int, mutable: bool, rk: int, ck: int, real_struct: bool) -> bool:
    """
    pre: 0 <= owner < 2**32 and 0 <= exp < 2**32 and 0 <= rk < 5 and 0 <= ck < 5
    pre: (not real_struct) or (owner in (0, 1, 2**32 - 1) and exp in (0, 1800000000, 2**32 - 1))
    post: _ == True
    """
    # full-width 32-byte secrets, including ones that end (or start) with NUL bytes or are all NUL; with FakeStruct the
    # integer fields are arbitrary 32-bit values, with the real struct module they are pinned to boundary values
    rs, cs = _SECRETS[_pin(rk, 0, 4)], _SECRETS[_pin(ck, 0, 4)]
    if real_struct:
        owner = [v for v in (0, 1, 2 ** 32 - 1) if owner == v][0]
        exp = [v for v in (0, 1800000000, 2 ** 32 - 1) if exp == v][0]
    with (_NoPatch() if real_struct else _Patched()):
        li = lease_mod.LeaseInfo(owner_num=owner, renew_secret=rs, cancel_secret=cs, expiration_time=exp,
                                 nodeid=_NID if mutable else None)
        if mutable:
            data = li.to_mutable_data()
            back = lease_mod.LeaseInfo.from_mutable_data(data)
            size = li.mutable_size()
        else:
            data = li.to_immutable_data()
            back = lease_mod.LeaseInfo.from_immutable_data(data)
            size = li.immutable_size()
    if len(data) != size:
        return "record size differs from the declared size"
    if back.owner_num != owner or back.get_expiration_time() != exp:
        return "owner / expiration do not round-trip"
    if back.renew_secret != rs or back.cancel_secret != cs:
        return "secrets swapped, lost or altered (e.g. trailing NUL bytes stripped)"
    if mutable and back.nodeid != _NID:
        return "nodeid lost"
    if (not mutable) and back.nodeid is not None:
        return "immutable lease grew a nodeid"
    if not (back.is_renew_secret(rs) and back.is_cancel_secret(cs)):
        return "decoded lease does not accept its own secrets"
    if rs != cs and (back.is_renew_secret(cs) or back.is_cancel_secret(rs)):
        return "decoded lease accepts the wrong secret"
    return True


def h_lease_out_of_range(owner: int, exp: int, mutable: bool) -> bool:
    """
    pre: owner >= 0 and exp >= 0 and (owner >= 2**32 or exp >= 2**32)
    post: _ == True
    """
    # values that do not fit the 32-bit fields must be rejected, not silently truncated
    with _Patched():
        li = lease_mod.LeaseInfo(owner_num=owner, renew_secret=_RS, cancel_secret=_CS, expiration_time=exp,
                                 nodeid=_NID if mutable else None)
        try:
            if mutable:
                li.to_mutable_data()
            else:
                li.to_immutable_data()
        except _real_struct.error:
            return True
    return "out-of-range lease field was encoded"


def h_immutable_header(max_size: int, version: int) -> bool:
    """
    pre: 0 <= max_size and 1 <= version <= 2
    post: _ == True
    """
    with _Patched():
        schema = immutable_schema.schema_from_version(version)
        hdr = schema.header(max_size)
        fields = FakeStruct.unpack(">LLL", hdr)
    if len(hdr) != 12:
        return "immutable header is not 12 bytes"
    (v, sz, nleases) = fields
    if v != version or nleases != 0:
        return "version / lease count"
    want = max_size if max_size < 2 ** 32 - 1 else 2 ** 32 - 1
    if sz != want:
        return "data length field is not min(max_size, 2^32-1)"
    return True


# ---- container header recognition: truncated / corrupted headers are rejected ------------------------

hlib.encoded(mutable_schema._Schema.magic_matches, mutable_schema.schema_from_header, mutable_schema._magic,
             immutable_schema.schema_from_version)


def h_mutable_magic(version: int, plen: int, flip: int, bit: int) -> bool:
    """
    pre: 1 <= version <= 2 and 0 <= plen <= 40 and -1 <= flip < 32 and 0 <= bit < 8
    pre: (flip == -1 and bit == 0) or plen == 40
    post: _ == True
    """
    # a valid mutable container header of the given version, cut to its first plen bytes and/or with one magic bit flipped
    version, plen, flip, bit = _pin(version, 1, 2), _pin(plen, 0, 40), _pin(flip, -1, 31), _pin(bit, 0, 7)
    schema = [s for s in mutable_schema.ALL_SCHEMAS if s.version == version][0]
    header = schema.header(b"n" * 20, b"w" * 32)
    if len(header) != 472:
        return "initial mutable container is not 472 bytes"
    data = header[:plen]
    if 0 <= flip and flip < len(data):
        data = data[:flip] + bytes([data[flip] ^ (1 << bit)]) + data[flip + 1:]
        corrupted = True
    else:
        corrupted = False
    got = mutable_schema.schema_from_header(data)
    valid = (plen >= 32) and not corrupted          # the 32-byte magic must be present in full and intact
    if valid:
        if got is not schema:
            return "a complete, intact magic was not recognised as its own version"
    else:
        if got is not None:
            return "a truncated or corrupted mutable container header was accepted as a valid container"
    for other in mutable_schema.ALL_SCHEMAS:
        if other is not schema and other.magic_matches(data):
            return "header matches the magic of another container version"
    return True


def h_immutable_version(version: int) -> bool:
    """
    pre: True
    post: _ == True
    """
    got = immutable_schema.schema_from_version(version)
    if version == 1 or version == 2:
        if got is None or got.version != version:
            return "known immutable container version not found"
    elif got is not None:
        return "unknown immutable container version accepted"
    return True
