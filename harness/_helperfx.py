"""
Fixtures for the C44 (upload helper) harness.

 * cut_class / cut_fn: hlib.strip_logs on every plain method of a class, plus one more source-level cut: eager
   `"..." % (...)` formatting inside the ARGUMENTS of a logging call whose result is assigned
   (`lp = log.msg("remote_read_encrypted(%d-%d)" % (offset, offset+length), ...)` is not an expression statement, so
   strip_logs keeps it; the formatting would realise the symbolic offsets value by value).  The call stays, its
   message argument becomes the unformatted format string.
 * FakeFS: in-memory stand-in for the os/open names used by immutable/offloaded.py; file contents are lists of
   provenance buffers (hlib.ProvBuf).
 * Net / RRef: stand-in for foolscap RemoteReference.callRemote: `callRemote(name, *args)` -> `target.remote_<name>(*args)`
   either at once or through a harness-owned delivery queue; a reference can lose its connection (DeadReferenceError).
 * ChunkFile / RecHasher / IdAES: plaintext source with provenance, recording hashers, recording identity cipher.
 * CapMod: stand-in for the `uri` module name (CHKFileVerifierURI as a field recorder; cap string formatting/parsing is C15/C38).
"""
import ast
import inspect
import linecache
import os as _real_os
import textwrap
import types

from vlib import hlib
from vlib.hlib import ProvBuf, NS
from twisted.internet import defer
from twisted.python.failure import Failure
from foolscap.api import DeadReferenceError


# ---------------------------------------------------------------------------------------------------------------
# source-level cuts
# ---------------------------------------------------------------------------------------------------------------

_LOGGERS = (("log", "msg"), ("self", "log"), ("log", "err"))


class _LogArgFmt(ast.NodeTransformer):
    def __init__(self, filename, first_line, srclines):
        self.filename, self.first_line, self.srclines = filename, first_line, srclines
        self.cut = []

    def visit_Call(self, node):
        self.generic_visit(node)
        f = node.func
        if isinstance(f, ast.Attribute) and isinstance(f.value, ast.Name) and (f.value.id, f.attr) in _LOGGERS:
            new = []
            changed = False
            for a in node.args:
                if isinstance(a, ast.BinOp) and isinstance(a.op, ast.Mod) and isinstance(a.left, ast.Constant) \
                        and isinstance(a.left.value, str):
                    new.append(a.left)
                    changed = True
                else:
                    new.append(a)
            if changed:
                node.args = new
                text = "\n".join(self.srclines[node.lineno - 1:node.end_lineno]).strip()
                self.cut.append({"file": self.filename, "line": self.first_line + node.lineno - 1,
                                 "src": "log message formatting cut (call kept): " + text[:160]})
        return node


def _raw(fn):
    raw = fn
    while hasattr(raw, "__wrapped__"):
        raw = raw.__wrapped__
    if isinstance(raw, (staticmethod, classmethod)):
        raw = raw.__func__
    return raw


def _has_lambda(fn):
    try:
        tree = ast.parse(textwrap.dedent(inspect.getsource(fn)))
    except (OSError, TypeError, SyntaxError):
        return True
    return any(isinstance(n, ast.Lambda) for n in ast.walk(tree))


def cut_fn(fn, **kw):
    """strip_logs(fn) after removing eager formatting from the arguments of assigned logging calls."""
    raw = _raw(fn)
    src = textwrap.dedent(inspect.getsource(raw))
    filename = inspect.getsourcefile(raw) or "?"
    first_line = raw.__code__.co_firstlineno
    tree = ast.parse(src)
    # only calls that survive strip_logs matter (assignments / returns); bare statements are removed by strip_logs anyway
    tr = _LogArgFmt(filename, first_line, src.splitlines())
    for node in ast.walk(tree):
        if isinstance(node, (ast.Assign, ast.Return)) and node.value is not None:
            node.value = tr.visit(node.value)
    if not tr.cut:
        return hlib.strip_logs(fn, **kw)
    ast.fix_missing_locations(tree)
    new_src = ast.unparse(tree)
    fake_name = "<verif-logfmt-cut:%s:%s>" % (raw.__qualname__, first_line)
    linecache.cache[fake_name] = (len(new_src), None, new_src.splitlines(True), fake_name)
    ns = {}
    exec(compile(new_src, fake_name, "exec"), raw.__globals__, ns)
    f2 = ns[tree.body[0].name]
    f2.__qualname__ = raw.__qualname__
    f2.__module__ = raw.__module__
    hlib.encoded(raw)
    hlib.CUTS.extend(tr.cut)
    out = hlib.strip_logs(f2, **kw)
    hlib.encoded(raw)      # keep the hash of the REAL source text under the qualified name
    return out


class Prog(object):
    """a progress ratio nobody looks at (stand-in for float arithmetic on symbolic ints: symbolic floats do not
    discharge under CrossHair, and progress display is not part of the property)"""

    def __truediv__(self, other):
        if other == 0:
            raise ZeroDivisionError("float division by zero")
        return 0.5

    def __mul__(self, other):
        return self

    __rmul__ = __mul__

    def __add__(self, other):
        return self

    __radd__ = __add__

    def __repr__(self):
        return "<progress>"


class One(Prog):
    """stand-in for the literal 1.0 (`1.0 * (have + n) / total`)"""


def fake_float(x=0):
    if isinstance(x, (str, bytes)):
        return float(x)
    return Prog()


FLOAT_CONSTS = {1.0: One()}


def cut_class(cls, **kw):
    """Apply cut_fn to every plain method defined by `cls` (discovered, not named); methods that contain lambdas or
    closures are left as they are (recorded with encoded()).  Returns (recompiled names, untouched names)."""
    done, kept = [], []
    for name, attr in list(vars(cls).items()):
        if not isinstance(attr, types.FunctionType):
            continue
        raw = _raw(attr)
        if raw.__code__.co_freevars or _has_lambda(raw):
            hlib.encoded(raw)
            kept.append(name)
            continue
        try:
            new = cut_fn(attr, **kw)
        except hlib.HarnessError:
            hlib.encoded(raw)
            kept.append(name)
            continue
        setattr(cls, name, new)
        done.append(name)
    return done, kept


# ---------------------------------------------------------------------------------------------------------------
# logging / precondition stand-ins
# ---------------------------------------------------------------------------------------------------------------

class NoLog(object):
    """stand-in for the module-level name `log` (allmydata.util.log): msg/err do nothing (err records), the level
    constants are the real ones"""

    def __init__(self, real):
        self._real = real
        self.errors = []

    def msg(self, *a, **kw):
        return 0

    def err(self, *a, **kw):
        self.errors.append(a)
        return 0

    def __getattr__(self, name):
        return getattr(self._real, name)


def precondition(cond, *args, **kwargs):
    """allmydata.util.assertutil.precondition without the message formatting (same exception type)"""
    if not cond:
        raise AssertionError("precondition")


# ---------------------------------------------------------------------------------------------------------------
# in-memory file system
# ---------------------------------------------------------------------------------------------------------------

def join_pieces(pieces):
    """concatenation of provenance buffers without re-validating every run (ProvBuf() re-checks `length > 0` per run,
    one solver query each, on every `+`)"""
    out = ProvBuf()
    runs = []
    for piece in pieces:
        runs.extend(piece.runs)
    out.runs = runs
    return out


class _Handle(object):
    def __init__(self, fs, path, mode):
        self.fs, self.path, self.mode = fs, path, mode
        self.data = fs.files[path]      # the file OBJECT (a list of pieces): survives rename/unlink like an inode
        self.pos = 0
        self.closed = False

    def write(self, data):
        if self.closed:
            raise ValueError("write to closed file")
        if "a" not in self.mode and "w" not in self.mode:
            raise IOError("file not open for writing")
        self.fs.ops.append(("write", self.path, len(data)))
        self.data.append(data)
        return len(data)

    def read(self, n=-1):
        if self.closed:
            raise ValueError("read of closed file")
        if "r" not in self.mode:
            raise IOError("file not open for reading")
        whole = join_pieces(self.data)
        if n is None or n < 0:
            out = whole[self.pos:]
        else:
            out = whole[self.pos:self.pos + n]
        self.pos = self.pos + len(out)
        self.fs.ops.append(("read", self.path, n))
        return out

    def close(self):
        self.closed = True

    def flush(self):
        pass


class FakeFS(object):
    """files: {path: [ProvBuf, ...]}.  Paths are concrete strings."""

    def __init__(self):
        self.reset()

    def reset(self):
        self.files = {}
        self.handles = []
        self.ops = []

    # -- what offloaded.py uses --
    def exists(self, path):
        return path in self.files

    def stat(self, path):
        if path not in self.files:
            raise FileNotFoundError(path)
        size = 0
        for piece in self.files[path]:
            size = size + len(piece)
        return (0o100600, 0, 0, 1, 0, 0, size, 0, 0, 0)      # index stat.ST_SIZE == 6

    def open(self, path, mode="r"):
        if "r" in mode:
            if path not in self.files:
                raise FileNotFoundError(path)
        elif "w" in mode:
            self.files[path] = []
        elif "a" in mode:
            if path not in self.files:
                self.files[path] = []
        else:
            raise hlib.HarnessError("FakeFS.open mode %r" % (mode,))
        self.ops.append(("open", path, mode))
        h = _Handle(self, path, mode)
        self.handles.append(h)
        return h

    def rename(self, a, b):
        if a not in self.files:
            raise FileNotFoundError(a)
        self.ops.append(("rename", a, b))
        self.files[b] = self.files.pop(a)

    def unlink(self, path):
        if path not in self.files:
            raise FileNotFoundError(path)
        self.ops.append(("unlink", path))
        del self.files[path]

    def listdir(self, d):
        return [_real_os.path.basename(p) for p in reversed(list(self.files)) if _real_os.path.dirname(p) == d]

    def make_dirs(self, d, mode=0o777):
        pass

    # -- harness side --
    def content(self, path):
        return join_pieces(self.files[path])

    def open_handles(self):
        return [h for h in self.handles if not h.closed]

    def as_os(self):
        return NS(path=NS(exists=self.exists, join=_real_os.path.join), stat=self.stat, rename=self.rename,
                  unlink=self.unlink, listdir=self.listdir)


# ---------------------------------------------------------------------------------------------------------------
# remote references
# ---------------------------------------------------------------------------------------------------------------

class Net(object):
    """Delivery of callRemote messages.  queued=False: the remote method runs inside callRemote (already-fired
    Deferred).  queued=True: the call is parked; pump() delivers parked calls in FIFO order, one per step, and runs the
    `at_step` hook before each delivery (connection loss, a second client arriving)."""

    def __init__(self):
        self.reset()

    def reset(self, queued=False, limit=80):
        self.queued = queued
        self.pending = []
        self.calls = []
        self.answered = []
        self.on_deliver = None
        self.limit = limit
        self.steps = 0

    def deliver(self, rref, name, args, kwargs):
        if rref.dead:
            return defer.fail(DeadReferenceError("connection lost", None, None))
        self.answered.append((rref.name, name, args))
        if self.on_deliver is not None:
            self.on_deliver(rref, name, args)
        meth = getattr(rref.target, "remote_" + name)
        d = defer.maybeDeferred(meth, *args, **kwargs)
        d.addErrback(note_steering)
        return d

    def call(self, rref, name, args, kwargs):
        self.calls.append((rref.name, name, args))
        if len(self.calls) > self.limit:
            raise RuntimeError("runaway remote-call loop (more than %d calls)" % self.limit)
        if not self.queued:
            return self.deliver(rref, name, args, kwargs)
        d = defer.Deferred()
        self.pending.append((d, rref, name, args, kwargs))
        return d

    def pump_one(self):
        (d, rref, name, args, kwargs) = self.pending.pop(0)
        self.steps += 1
        self.deliver(rref, name, args, kwargs).chainDeferred(d)

    def calls_of(self, who, name):
        return [a for (w, n, a) in self.calls if w == who and n == name]


class RRef(object):
    """foolscap RemoteReference stand-in.  `die_at_read` = number of read_encrypted calls this reference answers
    before its connection is lost; `die_at_call` = number of calls of any kind it answers (None: never)."""

    def __init__(self, net, target, name, die_at_read=None, die_at_call=None):
        self.net, self.target, self.name = net, target, name
        self.dead = False
        self.die_at_read = die_at_read
        self.die_at_call = die_at_call
        self.reads_seen = 0
        self.calls_seen = 0

    def callRemote(self, name, *args, **kwargs):
        if not self.dead:
            if name == "read_encrypted" and self.die_at_read is not None:
                if self.reads_seen >= self.die_at_read:
                    self.dead = True
                self.reads_seen += 1
            if self.die_at_call is not None:
                if self.calls_seen >= self.die_at_call:
                    self.dead = True
                self.calls_seen += 1
        return self.net.call(self, name, args, kwargs)

    def __repr__(self):
        return "<RRef %s>" % self.name


# ---------------------------------------------------------------------------------------------------------------
# client-side sources and recorders
# ---------------------------------------------------------------------------------------------------------------

class ChunkFile(object):
    """plaintext file of `size` bytes; read(n) returns provenance ("pt", position)"""

    def __init__(self, size):
        self.size = size
        self.pos = 0
        self.nreads = 0
        self.closed = 0

    def seek(self, pos, whence=0):
        if whence == 0:
            self.pos = pos
        elif whence == 2:
            self.pos = self.size + pos
        else:
            raise hlib.HarnessError("seek whence")

    def tell(self):
        return self.pos

    def read(self, n):
        avail = self.size - self.pos
        if avail < 0:
            avail = 0
        m = n if n < avail else avail
        self.nreads += 1
        if self.nreads > 60:
            raise RuntimeError("runaway read loop (more than 60 reads of this small file)")
        r = ProvBuf.src("pt", m, self.pos)
        self.pos = self.pos + m
        return r

    def close(self):
        self.closed += 1


class RecHasher(object):
    made = []

    def __init__(self, *args):
        self.args = args
        self.fed = []
        RecHasher.made.append(self)

    def update(self, data):
        self.fed.append(data)

    def digest(self):
        return b"D" * 32


class IdAES(object):
    """identity cipher: ciphertext byte i of the stream 'is' plaintext byte i; records the stream so that the position
    in the AES-CTR keystream can be compared with the position in the file"""

    def __init__(self):
        self.reset()

    def reset(self):
        self.keys = []
        self.stream = []
        self.encs = []

    def create_encryptor(self, key):
        self.keys.append(key)
        enc = NS(key=key, stream=[])
        self.encs.append(enc)
        return enc

    def encrypt_data(self, enc, data):
        enc.stream.append(data)      # per encryptor (one per EncryptAnUploadable)
        self.stream.append(data)     # all encryptors of the run
        return data


def fed_ok(fed, total, p, what):
    """the concatenation of the recorded pieces is exactly source bytes [0:total) in order (decided at probe p)"""
    pos = 0
    hit = None
    for w in fed:
        n = len(w)
        if pos <= p and p < pos + n:
            hit = w.at(p - pos)
        pos = pos + n
    if pos != total:
        return "%s saw %s bytes than the file has" % (what, "more" if pos > total else "fewer")
    if 0 <= p and p < total and hit != ("pt", p):
        return "%s: byte at stream position p is not file byte p" % what
    return True


def pieces_at(pieces, p):
    tot = 0
    hit = None
    for piece in pieces:
        if tot <= p and p < tot + len(piece):
            hit = piece.at(p - tot)
        tot = tot + len(piece)
    return tot, hit


STEER = []


def note_steering(f):
    """errback: twisted turns ANY BaseException raised in a callback into a Failure, including the engine's control-flow
    exceptions, and the code under test has errbacks that swallow failures (AskUntilSuccessMixin.call retries with the
    next reader).  Remember such an exception so that the harness can re-raise it at top level (check_steering)."""
    if not isinstance(f.value, Exception):
        STEER.append(f.value)
    return f


def check_steering():
    if STEER:
        e = STEER[0]
        del STEER[:]
        raise e


def collect(d):
    """results delivered so far on Deferred d (control-flow exceptions of the engine are re-raised)"""
    out = []
    d.addBoth(out.append)
    for r in out:
        if isinstance(r, Failure) and not isinstance(r.value, Exception):
            raise r.value
    return out


# ---------------------------------------------------------------------------------------------------------------
# `uri` module stand-in
# ---------------------------------------------------------------------------------------------------------------

class CapStr(bytes):
    """what RecVerifyCap.to_string() returns: a bytes object (isinstance checks in the real code hold) that remembers
    the cap it was made from"""
    cap = None


class RecVerifyCap(object):
    made = []

    def __init__(self, storage_index, uri_extension_hash, needed_shares, total_shares, size):
        self.storage_index = storage_index
        self.uri_extension_hash = uri_extension_hash
        self.needed_shares = needed_shares
        self.total_shares = total_shares
        self.size = size
        RecVerifyCap.made.append(self)

    def fields(self):
        return (self.storage_index, self.uri_extension_hash, self.needed_shares, self.total_shares, self.size)

    def to_string(self):
        s = CapStr(b"URI:CHK-Verifier:recorded")
        s.cap = self
        return s


class RecReadCap(object):
    def __init__(self, key, uri_extension_hash, needed_shares, total_shares, size):
        self.key = key
        self.uri_extension_hash = uri_extension_hash
        self.needed_shares = needed_shares
        self.total_shares = total_shares
        self.size = size

    def fields(self):
        return (self.key, self.uri_extension_hash, self.needed_shares, self.total_shares, self.size)

    def to_string(self):
        s = CapStr(b"URI:CHK:recorded")
        s.cap = self
        return s


class CapMod(object):
    """stand-in for the module-level name `uri`: CHKFileVerifierURI / CHKFileURI record their fields, from_string gives
    the recorded cap back; everything else is the real module"""

    def __init__(self, real):
        self._real = real
        for (realcls, rec) in ((real.CHKFileVerifierURI, RecVerifyCap), (real.CHKFileURI, RecReadCap)):
            want = inspect.signature(realcls.__init__)
            have = inspect.signature(rec.__init__)
            if list(want.parameters) != list(have.parameters):
                raise hlib.HarnessError("%s constructor signature changed: %s" % (realcls.__name__, want))
        self.CHKFileVerifierURI = RecVerifyCap
        self.CHKFileURI = RecReadCap

    def from_string(self, s):
        if isinstance(s, CapStr):
            return s.cap
        return self._real.from_string(s)

    def __getattr__(self, name):
        return getattr(self._real, name)
