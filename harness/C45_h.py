"""
C45 — immutable check / verify / repair: the verifier's gates (immutable/checker.py) and the health
classification (Checker._format_results, CiphertextFileNode._gather_repair_results).
"""
from vlib import hlib
from vlib.hlib import assume, NS
hlib.ensure_shims()
import _merkle as M
import _cuts
from zope.interface import implementer
from twisted.internet import defer
from twisted.python.failure import Failure
from allmydata import hashtree, codec as codec_mod
from allmydata.interfaces import IURI, IVerifierURI, IDisplayableServer, IUploadResults
from allmydata.immutable import checker, upload, encode, filenode
from allmydata.immutable.checker import (ValidatedExtendedURIProxy, ValidatedReadBucketProxy, Checker, BadURIExtension,
                                         BadURIExtensionHashValue, BadOrMissingHash, UnsupportedErasureCodec)
from allmydata.util.dictutil import DictOfSets
from allmydata.check_results import CheckResults, CheckAndRepairResults

B = hlib.bounds()
M.install(hashtree)
EXCLUDED = []
NOTES = [M.MODEL_NOTE, M.B32_NOTE,
         "checker.uri.unpack_extension replaced by a stub returning the UEB dict with symbolic field values (UEB codec is C38)",
         "checker.codec.parse_params / CRSEncoder.get_serialized_params replaced by a paired identity on (size,k,n) tuples (string codec is C38)",
         "checker.uri_extension_hash / checker.block_hash replaced by ideal content hashes (content id -> hash id, injective)",
         "eager %-formatting of exception messages in _parse_and_validate cut (harness/_cuts.py); exception types unchanged",
         "zfec constructors replaced by recorders (as in C01)",
         "checker.base32 (renders hashes into log prefixes / exception messages only) replaced by a constant",
         "name `set` in immutable.filenode bound to a set subclass whose unbound union(a,b) is a|b (CrossHair set proxies reject the builtin descriptor)",
         "ValidatedReadBucketProxy.__init__: log-prefix formatting cut (subclass with the same attribute assignments, differential-checked against the real __init__ at import)",
         "ReadBucketProxy replaced by an adversarial bucket returning symbolic hash lists / block contents as fired Deferreds"]


class _FakeZfec(object):
    class Encoder(object):
        def __init__(self, k, n):
            self.k, self.n = k, n

    class Decoder(object):
        def __init__(self, k, n):
            self.k, self.n = k, n


codec_mod.zfec = _FakeZfec
codec_mod.CRSEncoder.get_serialized_params = lambda self: (self.data_size, self.required_shares, self.max_shares)

V_parse = _cuts.strip(ValidatedExtendedURIProxy._parse_and_validate)
V_integrity = hlib.strip_logs(ValidatedExtendedURIProxy._check_integrity)
E_gotall = hlib.strip_logs(encode.Encoder._got_all_encoding_parameters)
C_format = hlib.strip_logs(Checker._format_results)
F_gather = hlib.strip_logs(filenode.CiphertextFileNode._gather_repair_results)
for _name in ("get_all_sharehashes", "get_all_blockhashes", "get_all_crypttext_hashes", "get_block", "_got_data"):
    hlib.strip_method(ValidatedReadBucketProxy, _name)
hlib.encoded(upload.BaseUploadable.get_all_encoding_parameters, codec_mod.CRSEncoder.set_params,
             hashtree.IncompleteHashTree.set_hashes, hashtree.IncompleteHashTree.needed_hashes)

CMAX = 8


class CID(bytes):
    """opaque content identified by a symbolic content id"""

    def __new__(cls, cid, n=10):
        o = bytes.__new__(cls, b"")
        o.cid, o.n = cid, n
        return o

    def __len__(self):
        return self.n

    __hash__ = None


def _h_block(data):
    if not isinstance(data, CID):
        raise hlib.HarnessError("ideal block_hash on unmodelled data")
    return M.sym(1 + data.cid, 0)


def _h_ueb(data):
    if not isinstance(data, CID):
        raise hlib.HarnessError("ideal uri_extension_hash on unmodelled data")
    return M.sym(17 + data.cid, 0)


checker.block_hash = _h_block
checker.uri_extension_hash = _h_ueb
# checker.py uses base32 only to render hashes into log prefixes and exception messages
checker.base32 = NS(b2a=lambda b: b"<hash>", b2a_or_none=lambda b: None if b is None else b"<hash>")


def _real(x, lo, hi):
    for c in range(lo, hi):
        if x == c:
            return c
    raise hlib.HarnessError("value outside its precondition range")


def _result(d):
    out = []
    d.addCallbacks(lambda r: out.append(("ok", r)), lambda f: out.append(("err", f)))
    if not out:
        raise hlib.HarnessError("Deferred did not fire synchronously")
    if out[0][0] == "err" and not isinstance(out[0][1].value, Exception):
        raise out[0][1].value          # CrossHair control-flow exception captured by twisted
    return out[0]


# ---- 1. UEB consistency gate ------------------------------------------------------------------------

def _veup(size, k, n):
    v = ValidatedExtendedURIProxy.__new__(ValidatedExtendedURIProxy)
    v._verifycap = NS(size=size, needed_shares=k, total_shares=n, uri_extension_hash=None, to_string=lambda: b"cap")
    v._readbucketproxy = "rbp"
    v._fetch_failures = None
    v.crypttext_hash = None
    return v


def _parse(v, d):
    saved_uri, saved_codec = checker.uri, checker.codec
    checker.uri = NS(unpack_extension=lambda data: d)
    checker.codec = NS(parse_params=lambda t: t)
    try:
        return V_parse(v, b"ueb")
    finally:
        checker.uri, checker.codec = saved_uri, saved_codec


_GROUPS = {"cp": (True, False, False, False, False, False, True, False),
           "tcp": (False, True, False, False, False, False, False, False),
           "sizes": (False, False, True, True, False, False, False, True),
           "kn": (False, False, False, False, True, True, False, False)}


def _mask(group, flags):
    """case split over which redundant fields may be present (None: any subset); flags outside the group are
    forced absent WITHOUT being read (no fork)"""
    if group is None:
        return flags
    return tuple((f if a else False) for f, a in zip(flags, _GROUPS[group]))


def h_ueb_sound(size: int, k: int, n: int, seg: int,
                has_cp: bool, c0: int, c1: int, c2: int, has_tcp: bool, t0: int, t1: int, t2: int,
                has_ns: bool, ns: int, has_size: bool, usize: int, has_k: bool, uk: int, has_n: bool, un: int,
                has_codec: bool, crs: bool, has_cth: bool, cth_ok: bool) -> bool:
    """
    pre: k == B["k"] and k <= n <= 256 and 1 <= size <= B["size_max"] and 1 <= seg <= B["seg_max"]
    pre: 0 <= c0 and 0 <= c1 and 0 <= c2 and 0 <= t0 and 0 <= t1 and 0 <= t2 and 0 <= ns and 0 <= usize and 0 <= uk and 0 <= un
    post: _ == True
    """
    k = B["k"]
    (has_cp, has_tcp, has_ns, has_size, has_k, has_n, has_codec, has_cth) = _mask(
        B.get("group"), (has_cp, has_tcp, has_ns, has_size, has_k, has_n, has_codec, has_cth))
    d = {"segment_size": seg, "crypttext_root_hash": M.sym(3, 0), "share_root_hash": M.sym(4, 0)}
    if has_cp:
        d["codec_params"] = (c0, c1, c2)
    if has_tcp:
        d["tail_codec_params"] = (t0, t1, t2)
    if has_ns:
        d["num_segments"] = ns
    if has_size:
        d["size"] = usize
    if has_k:
        d["needed_shares"] = uk
    if has_n:
        d["total_shares"] = un
    if has_codec:
        d["codec_name"] = b"crs" if crs else b"xor"
    if has_cth:
        d["crypttext_hash"] = b"c" * (32 if cth_ok else 31)
    v = _veup(size, k, n)
    v.num_segments = None

    def consistent():
        # independent definitions, by inequalities (no division by a symbolic value): num_segments = ceil(size/seg) is
        # the unique N with (N-1)*seg < size <= N*seg; the derived value the code computed is first checked against that
        # definition and only then used to define the tail
        nseg = v.num_segments
        if nseg is None or not ((nseg - 1) * seg < size <= nseg * seg):
            return "num_segments is not ceil(size/segment_size)"
        if has_cp and not (c0 == seg and c1 == k and c2 == n):
            return False
        if has_tcp:
            tail_m = size - (nseg - 1) * seg
            tp_m = -(-tail_m // k) * k          # k is concrete
            if not (t0 == tp_m and t1 == k and t2 == n):
                return False
        if has_ns and ns != nseg:
            return False
        if has_size and usize != size:
            return False
        if has_k and uk != k:
            return False
        if has_n and un != n:
            return False
        if has_codec and not crs:
            return False
        if has_cth and not cth_ok:
            return False
        return True
    try:
        r = _parse(v, d)
    except BadURIExtension:
        # (UnsupportedErasureCodec is a BadURIExtension) -- must be justified by an inconsistent field
        c = consistent()
        if c is True:
            return "consistent UEB rejected"
        if c is not False:
            return c
        return True
    c = consistent()
    if c is not True and c is not False:
        return c
    if r is not v:
        return "does not return self"
    if c is False:
        return "accepted a UEB with a redundant field that contradicts the cap"
    nseg = v.num_segments
    if not (nseg >= 1 and (nseg - 1) * seg < size <= nseg * seg):
        return "num_segments is not ceil(size/segment_size)"
    tail = size - (nseg - 1) * seg
    if v.tail_data_size != tail:
        return "tail_data_size wrong"
    tp = v.tail_segment_size
    if not (tp % k == 0 and tp >= tail and tp - k < tail):
        return "tail_segment_size is not the least multiple of k >= tail"
    if not ((v.block_size - 1) * k < seg <= v.block_size * k):
        return "block_size is not ceil(segment_size/k)"
    if not ((v.share_size - 1) * k < size <= v.share_size * k):
        return "share_size is not ceil(size/k)"
    if v.segment_size != seg or not M.same(v.crypttext_root_hash, d["crypttext_root_hash"]) or \
            not M.same(v.share_root_hash, d["share_root_hash"]):
        return "required fields not taken from the UEB"
    return True


# ---- 2. the encoder's own UEB is accepted --------------------------------------------------------------

class _RecBucket(object):
    def __init__(self):
        self.block_reads = []

    def get_share_hashes(self):
        return defer.succeed([])

    def get_block_hashes(self, needed):
        return defer.succeed([])

    def get_block_data(self, blocknum, block_size, thisblocksize):
        self.block_reads.append((blocknum, block_size, thisblocksize))
        return defer.fail(RuntimeError("stop here"))

    def __repr__(self):
        return "<bucket>"


def h_ueb_complete(size: int, maxseg: int, k: int, n: int) -> bool:
    """
    pre: k == B["k"] and k <= n <= 16 and 1 <= size <= B["size_max"] and 1 <= maxseg <= B["seg_max"]
    post: _ == True
    """
    k = B["k"]
    up = NS(default_params_set=True, _all_encoding_parameters=None, max_segment_size=maxseg, default_max_segment_size=maxseg,
            encoding_param_k=k, default_encoding_param_k=k, encoding_param_happy=1, default_encoding_param_happy=1,
            encoding_param_n=n, default_encoding_param_n=n, get_size=lambda: defer.succeed(size))
    params = _result(upload.BaseUploadable.get_all_encoding_parameters(up))[1]
    enc = encode.Encoder.__new__(encode.Encoder)
    enc._codec = None
    enc._log_number = 0
    enc.file_size = size
    enc.uri_extension_data = {}
    E_gotall(enc, params)
    d = dict(enc.uri_extension_data)
    d["crypttext_root_hash"] = M.sym(3, 0)
    d["share_root_hash"] = M.sym(4, 0)
    for key in ("codec_name", "codec_params", "tail_codec_params", "size", "segment_size", "num_segments", "needed_shares", "total_shares"):
        if key not in d:
            return "encoder UEB lacks %s" % key
    v = _veup(size, k, n)
    try:
        _parse(v, d)
    except BadURIExtension as e:
        return "the encoder's own UEB is rejected by the verifier (%s)" % type(e).__name__
    if v.num_segments != enc.num_segments or v.segment_size != enc.segment_size:
        return "verifier and encoder disagree on segments"
    if v.block_size != enc._codec.get_block_size():
        return "verifier block_size != encoder block size"
    if v.tail_segment_size != enc._tail_codec.data_size:
        return "verifier tail_segment_size != encoder padded tail"
    if v.share_size != enc.share_size:
        return "verifier share_size != encoder share_size"
    return True


def h_last_block(ns: int, bs: int, tbs: int, blocknum: int) -> bool:
    """
    pre: 1 <= ns and 1 <= tbs <= bs and 0 <= blocknum < ns
    post: _ == True
    """
    # share_size as the encoder/verifier define it (sum of the block sizes of one share; proved equal to ceil(size/k) in ueb_completeness)
    share_size = (ns - 1) * bs + tbs
    sht = hashtree.IncompleteHashTree(2)
    sht[0] = M.sym(4, 0)
    bucket = _RecBucket()
    vr = ValidatedReadBucketProxy.__new__(ValidatedReadBucketProxy)
    vr.sharenum, vr.bucket, vr.share_hash_tree = 0, bucket, sht
    vr.num_blocks, vr.block_size, vr.share_size = ns, bs, share_size
    # (the block hash tree is only consulted for needed_hashes here; the sizes are what matters)
    vr.block_hash_tree = NS(needed_hashes=lambda blocknum, include_leaf=False: set())
    _result(vr.get_block(blocknum))
    if len(bucket.block_reads) != 1:
        return "get_block did not read the block"
    (bn, b1, b2) = bucket.block_reads[0]
    want = tbs if blocknum == ns - 1 else bs
    if not (bn == blocknum and b1 == bs and b2 == want):
        return "get_block requests the wrong amount of data (last block must be the tail block size)"
    return True


# ---- 3. UEB hash gate --------------------------------------------------------------------------------

def h_ueb_hash(u: int, g: int) -> bool:
    """
    pre: 0 <= u < CMAX and 0 <= g < CMAX
    post: _ == True
    """
    v = _veup(10, 2, 3)
    v._verifycap.uri_extension_hash = M.sym(17 + g, 0)
    data = CID(u)
    try:
        r = V_integrity(v, data)
    except BadURIExtensionHashValue:
        if u == g:
            return "genuine UEB rejected"
        return True
    if r is not data:
        return "returns something other than the checked bytes"
    if not (u == g):
        return "accepted a UEB whose hash differs from the cap's"
    return True


# ---- 4. health classification ------------------------------------------------------------------------

@implementer(IDisplayableServer)
class _Srv(object):
    def __init__(self, name):
        self.name = name

    def get_name(self):
        return self.name

    def get_longname(self):
        return self.name

    def get_nickname(self):
        return self.name

    def get_serverid(self):
        return self.name

    def __repr__(self):
        return "<srv %s>" % self.name


@implementer(IURI, IVerifierURI)
class _Cap(object):
    def __init__(self, k, n, size=100):
        self.needed_shares, self.total_shares, self.size = k, n, size

    def get_storage_index(self):
        return b"si"

    def to_string(self):
        return b"URI:CHK-Verifier:x"


def _bits(vals, nshares):
    return set(j for j in range(nshares) if vals[j])


def h_format(k: int, n: int,
             v00: bool, v01: bool, v02: bool, v10: bool, v11: bool, v12: bool,
             c00: bool, c01: bool, c02: bool, c10: bool, c11: bool, c12: bool,
             i00: bool, i10: bool, r0: bool, r1: bool) -> bool:
    """
    pre: 1 <= k <= n <= B["nsh"]
    pre: B.get("kn") is None or [k, n] == B["kn"]
    post: _ == True
    """
    NSH = B["nsh"]
    k = _real(k, 1, NSH + 1)
    n = _real(n, 1, NSH + 1)
    V = [[v00, v01, v02], [v10, v11, v12]]
    C = [[c00, c01, c02], [c10, c11, c12]]
    I = [[i00, False, False], [i10, False, False]]
    R = [r0, r1]
    # a share of one server is verified, corrupt or incompatible -- at most one of these; share numbers < n
    for s in range(2):
        for j in range(3):
            if j >= n:
                assume(not V[s][j] and not C[s][j] and not I[s][j])
            assume(not (V[s][j] and C[s][j]) and not (V[s][j] and I[s][j]) and not (C[s][j] and I[s][j]))
        # a server that did not respond reports nothing
        if not R[s]:
            assume(not any(V[s]) and not any(C[s]) and not any(I[s]))
    srv = [_Srv("s0"), _Srv("s1")]
    results = [(_bits(V[s], 3), srv[s], _bits(C[s], 3), _bits(I[s], 3), R[s]) for s in range(2)]
    ck = NS(_verifycap=_Cap(k, n))
    cr = C_format(ck, results)
    good = set(j for j in range(3) if V[0][j] or V[1][j])          # distinct verified share numbers
    if cr.is_healthy() != (len(good) == n):
        return "healthy is not 'N distinct good shares found'"
    if cr.is_recoverable() != (len(good) >= k):
        return "recoverable is not 'at least k distinct good shares found'"
    if cr.get_share_counter_good() != len(good):
        return "count_shares_good wrong"
    if cr.get_encoding_needed() != k or cr.get_encoding_expected() != n:
        return "encoding parameters wrong"
    sm = cr.get_sharemap()
    for j in range(3):
        holders = set(srv[s] for s in range(2) if V[s][j])
        if set(sm.get(j, set())) != holders:
            return "sharemap wrong"
    corrupt = set((s_, j) for (s_, si, j) in cr.get_corrupt_shares())
    if corrupt != set((srv[s], j) for s in range(2) for j in range(3) if C[s][j]) or \
            len(cr.get_corrupt_shares()) != len(corrupt):
        return "corrupt share list wrong"
    incompat = set((s_, j) for (s_, si, j) in cr.get_incompatible_shares())
    if incompat != set((srv[s], j) for s in range(2) for j in range(3) if I[s][j]):
        return "incompatible share list wrong"
    if set(cr.get_servers_responding()) != set(srv[s] for s in range(2) if R[s]):
        return "servers_responding wrong"
    if cr.get_host_counter_good_shares() != len([s for s in range(2) if any(V[s])]):
        return "count_good_share_hosts wrong"
    # servers-of-happiness of a 2-server layout: size of a maximum matching servers<->shares
    h = 0
    if any(V[0]) or any(V[1]):
        h = 1
        for a in range(3):
            for b in range(3):
                if a != b and V[0][a] and V[1][b]:
                    h = 2
    if cr.get_happiness() != h:
        return "happiness is not the maximum matching"
    return True


# ---- 5. post-repair classification ------------------------------------------------------------------

class _SetCompat(set):
    """the name `set` inside immutable.filenode: CrossHair proxies sets built in traced code, and the unbound builtin
    `set.union(a, b)` refuses the proxy; `a | b` is the same operation"""
    def _union(a, *others):
        out = a
        for o in others:
            out = out | o
        return out
    union = staticmethod(_union)

    def __getattribute__(self, name):
        # instance call `s.union(x, y, ...)` must bind the instance as first operand
        if name == "union":
            return lambda *others: _SetCompat._union(self, *others)
        return set.__getattribute__(self, name)


filenode.set = _SetCompat


@implementer(IUploadResults)
class _UR(object):
    def __init__(self, sharemap):
        self._sm = sharemap

    def get_sharemap(self):
        return self._sm


def h_repair_results(k: int, n: int, v00: bool, v01: bool, v02: bool, v10: bool, v11: bool, v12: bool,
                     u00: bool, u01: bool, u02: bool, u10: bool, u11: bool, u12: bool) -> bool:
    """
    pre: 1 <= k <= n <= B["nsh"]
    pre: B.get("kn") is None or [k, n] == B["kn"]
    post: _ == True
    """
    k = _real(k, 1, 4)
    n = _real(n, 1, 4)
    V = [[v00, v01, v02], [v10, v11, v12]]
    U = [[u00, u01, u02], [u10, u11, u12]]
    for s in range(2):
        for j in range(n, 3):
            assume(not V[s][j] and not U[s][j])
    srv = [_Srv("s0"), _Srv("s1")]
    cap = _Cap(k, n)
    pre_sm = DictOfSets()
    for s in range(2):
        for j in range(3):
            if V[s][j]:
                pre_sm.add(j, srv[s])
    pre_good = set(j for j in range(3) if V[0][j] or V[1][j])
    assume(len(pre_good) >= k)          # repair is only attempted on recoverable files
    cr = CheckResults(cap, b"si", healthy=(len(pre_good) == n), recoverable=True, count_happiness=0,
                      count_shares_needed=k, count_shares_expected=n, count_shares_good=len(pre_good),
                      count_good_share_hosts=0, count_recoverable_versions=1, count_unrecoverable_versions=0,
                      servers_responding=[srv[s] for s in range(2) if any(V[s])], sharemap=pre_sm, count_wrong_shares=0,
                      list_corrupt_shares=[], count_corrupt_shares=0, list_incompatible_shares=[],
                      count_incompatible_shares=0, summary="", report=[], share_problems=[], servermap=None)
    crr = CheckAndRepairResults(b"si")
    up_sm = {}
    for s in range(2):
        for j in range(3):
            if U[s][j]:
                up_sm.setdefault(j, set()).add(srv[s])
    fn = NS(_verifycap=cap)
    out = F_gather(fn, _UR(up_sm), cr, crr)
    if out is not crr:
        return "does not return the CheckAndRepairResults"
    post = crr.post_repair_results
    good = set(j for j in range(3) if V[0][j] or V[1][j] or U[0][j] or U[1][j])
    if post.is_healthy() != (len(good) == n) or crr.repair_successful != (len(good) == n):
        return "post-repair healthy / repair_successful is not 'N distinct shares now placed'"
    if post.is_recoverable() != (len(good) >= k):
        return "post-repair recoverable wrong"
    if post.get_share_counter_good() != len(good):
        return "post-repair count_shares_good wrong"
    sm = post.get_sharemap()
    for j in range(3):
        holders = set(srv[s] for s in range(2) if V[s][j] or U[s][j])
        if set(sm.get(j, set())) != holders:
            return "post-repair sharemap is not the union of the old good shares and the uploaded ones"
    # the pre-repair results object is not modified
    for j in range(3):
        if set(cr.get_sharemap().get(j, set())) != set(srv[s] for s in range(2) if V[s][j]):
            return "pre-repair sharemap was modified"
    return True


# ---- 6. the verifier's per-share gate ------------------------------------------------------------------

class _AdvBucket(object):
    """what an adversarial server returns through ReadBucketProxy"""

    def __init__(self, share_hashes, block_hashes, ct_hashes, blocks):
        self.share_hashes, self.block_hashes, self.ct_hashes, self.blocks = share_hashes, block_hashes, ct_hashes, blocks
        self.block_reads = []

    def get_share_hashes(self):
        return defer.succeed(list(self.share_hashes))

    def get_block_hashes(self, needed):
        return defer.succeed(list(self.block_hashes))

    def get_crypttext_hashes(self):
        return defer.succeed(list(self.ct_hashes))

    def get_block_data(self, blocknum, block_size, thisblocksize):
        self.block_reads.append(blocknum)
        return defer.succeed(self.blocks[blocknum])

    def __repr__(self):
        return "<adversarial bucket>"


VT = B.get("vtier", 1)
VMAX = M.kmax(VT)


class _VRBP(ValidatedReadBucketProxy):
    """ValidatedReadBucketProxy with __init__ minus its log-prefix formatting (base32 + bytes->str decoding of the root hash,
    which CrossHair turns into symbolic strings: >2000 paths instead of ~30).  The attribute assignments are checked against
    the real __init__ on concrete values at import time (below)."""

    def __init__(self, sharenum, bucket, share_hash_tree, num_blocks, block_size, share_size):
        if share_hash_tree[0] is None:
            raise AssertionError("precondition: share hash tree without root")
        self.sharenum = sharenum
        self.bucket = bucket
        self.share_hash_tree = share_hash_tree
        self.num_blocks = num_blocks
        self.block_size = block_size
        self.share_size = share_size
        self.block_hash_tree = hashtree.IncompleteHashTree(self.num_blocks)


def _vrbp_selfcheck():
    t = hashtree.IncompleteHashTree(2)
    t[0] = b"r" * 32
    real = ValidatedReadBucketProxy(1, "bucket", t, 3, 11, 29)
    mine = _VRBP(1, "bucket", t, 3, 11, 29)
    skip = ("_prefix", "_objid", "_classname", "_facility", "_grandparentmsgid", "_parentmsgid")
    a = dict((k, v) for k, v in vars(real).items() if k not in skip)
    b = dict((k, v) for k, v in vars(mine).items() if k not in skip)
    if sorted(a) != sorted(b):
        raise hlib.HarnessError("ValidatedReadBucketProxy.__init__ sets %r, stand-in sets %r" % (sorted(a), sorted(b)))
    for k in a:
        if k == "block_hash_tree":
            if list(a[k]) != list(b[k]) or type(a[k]) is not type(b[k]):
                raise hlib.HarnessError("block_hash_tree differs")
        elif a[k] is not b[k] and a[k] != b[k]:
            raise hlib.HarnessError("attribute %s differs between the real __init__ and the stand-in" % k)


_vrbp_selfcheck()
hlib.encoded(ValidatedReadBucketProxy.__init__)


def _vrbp(sharenum, bucket, share_hash_tree, num_blocks, block_size, share_size):
    return _VRBP(sharenum, bucket, share_hash_tree, num_blocks, block_size, share_size)


def _verify_sequence(vr, nb):
    """the call sequence of Checker._download_and_verify for one share"""
    d = vr.get_all_sharehashes()
    d.addCallback(lambda ign: vr.get_all_blockhashes())

    def _blocks(ign):
        dbs = defer.succeed(None)
        for blocknum in range(nb):
            dbs.addCallback(lambda ign, blocknum=blocknum: vr.get_block(blocknum))
        return dbs
    d.addCallback(_blocks)
    return _result(d)


def h_verify_share(sharenum: int, other: int, gb0: int, gb1: int, m: int, q0: int, v0: int, q1: int, v1: int,
                   a0: int, a1: int, a2: int, short: bool, b0: int, b1: int) -> bool:
    """
    pre: 0 <= sharenum <= 1 and 1 <= other < M.K0
    pre: all(0 <= x < CMAX for x in (gb0, gb1, b0, b1))
    pre: 0 <= m <= 2 and 0 <= q0 <= 3 and 0 <= q1 <= 3
    pre: B.get("m") is None or m == B["m"]
    pre: all(1 <= x < VMAX for x in (v0, v1, a0, a1, a2))
    post: _ == True
    """
    nb = B["nb"]
    sharenum = _real(sharenum, 0, 2)
    m = _real(m, 0, 3)
    GB = [gb0, gb1][:nb]
    gen_b = hashtree.HashTree([M.sym(1 + x, 0) for x in GB])
    leaves = [M.sym(other, 0), M.sym(other, 0)]
    leaves[sharenum] = gen_b[0]
    gen_s = hashtree.HashTree(leaves)
    sht = hashtree.IncompleteHashTree(2)
    sht.set_hashes({0: gen_s[0]})
    Q = [_real(q, 0, 4) for q in (q0, q1)[:m]]
    Vv = [v0, v1]
    share_hashes = [(Q[j], M.sym(Vv[j], VT)) for j in range(m)]
    Aa = [a0, a1, a2][:len(gen_b)]
    block_hashes = [M.sym(x, VT) for x in Aa]
    if short:
        block_hashes = block_hashes[:-1]
    Bb = [b0, b1][:nb]
    bucket = _AdvBucket(share_hashes, block_hashes, [], [CID(x) for x in Bb])
    vr = _vrbp(sharenum, bucket, sht, nb, 10, 10 * nb)
    (kind, res) = _verify_sequence(vr, nb)
    genuine_input = (not short and all(Aa[i] == gen_b[i].v for i in range(len(gen_b))) and all(Bb[i] == GB[i] for i in range(nb)))
    chain = {}
    for (q, tok) in share_hashes:
        chain[q] = tok
    genuine_chain = all(i in chain and chain[i].v == gen_s[i].v for i in (1, 2))
    if kind == "err":
        if not isinstance(res.value, BadOrMissingHash):
            return "verification failed with %s instead of BadOrMissingHash" % type(res.value).__name__
        if genuine_input and genuine_chain:
            return "a completely genuine share failed verification"
        return True
    # every block was returned => the share is reported as verified good
    if "block-root-not-linked" in EXCLUDED:
        assume(vr.share_hash_tree.get_leaf(sharenum) is not None and M.same(vr.block_hash_tree[0], vr.share_hash_tree.get_leaf(sharenum)))
    for i in range(nb):
        if not (Bb[i] == GB[i]):
            return "share reported good although block %d is not the genuine block" % i
    if not M.tree_genuine(gen_b, vr.block_hash_tree) or not M.tree_genuine(gen_s, vr.share_hash_tree):
        return "share reported good although a hash tree holds a non-genuine node"
    if bucket.block_reads != list(range(nb)):
        return "not every block was fetched"
    return True


CLASSIFY = {"h_verify_share": lambda *a: "block-root-not-linked"}


def h_verify_ct(n: int, s0: int, s1: int, s2: int, l0: int, l1: int, short: bool) -> bool:
    """
    pre: 1 <= n <= 2 and all(1 <= x < VMAX for x in (s0, s1, s2)) and 1 <= l0 <= CMAX and 1 <= l1 <= CMAX
    post: _ == True
    """
    n = _real(n, 1, 3)
    gen = hashtree.HashTree([M.sym(8 + x, 0) for x in [l0, l1][:n]])
    cht = hashtree.IncompleteHashTree(n)
    cht.set_hashes({0: gen[0]})
    S = [s0, s1, s2][:len(gen)]
    hashes = [M.sym(x, VT) for x in S]
    if short:
        hashes = hashes[:-1]
    sht = hashtree.IncompleteHashTree(2)
    sht[0] = M.sym(5, 0)
    vr = _vrbp(0, _AdvBucket([], [], hashes, []), sht, 1, 10, 10)
    (kind, res) = _result(vr.get_all_crypttext_hashes(cht))
    if kind == "err":
        if not isinstance(res.value, BadOrMissingHash):
            return "failed with %s instead of BadOrMissingHash" % type(res.value).__name__
        if not short and all(S[i] == gen[i].v for i in range(len(gen))):
            return "genuine ciphertext hash tree rejected"
        for i in range(1, len(cht)):
            if cht[i] is not None:
                return "rejected, but the tree changed"
        return True
    if short:
        return "accepted an incomplete ciphertext hash list"
    for i in range(len(gen)):
        if not (S[i] == gen[i].v) or cht[i] is None:
            return "accepted a ciphertext hash tree that differs from the genuine one"
    return True


# ---- 7. the composed per-share verdict of Checker._download_and_verify -----------------------------------

C_dav = hlib.strip_logs(Checker._download_and_verify)


class _FakeRBP(object):
    """stands for layout.ReadBucketProxy(bucket, server, storage_index): forwards to the adversarial bucket"""

    def __init__(self, bucket, server, si):
        self.b = bucket

    def get_uri_extension(self):
        return defer.succeed(self.b.ueb)

    def get_share_hashes(self):
        return self.b.get_share_hashes()

    def get_block_hashes(self, needed):
        return self.b.get_block_hashes(needed)

    def get_crypttext_hashes(self):
        return self.b.get_crypttext_hashes()

    def get_block_data(self, blocknum, block_size, thisblocksize):
        return self.b.get_block_data(blocknum, block_size, thisblocksize)

    def __repr__(self):
        return "<rbp>"


def h_download_verify(sharenum: int, other: int, gu: int, u: int, gb: int, b: int, gc: int,
                      m: int, q0: int, v0: int, q1: int, v1: int, a0: int, c0: int) -> bool:
    """
    pre: 0 <= sharenum <= 1 and 1 <= other < M.K0
    pre: 0 <= gu < CMAX and 0 <= u < CMAX and 0 <= gb < CMAX and 0 <= b < CMAX and 1 <= gc <= CMAX
    pre: 0 <= m <= 2 and 0 <= q0 <= 3 and 0 <= q1 <= 3
    pre: 1 <= v0 < VMAX and 1 <= v1 < VMAX and 1 <= a0 < VMAX and 1 <= c0 < VMAX
    pre: B.get("m") is None or m == B["m"]
    post: _ == True
    """
    sharenum = _real(sharenum, 0, 2)
    m = _real(m, 0, 3)
    # genuine file: 1 segment, k=1, N=2; block tree and ciphertext tree have a single node
    gen_b = hashtree.HashTree([M.sym(1 + gb, 0)])
    leaves = [M.sym(other, 0), M.sym(other, 0)]
    leaves[sharenum] = gen_b[0]
    gen_s = hashtree.HashTree(leaves)
    ct_root = M.sym(8 + gc, 0)
    cap = _Cap(1, 2, size=10)
    cap.uri_extension_hash = M.sym(17 + gu, 0)
    ueb_fields = {"segment_size": 10, "crypttext_root_hash": ct_root, "share_root_hash": gen_s[0], "size": 10, "num_segments": 1,
                  "needed_shares": 1, "total_shares": 2}
    Q = [_real(q, 0, 4) for q in (q0, q1)[:m]]
    Vv = [v0, v1]
    bucket = _AdvBucket([(Q[j], M.sym(Vv[j], VT)) for j in range(m)], [M.sym(a0, VT)], [M.sym(c0, VT)], [CID(b)])
    bucket.ueb = CID(u, 100)
    ck = NS(_verifycap=cap)
    saved = (checker.uri, checker.layout)
    saved_vrbp = checker.ValidatedReadBucketProxy
    checker.ValidatedReadBucketProxy = _VRBP
    checker.uri = NS(unpack_extension=lambda data: dict(ueb_fields))
    checker.layout = NS(ReadBucketProxy=_FakeRBP, ShareVersionIncompatible=saved[1].ShareVersionIncompatible,
                        LayoutInvalid=saved[1].LayoutInvalid, RidiculouslyLargeURIExtensionBlock=saved[1].RidiculouslyLargeURIExtensionBlock)
    try:
        (kind, res) = _result(C_dav(ck, "server", sharenum, bucket))
    finally:
        checker.uri, checker.layout = saved
        checker.ValidatedReadBucketProxy = saved_vrbp
    if kind == "err":
        return "adversarial share data made the check itself fail with %s" % type(res.value).__name__
    (ok, shn, why) = res
    if shn != sharenum:
        return "verdict names the wrong share"
    if ok:
        if why is not None:
            return "good verdict with a reason"
        if not (u == gu):
            return "share reported good although its UEB is not the one named by the cap"
        if not (b == gb):
            return "share reported good although its block is not the genuine block"
        if not (a0 == gen_b[0].v) or not (c0 == ct_root.v):
            return "share reported good although a stored hash tree differs from the genuine one"
        return True
    if why != "corrupt":
        return "bad share classified as %r" % (why,)
    chain = {}
    for j in range(m):
        chain[Q[j]] = Vv[j]
    if (u == gu and b == gb and a0 == gen_b[0].v and c0 == ct_root.v and m == 2
            and 1 in chain and 2 in chain and chain[1] == gen_s[1].v and chain[2] == gen_s[2].v):
        return "a completely genuine share was reported corrupt"
    return True


# ---- 8. every block of the share is fetched and validated before the share is reported good ---------------

class _RecVEUP(object):
    """stands for ValidatedExtendedURIProxy in Checker._download_and_verify: an already validated UEB with n segments"""
    n = 1

    def __init__(self, rbp, vcap, fetch_failures=None):
        self.num_segments = _RecVEUP.n
        self.block_size = 10
        self.share_size = 10 * _RecVEUP.n
        self.share_root_hash = M.sym(5, 0)
        self.crypttext_root_hash = M.sym(6, 0)

    def start(self):
        return defer.succeed(self)


class _RecVRBP(object):
    """stands for ValidatedReadBucketProxy: records the calls; get_block(fail_at) fails like a bad block does"""
    log = []
    fail_at = -1

    def __init__(self, sharenum, bucket, share_hash_tree, num_blocks, block_size, share_size):
        _RecVRBP.log.append(("init", sharenum, num_blocks, block_size, share_size))

    def get_all_sharehashes(self):
        _RecVRBP.log.append(("sharehashes",))
        return defer.succeed(None)

    def get_all_blockhashes(self):
        _RecVRBP.log.append(("blockhashes",))
        return defer.succeed(None)

    def get_all_crypttext_hashes(self, cht):
        _RecVRBP.log.append(("cthashes", len(cht)))
        return defer.succeed(None)

    pending = []

    def get_block(self, blocknum):
        # a real server answers later: the Deferred is fired by the harness after the caller has finished building its chain
        _RecVRBP.log.append(("block", blocknum))
        d = defer.Deferred()
        _RecVRBP.pending.append((d, blocknum))
        return d


def h_all_blocks(n: int, fail_at: int, sharenum: int) -> bool:
    """
    pre: 1 <= n <= B["n_max"] and -1 <= fail_at < n and 0 <= sharenum <= 1
    post: _ == True
    """
    n = _real(n, 1, B["n_max"] + 1)
    fail_at = _real(fail_at, -1, n)
    sharenum = _real(sharenum, 0, 2)
    _RecVEUP.n = n
    _RecVRBP.log = []
    _RecVRBP.pending = []
    _RecVRBP.fail_at = fail_at
    cap = _Cap(1, 2, size=10 * n)
    ck = NS(_verifycap=cap)
    saved = (checker.layout, checker.ValidatedExtendedURIProxy, checker.ValidatedReadBucketProxy)
    checker.layout = NS(ReadBucketProxy=_FakeRBP, ShareVersionIncompatible=saved[0].ShareVersionIncompatible,
                        LayoutInvalid=saved[0].LayoutInvalid, RidiculouslyLargeURIExtensionBlock=saved[0].RidiculouslyLargeURIExtensionBlock)
    checker.ValidatedExtendedURIProxy = _RecVEUP
    checker.ValidatedReadBucketProxy = _RecVRBP
    try:
        d = C_dav(ck, "server", sharenum, "bucket")
        steps = 0
        while _RecVRBP.pending:
            (pd, bn) = _RecVRBP.pending.pop(0)
            if bn == fail_at:
                pd.errback(Failure(BadOrMissingHash("bad block")))
            else:
                pd.callback(b"blockdata")
            steps += 1
            if steps > 20:
                raise hlib.HarnessError("block fetch loop does not end")
        (kind, res) = _result(d)
    finally:
        (checker.layout, checker.ValidatedExtendedURIProxy, checker.ValidatedReadBucketProxy) = saved
    if kind == "err":
        return "check failed with %s" % type(res.value).__name__
    log = _RecVRBP.log
    if log[:4] != [("init", sharenum, n, 10, 10 * n), ("sharehashes",), ("blockhashes",), ("cthashes", 2 * M.pow2_at_least(n) - 1)]:
        return "share/block/ciphertext hash trees not validated first, in order, with the UEB's parameters"
    fetched = [e[1] for e in log[4:] if e[0] == "block"]
    if len(fetched) != len(log) - 4:
        return "unexpected calls"
    (ok, shn, why) = res
    if shn != sharenum:
        return "verdict names the wrong share"
    if ok:
        if fetched != list(range(n)):
            return "share reported good although the fetched+validated blocks were %r, not 0..%d" % (fetched, n - 1)
        if fail_at != -1:
            return "share reported good although a block failed validation"
        return True
    if why != "corrupt" or fail_at == -1:
        return "share with only good blocks not reported good (%r)" % (why,)
    if fetched != list(range(fail_at + 1)):
        return "blocks fetched before the failure were %r, expected 0..%d" % (fetched, fail_at)
    return True


# ---- 9. the repairer re-encodes with the file's own parameters ----------------------------------------------

from allmydata.immutable import repairer as repairer_mod
R_start = hlib.strip_logs(repairer_mod.Repairer.start)
hlib.encoded(repairer_mod.Repairer.get_size, repairer_mod.Repairer.get_all_encoding_parameters, repairer_mod.Repairer.read_encrypted)


def h_repairer_params(size: int, k: int, n: int, segsize: int, l1: int, l2: int) -> bool:
    """
    pre: 1 <= k <= n <= 256 and 1 <= size and 1 <= segsize and 1 <= l1 and 1 <= l2
    post: _ == True
    """
    reads = []

    def read(consumer, offset, length):
        reads.append((offset, length))
        consumer.chunks = ["chunk%d" % len(reads)]
        return defer.succeed(consumer)
    asked = []

    def get_segment_size():
        asked.append(1)
        return defer.succeed(segsize)
    fn = NS(get_segment_size=get_segment_size, get_verify_cap=lambda: NS(needed_shares=k, total_shares=n, size=size,
                                                                                 storage_index=b"si", uri_extension_hash=b"u" * 32),
            get_size=lambda: size, read=read, get_storage_index=lambda: b"si")
    rp = repairer_mod.Repairer.__new__(repairer_mod.Repairer)
    rp._filenode, rp._storage_broker, rp._secret_holder, rp._monitor, rp._offset = fn, "sb", "sh", None, 0
    seen = {}

    class FakeUploader(object):
        def __init__(self, storage_broker, secret_holder):
            seen["ctor"] = (storage_broker, secret_holder)

        def start(self, uploadable):
            seen["uploadable"] = uploadable
            seen["params"] = _result(uploadable.get_all_encoding_parameters())[1]
            seen["size"] = _result(uploadable.get_size())[1]
            seen["r1"] = _result(uploadable.read_encrypted(l1, False))[1]
            seen["r2"] = _result(uploadable.read_encrypted(l2, False))[1]
            return defer.succeed("upload-results")
    saved = repairer_mod.upload
    repairer_mod.upload = NS(CHKUploader=FakeUploader)
    try:
        (kind, res) = _result(R_start(rp))
    finally:
        repairer_mod.upload = saved
    if kind != "ok" or res != "upload-results":
        return "repair did not run the upload"
    if seen.get("uploadable") is not rp or seen["ctor"] != ("sb", "sh"):
        return "uploader not started on the repairer"
    (pk, phappy, pn, pseg) = seen["params"]
    if not (pk == k and pn == n):
        return "k/N handed to the encoder are not the verify cap's"
    if not (pseg == segsize) or len(asked) != 1:
        return "segment size handed to the encoder is not the file's own segment size (from its validated UEB)"
    if not (seen["size"] == size):
        return "size handed to the encoder is not the file's size"
    if len(reads) != 2 or not (reads[0][0] == 0 and reads[0][1] == l1 and reads[1][0] == l1 and reads[1][1] == l2):
        return "ciphertext is not read sequentially from offset 0"
    if seen["r1"] != ["chunk1"] or seen["r2"] != ["chunk2"]:
        return "read_encrypted does not return the chunks it read"
    return True


# ---- 10. repair: what the uploader reports as placed is what the post-repair results count --------------------

U_done = hlib.strip_logs(upload.CHKUploader._encrypted_done)
upload.time = NS(time=lambda: 0.0)


def h_repair_chain(k: int, g0: bool, g1: bool, g2: bool, al0: bool, al1: bool, al2: bool, pl0: bool, pl1: bool, pl2: bool) -> bool:
    """
    pre: 1 <= k <= 3
    post: _ == True
    """
    k = _real(k, 1, 4)
    N = 3
    G, AL, PL = [g0, g1, g2], [al0, al1, al2], [pl0, pl1, pl2]
    for j in range(N):
        assume(not PL[j] or AL[j])          # a share can only be placed through a bucket that was allocated
    good = set(j for j in range(N) if G[j])
    assume(len(good) >= k)                  # repair runs on recoverable files
    old, new = _Srv("old"), _Srv("new")
    cap = _Cap(k, N)
    pre_sm = DictOfSets()
    for j in good:
        pre_sm.add(j, old)
    cr = CheckResults(cap, b"si", healthy=(len(good) == N), recoverable=True, count_happiness=0, count_shares_needed=k,
                      count_shares_expected=N, count_shares_good=len(good), count_good_share_hosts=1, count_recoverable_versions=1,
                      count_unrecoverable_versions=0, servers_responding=[old], sharemap=pre_sm, count_wrong_shares=0,
                      list_corrupt_shares=[], count_corrupt_shares=0, list_incompatible_shares=[], count_incompatible_shares=0,
                      summary="", report=[], share_problems=[], servermap=None)
    # the repair upload: buckets allocated on the new server for AL, writers completed for PL (a writer that fails during the
    # push is dropped by the encoder and is not in get_shares_placed())
    placed = set(j for j in range(N) if PL[j])
    enc = NS(get_shares_placed=lambda: set(placed), file_size=100, get_times=lambda: {}, get_uri_extension_data=lambda: {},
             get_uri_extension_hash=lambda: b"h" * 32)
    trackers = dict((j, NS(get_server=lambda: new)) for j in range(N) if AL[j])
    status = NS(results=[])
    status.set_results = lambda ur: status.results.append(ur)
    up = NS(_encoder=enc, _server_trackers=trackers, _started=0.0, _storage_index_elapsed=0.0, _server_selection_elapsed=0.0,
            _count_preexisting_shares=0, _upload_status=status)
    ur = U_done(up, NS(to_string=lambda: b"URI:CHK-Verifier:x"))
    if status.results != [ur]:
        return "upload results not recorded"
    crr = CheckAndRepairResults(b"si")
    out = F_gather(NS(_verifycap=cap), ur, cr, crr)
    post = out.post_repair_results
    really = good | placed
    sm = post.get_sharemap()
    for j in range(N):
        holders = set()
        if j in good:
            holders.add(old)
        if j in placed:
            holders.add(new)
        if set(sm.get(j, set())) != holders:
            return "post-repair sharemap lists share %d on %r, but it is stored on %r" % (j, sorted(map(repr, sm.get(j, set()))), sorted(map(repr, holders)))
    if post.is_healthy() != (len(really) == N) or out.repair_successful != (len(really) == N):
        return "repair reported healthy/successful although the shares actually written + the old good ones are not N distinct shares"
    if post.is_recoverable() != (len(really) >= k) or post.get_share_counter_good() != len(really):
        return "post-repair counts wrong"
    if ur.get_pushed_shares() != len(placed):
        return "pushed_shares is not the number of completed writers"
    return True
