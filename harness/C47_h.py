"""
C47 -- a successful mutable publish is recoverable.

Real code executed on a Publish made with __new__: push_everything_else (its four hash/key pushers are
no-ops on the instance), finish_publishing, _connection_problem, _got_write_answer, _push, _done,
_failure, _record_verinfo.  The writers are harness objects whose finish_publishing() returns an
UNFIRED Deferred; the schedule (symbolic) fires them in any order with a symbolic outcome each:
    0 wrote                       (True,  {shnum: [my checkstring]})
    1 test vector failed          (False, {shnum: [other checkstring]})
    2 connection problem          errback
    3 wrote + unknown share #9 on that server holding MY version
    4 wrote + unknown share #9 on that server holding ANOTHER version
    5 wrote + share number (shnum+1)%3 on that server holding ANOTHER version
"""
import struct
from vlib import hlib
from vlib.hlib import NS, assume
hlib.ensure_shims()
from twisted.internet import defer
from twisted.python import failure
import _mutmap as mm
from allmydata.mutable import publish as pub_mod, servermap as sm_mod
from allmydata.mutable.common import UncoordinatedWriteError, NotEnoughServersError
from allmydata.mutable.layout import PREFIX, SDMF_VERSION
from allmydata.util.dictutil import DictOfSets

B = hlib.bounds()
NOTES = [
    "writers are harness objects (shnum, server, finish_publishing -> harness-owned Deferred, get_verinfo/get_checkstring tokens)",
    "foolscap `eventually` in allmydata.mutable.publish replaced by a harness-owned FIFO queue drained at the end",
    "allmydata.mutable.publish.time -> constant clock; rsa.der_string_from_verifying_key -> constant; PublishStatus -> no-op object",
    "push_encprivkey/push_blockhashes/push_sharehashes/push_toplevel_hashes_and_signature replaced by no-ops on the instance",
]
_Q = []
pub_mod.eventually = lambda f, *a, **kw: _Q.append((f, a, kw))
pub_mod.time = NS(time=lambda: 1000.0)
pub_mod.rsa = NS(der_string_from_verifying_key=lambda k: b"verification-key")

P = pub_mod.Publish
for _name in ("push_everything_else", "finish_publishing", "_connection_problem", "_got_write_answer", "_push", "_done", "_failure"):
    hlib.strip_method(P, _name)
hlib.encoded(P._record_verinfo, P._update_status, P._get_some_writer, DictOfSets.discard, DictOfSets.add)

MINE = struct.pack(PREFIX, 0, 5, b"R" * 32, b"I" * 16)
OTHER = struct.pack(PREFIX, 0, 6, b"X" * 32, b"J" * 16)
VERINFO = (5, b"R" * 32, b"I" * 16, 12, 10, 2, 3, b"prefix", ())

LAYOUTS = {
    "spread": [(0, 0), (1, 1), (2, 2)],            # (server index, shnum): one share per server
    "stacked": [(0, 0), (0, 1), (1, 2)],           # server 0 is sent two shares
    "doubled": [(0, 0), (1, 0), (2, 1)],           # share 0 goes to two servers
    "four": [(0, 0), (1, 1), (2, 2), (0, 3)],
}


class _NullStatus(object):
    def __init__(self):
        self.timings = {}

    def __getattr__(self, name):
        return lambda *a, **kw: None


class Writer(object):
    def __init__(self, shnum, server):
        self.shnum, self.server = shnum, server
        self.d = None
        self.vk = 0

    def put_verification_key(self, vk):
        self.vk += 1

    def finish_publishing(self):
        if self.d is not None:
            raise hlib.HarnessError("finish_publishing called twice on one writer")
        self.d = defer.Deferred()
        return self.d

    def get_verinfo(self):
        return VERINFO

    def get_checkstring(self):
        return MINE


def _pick(choices, t, nleft):
    c = choices[t]
    for idx in range(nleft - 1):
        if c == idx:
            return idx
    return nleft - 1


def h_publish_outcome(k: int, o0: int, o1: int, o2: int, o3: int, c0: int, c1: int, c2: int) -> bool:
    """
    pre: 1 <= k <= 4
    post: _ == True
    """
    layout = LAYOUTS[B["layout"]]
    W = len(layout)
    outs = []
    for o in [o0, o1, o2, o3][:W]:
        outs.append(mm.pin_in(o, B["outcomes"]))
    del _Q[:]
    servers = [mm.Srv("s%d" % i) for i in range(3)]
    sm = sm_mod.ServerMap()
    if B.get("asked", True):      # whether the survey had asked these servers (both branches end in 'surprised')
        for s in servers:
            sm.mark_server_reachable(s)
    node = NS(hints=[])
    node.set_downloader_hints = lambda h: node.hints.append(h)
    pub = P.__new__(P)
    pub._node = node
    pub._servermap = sm
    pub._status = _NullStatus()
    pub._log_number = 0
    pub.log = lambda *a, **kw: 0
    pub._running = True
    pub._started = 999.0
    pub._last_failure = None
    pub._first_write_error = None
    pub.required_shares = k
    pub.total_shares = 3
    pub.segment_size = 12
    pub.surprised = False
    pub.num_outstanding = 0
    pub.placed = set()
    pub.bad_servers = set()
    pub.versioninfo = ""
    pub._checkstring = MINE
    pub._pubkey = "pubkey"
    pub._state = pub_mod.PUSHING_EVERYTHING_ELSE_STATE
    pub.done_deferred = defer.Deferred()
    pub.goal = set()
    pub.writers = DictOfSets()
    writers = []
    for (si, sh) in layout:
        w = Writer(sh, servers[si])
        writers.append(w)
        pub.writers.add(sh, w)
        pub.goal.add((servers[si], sh))
    for name in ("push_encprivkey", "push_blockhashes", "push_sharehashes", "push_toplevel_hashes_and_signature"):
        setattr(pub, name, lambda: None)
    result = []
    pub.done_deferred.addBoth(result.append)

    pub._push()                     # state PUSHING_EVERYTHING_ELSE -> push_everything_else -> finish_publishing
    if len(pub.writers) >= k:
        for w in writers:
            if w.d is None or w.vk != 1:
                return "a writer was not asked to finish publishing"
        if result or _Q:
            return "publish finished before any server answered"
    # fire the answers in a symbolic order
    left = list(range(W))
    t = 0
    choices = [c0, c1, c2]
    conn_failed = [False] * W
    while left and writers[left[0]].d is not None:
        idx = _pick(choices, t, len(left)) if len(left) > 1 else 0
        t += 1
        i = left.pop(idx)
        w, o = writers[i], outs[i]
        if o == 2:
            conn_failed[i] = True
            w.d.errback(failure.Failure(ConnectionError("lost")))
        elif o == 1:
            w.d.callback((False, {w.shnum: [OTHER]}))
        else:
            rd = {w.shnum: [MINE]}
            if o == 3:
                rd[9] = [MINE]
            elif o == 4:
                rd[9] = [OTHER]
            elif o == 5:
                rd[(w.shnum + 1) % 3] = [OTHER]
            w.d.callback((True, rd))
    turns = 0
    while _Q:
        (f, a, kw) = _Q.pop(0)
        f(*a, **kw)
        turns += 1
        if turns > 10:
            raise hlib.HarnessError("eventual queue does not drain")
    if len(result) != 1:
        return "publish Deferred fired %d times" % len(result)
    res = result[0]
    success = not isinstance(res, failure.Failure)
    if writers[0].d is None:
        # nothing was sent: legitimate only when there are not even k share numbers to write
        if len(set(sh for (si, sh) in layout)) >= k:
            return "publish gave up without asking the servers although k share numbers have writers"
        if success or not res.check(NotEnoughServersError):
            return "fewer than k writers but the publish did not fail with NotEnoughServersError"
        for w in writers:
            if w.d is not None:
                return "some writers asked, some not"
        return True
    # ---- independent model of what the servers acknowledged ------------------------------------
    acked = set()                  # (server index, shnum) stored with the new version
    testv_failed = False
    foreign_version_seen = False   # a share of another version on a server, at a number we are not writing there at all
    foreign_maybe = False          # ... at a number we are also writing on that server (our own test vector covers it)
    for i in range(W):
        (si, sh) = layout[i]
        o = outs[i]
        if o in (0, 3, 4, 5):
            acked.add((si, sh))
        if o == 1:
            testv_failed = True
        if o == 4:
            foreign_version_seen = True
        if o == 5:
            other = (sh + 1) % 3
            if (si, other) in layout:
                foreign_maybe = True
            else:
                foreign_version_seen = True
    acked_shnums = set(sh for (si, sh) in acked)
    if success:
        if res is not None:
            return "success value is not None"
        if len(acked_shnums) < k:
            return "publish reported success with fewer than k distinct share numbers acknowledged"
        if testv_failed or foreign_version_seen:
            return "publish reported success although an unexpected version was encountered"
        placed = set((servers[si], sh) for (si, sh) in acked)
        if pub.placed != placed:
            return "placed is not the set of acknowledged (server, share) pairs"
        if len(set(sh for (srv, sh) in pub.placed)) < k:
            return "placed holds fewer than k distinct share numbers"
        for (si, sh) in acked:
            if sm.version_on_server(servers[si], sh) != VERINFO:
                return "servermap not updated with an acknowledged share"
        if pub.surprised:
            return "success while surprised"
        if node.hints != [{"segsize": 12, "k": k}]:
            return "downloader hints not recorded"
    else:
        if testv_failed or foreign_version_seen:
            if not res.check(UncoordinatedWriteError):
                return "an unexpected version was encountered but the error is not UncoordinatedWriteError"
        elif foreign_maybe:
            if not (res.check(UncoordinatedWriteError) or res.check(NotEnoughServersError)):
                return "unexpected failure type"
        else:
            if not res.check(NotEnoughServersError):
                return "ran out of servers but the error is not NotEnoughServersError"
            # live share numbers = those with at least one writer that had no connection problem
            live = set(layout[i][1] for i in range(W) if not conn_failed[i])
            if len(live) >= k:
                return "publish failed although k distinct share numbers were acknowledged and nothing unexpected was seen"
    if pub._running and success:
        return "_done did not mark the publish finished"
    return True
