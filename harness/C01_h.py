"""
C01 — immutable upload/download round trip: the size/offset arithmetic chain.
"""
import types
from vlib import hlib
from vlib.hlib import ProvBuf, FakeStruct, assume
hlib.ensure_shims()
from twisted.internet import defer
from allmydata import codec as codec_mod
from allmydata.immutable import upload, encode, layout
from allmydata.immutable.downloader import node as node_mod, share as share_mod
from allmydata.util import mathutil

B = hlib.bounds()
NOTES = [
    "zfec.Encoder/zfec.Decoder constructors replaced by recorders (compiled extension; k,N stay symbolic)",
    "CRSEncoder.get_serialized_params replaced by a token (data formatting, irrelevant to sizes)",
    "IncompleteHashTree in downloader.node replaced by a recorder of its leaf count",
    "uri.unpack_extension replaced by identity on the encoder's UEB dict (UEB codec is C38)",
]


class _FakeZfec(object):
    class Encoder(object):
        def __init__(self, k, n):
            self.k, self.n = k, n

    class Decoder(object):
        def __init__(self, k, n):
            self.k, self.n = k, n


codec_mod.zfec = _FakeZfec
codec_mod.CRSEncoder.get_serialized_params = lambda self: ("params", self.data_size, self.required_shares, self.max_shares)

_got_all = hlib.strip_logs(encode.Encoder._got_all_encoding_parameters)
_parse_ueb = hlib.strip_logs(node_mod.DownloadNode._parse_and_store_UEB)
hlib.encoded(upload.BaseUploadable.get_all_encoding_parameters, codec_mod.CRSEncoder.set_params,
             codec_mod.CRSDecoder.set_params, node_mod.DownloadNode._calculate_sizes,
             node_mod.DownloadNode._build_guessed_tables, mathutil.div_ceil, mathutil.next_multiple)


class _HT(object):
    def __init__(self, n):
        self.n = n
        self.set = []

    def set_hashes(self, hashes=None, leaves=None):
        self.set.append((hashes, leaves))


class _Obs(object):
    def __init__(self):
        self.fired = []

    def fire(self, v):
        self.fired.append(v)


def _result(d):
    out = []
    d.addCallbacks(lambda r: out.append(("ok", r)), lambda f: out.append(("err", f)))
    if not out:
        raise hlib.HarnessError("Deferred did not fire synchronously")
    if out[0][0] == "err":
        out[0][1].raiseException()
    return out[0][1]


def _encoder_for(size, maxseg, k, n, happy=1):
    up = hlib.NS(default_params_set=True, _all_encoding_parameters=None,
                               max_segment_size=maxseg, default_max_segment_size=maxseg,
                               encoding_param_k=k, default_encoding_param_k=k,
                               encoding_param_happy=happy, default_encoding_param_happy=happy,
                               encoding_param_n=n, default_encoding_param_n=n,
                               get_size=lambda: defer.succeed(size))
    params = _result(upload.BaseUploadable.get_all_encoding_parameters(up))
    enc = encode.Encoder.__new__(encode.Encoder)
    enc._codec = None
    enc._log_number = 0
    enc.file_size = size
    enc.uri_extension_data = {}
    _got_all(enc, params)
    return params, enc


def _node_for(size, k, n, ueb, default_maxseg):
    saved_ht, saved_unpack = node_mod.IncompleteHashTree, node_mod.uri.unpack_extension
    nd = node_mod.DownloadNode.__new__(node_mod.DownloadNode)
    nd._verifycap = hlib.NS(size=size, needed_shares=k, total_shares=n, to_string=lambda: b"cap")
    nd._lp = 0
    nd._segsize_observers = _Obs()
    nd.share_hash_tree = _HT(n)
    node_mod.IncompleteHashTree = _HT
    node_mod.uri.unpack_extension = lambda u: u
    try:
        nd._build_guessed_tables(default_maxseg)
        _parse_ueb(nd, ueb)
    finally:
        node_mod.IncompleteHashTree, node_mod.uri.unpack_extension = saved_ht, saved_unpack
    return nd


def h_param_agreement(size: int, maxseg: int, k: int, n: int) -> bool:
    """
    pre: 1 <= k <= n <= B["n_max"] and (B.get("k") is None or k == B["k"])
    pre: 1 <= size <= B["size_max"] and 1 <= maxseg <= B["seg_max"]
    post: _ == True
    """
    params, enc = _encoder_for(size, maxseg, k, n)
    (pk, phappy, pn, segsize) = params
    if (pk, pn) != (k, n):
        return "k/n not propagated"
    # segment size rule: least multiple of k that is >= min(maxseg, size)
    m = size if size < maxseg else maxseg
    if segsize % k != 0 or segsize < m or segsize - k >= m:
        return "segment size is not next_multiple(min(max_segment_size, size), k)"
    ueb = dict(enc.uri_extension_data)
    ueb["crypttext_root_hash"] = b"c"
    ueb["share_root_hash"] = b"s"
    if ueb["size"] != size or ueb["segment_size"] != segsize or ueb["needed_shares"] != k or ueb["total_shares"] != n:
        return "UEB fields differ from the encoding parameters"
    nd = _node_for(size, k, n, ueb, maxseg)
    ns = enc.num_segments
    if ns < 1 or (ns - 1) * segsize >= size or ns * segsize < size:
        return "encoder num_segments is not ceil(size/segsize)"
    if ueb["num_segments"] != ns or nd.num_segments != ns:
        return "num_segments disagree between encoder, UEB and downloader"
    if nd.segment_size != segsize:
        return "segment size disagree"
    if enc._codec.get_block_size() != nd.block_size:
        return "main block size: encoder != downloader"
    if enc._tail_codec.get_block_size() != nd.tail_block_size:
        return "tail block size: encoder != downloader"
    if nd.block_size * k != segsize:
        return "k blocks do not tile a segment"
    tail = nd.tail_segment_size
    if (ns - 1) * segsize + tail != size or not (1 <= tail <= segsize):
        return "segments do not tile the file"
    tp = nd.tail_segment_padded
    if tp % k != 0 or tp < tail or tp - k >= tail or nd.tail_block_size * k != tp:
        return "tail padding is not the least multiple of k"
    if enc._tail_codec.data_size != tp:
        return "encoder tail codec size != downloader padded tail"
    if nd._codec.share_size != nd.block_size or nd._codec.required_shares != k or nd._codec.max_shares != n:
        return "decoder share size != block size"
    # tail decoder as built by _decode_blocks
    td = codec_mod.CRSDecoder()
    td.set_params(nd.tail_segment_padded, k, n)
    if td.share_size != nd.tail_block_size:
        return "tail decoder share size != tail block size"
    # share_size (total block data per share) consistent with per-segment blocks
    if enc.share_size != (ns - 1) * nd.block_size + nd.tail_block_size:
        return "share_size != sum of block sizes"
    # downloader's guess is exact when it guesses with the uploader's max segment size
    if nd.guessed_segment_size != segsize or nd.guessed_num_segments != ns:
        return "guess with the same max_segment_size is wrong"
    if nd.ciphertext_hash_tree.n != ns or nd._segsize_observers.fired != [segsize]:
        return "ciphertext hash tree size / segsize observers"
    return True


# ---- gathering and padding (Encoder._gather_data) -----------------------------

_gather = hlib.strip_logs(encode.Encoder._gather_data, consts=hlib.PROV_CONSTS)


class _Hasher(object):
    def __init__(self):
        self.fed = []

    def update(self, data):
        self.fed.append(data)


def h_gather(num_chunks: int, chunk: int, got: int, split: int, allow_short: bool, p: int) -> bool:
    """
    pre: 1 <= num_chunks <= B["k_max"] and 1 <= chunk
    pre: 0 <= got <= num_chunks * chunk and 0 <= split <= got
    pre: allow_short or got == num_chunks * chunk
    pre: 0 <= p < num_chunks * chunk
    post: _ == True
    """
    read_size = num_chunks * chunk
    asked = []

    def read_encrypted(size, hash_only):
        asked.append((size, hash_only))
        # the uploadable returns a list of pieces (two here, split at a symbolic point)
        return defer.succeed([ProvBuf.src("ct", split, 0), ProvBuf.src("ct", got - split, split)])
    enc = hlib.NS(_aborted=False, _uploadable=hlib.NS(read_encrypted=read_encrypted),
                                _crypttext_hasher=_Hasher())
    seg_hasher = _Hasher()
    pieces = _result(_gather(enc, num_chunks, chunk, seg_hasher, allow_short))
    if asked != [(read_size, False)]:
        return "did not read exactly one segment's worth"
    if len(pieces) != num_chunks:
        return "wrong number of pieces"
    total = 0
    for pc in pieces:
        if len(pc) != chunk:
            return "piece has wrong size"
        total = total + len(pc)
    # byte p of the concatenation
    idx = p // chunk
    src = pieces[idx].at(p - idx * chunk)
    if p < got:
        if src != ("ct", p):
            return "piece data is not the ciphertext in order"
    else:
        if src != (ProvBuf.ZERO, 0):
            return "padding is not zero bytes"
    # hashers see exactly the unpadded data
    for h in (seg_hasher, enc._crypttext_hasher):
        if len(h.fed) != 1 or len(h.fed[0]) != got:
            return "hasher fed wrong amount"
        if p < got and h.fed[0].at(p) != ("ct", p):
            return "hasher fed wrong bytes"
    return True


# ---- decode trimming and ciphertext offset -------------------------------------

_decode_blocks = hlib.strip_logs(node_mod.DownloadNode._decode_blocks, consts=hlib.PROV_CONSTS)
_check_ct = hlib.strip_logs(node_mod.DownloadNode._check_ciphertext_hash)


class _DS(object):
    def add_misc_event(self, *a):
        pass


class _FakeDecoder(object):
    """ideal erasure decoder: given any k blocks of the right size it returns the k primary blocks."""
    made = []

    def set_params(self, data_size, k, n):
        self.data_size, self.k, self.n = data_size, k, n
        _FakeDecoder.made.append(self)

    def decode(self, shares, shareids):
        self.got = (shares, shareids)
        # the k primary blocks, in order, concatenate to the (padded) segment; handed back as one
        # provenance run (the real code joins the buffers before using them)
        return defer.succeed([ProvBuf.src("seg", self.data_size, 0)])


def h_decode_trim(size: int, segsize: int, k: int, segnum: int, p: int) -> bool:
    """
    pre: k == B["k"] and 1 <= size <= B["size_max"] and k <= segsize <= B["seg_max"] and segsize % k == 0
    pre: 0 <= segnum and 0 <= p
    post: _ == True
    """
    nd = node_mod.DownloadNode.__new__(node_mod.DownloadNode)
    nd._verifycap = hlib.NS(size=size, needed_shares=k, total_shares=k)
    r = nd._calculate_sizes(segsize)
    assume(segnum < r["num_segments"])
    nd.num_segments = r["num_segments"]
    nd.segment_size = segsize
    nd.block_size = r["block_size"]
    nd.tail_block_size = r["tail_block_size"]
    nd.tail_segment_size = r["tail_segment_size"]
    nd.tail_segment_padded = r["tail_segment_padded"]
    nd._download_status = _DS()
    nd._lp = 0
    tail = segnum == nd.num_segments - 1
    bs = nd.tail_block_size if tail else nd.block_size
    main = _FakeDecoder()
    main.set_params(segsize, k, k)
    nd._codec = main
    _FakeDecoder.made = []
    saved = node_mod.CRSDecoder
    node_mod.CRSDecoder = _FakeDecoder
    try:
        blocks = dict((i, ProvBuf.src("blk%d" % i, bs, 0)) for i in range(k))
        (segment, _t) = _result(_decode_blocks(nd, segnum, blocks))
    finally:
        node_mod.CRSDecoder = saved
    used = _FakeDecoder.made[0] if tail else main
    if tail and (len(_FakeDecoder.made) != 1 or used.data_size != nd.tail_segment_padded):
        return "tail decoder not built for the padded tail size"
    want_len = size - segnum * segsize if tail else segsize
    if len(segment) != want_len:
        return "delivered segment length wrong"
    if p < want_len and segment.at(p) != ("seg", p):
        return "segment byte wrong"
    return True


def h_ct_offset(segsize: int, segnum: int, seglen: int) -> bool:
    """
    pre: 1 <= segsize and 0 <= segnum <= B["segnum_max"] and 0 <= seglen
    post: _ == True
    """
    nd = node_mod.DownloadNode.__new__(node_mod.DownloadNode)
    nd.segment_size = segsize
    nd._download_status = _DS()
    nd._lp = 0
    nd._si_prefix = "si"

    class _CT(object):
        def set_hashes(self, leaves=None, hashes=None):
            self.leaves = leaves
    nd.ciphertext_hash_tree = _CT()
    nd._active_segment = hlib.NS(segnum=segnum)
    segment = ProvBuf.src("seg", seglen, 0)
    saved_h = node_mod.hashutil.crypttext_segment_hash
    node_mod.hashutil.crypttext_segment_hash = lambda seg: ("cth", seg)
    try:
        (offset, seg2, _t2) = _check_ct(nd, (segment, 0.0), segnum)
    finally:
        node_mod.hashutil.crypttext_segment_hash = saved_h
    if offset != segnum * segsize or seg2 is not segment:
        return "segment offset wrong"
    if list(nd.ciphertext_hash_tree.leaves.items()) != [(segnum, ("cth", segment))]:
        return "ciphertext leaf index/hash wrong"
    return True


# ---- share layout: writer (layout.py) vs reader (downloader/share.py) ----------------

from allmydata.util.spans import DataSpans

layout.struct = FakeStruct
share_mod.struct = FakeStruct
_satisfy_offsets = hlib.strip_logs(share_mod.Share._satisfy_offsets)
_satisfy_data_block = hlib.strip_logs(share_mod.Share._satisfy_data_block)
hlib.encoded(layout.make_write_bucket_proxy, layout.WriteBucketProxy.__init__, layout.WriteBucketProxy._create_offsets,
             layout.WriteBucketProxy_v2._create_offsets, layout.WriteBucketProxy.get_allocated_size,
             layout.WriteBucketProxy.put_block, mathutil.next_power_of_k)
NOTES += ["struct in immutable.layout and downloader.share replaced by FakeStruct (field lists with real sizes/range checks)",
          "WriteBucketProxy._queue_write replaced by a recorder of (offset, data) (write batching not exercised)",
          "isinstance(data, bytes) in layout.put_block accepts provenance buffers"]
_real_isinstance = isinstance
layout.isinstance = lambda o, t: True if (t is bytes and _real_isinstance(o, ProvBuf)) else _real_isinstance(o, t)
HS = 32


def h_layout(bs: int, tb: int, ns: int, nsh: int, uebsize: int, segnum: int) -> bool:
    """
    pre: 1 <= tb <= bs and 1 <= ns <= B["ns_max"] and 0 <= nsh <= 20 and 0 <= uebsize <= 2**20 and 0 <= segnum < ns
    pre: bs <= B["bs_max"]
    post: _ == True
    """
    data_size = (ns - 1) * bs + tb
    writes = []

    class _W(layout.WriteBucketProxy):
        def _queue_write(self, offset, data):
            writes.append((offset, data))
            return defer.succeed(False)

    class _W2(layout.WriteBucketProxy_v2):
        def _queue_write(self, offset, data):
            writes.append((offset, data))
            return defer.succeed(False)
    saved = (layout.WriteBucketProxy, layout.WriteBucketProxy_v2)
    layout.WriteBucketProxy, layout.WriteBucketProxy_v2 = _W, _W2
    eff0 = 1
    while eff0 < ns:
        eff0 = eff0 * 2
    v2_end = 0x44 + data_size + 3 * (2 * eff0 - 1) * HS + nsh * (2 + HS)
    fits_v2 = bs < 2 ** 64 and data_size < 2 ** 64 and v2_end < 2 ** 64
    try:
        wbp = layout.make_write_bucket_proxy(None, None, data_size, bs, ns, nsh, uebsize)
    except layout.FileTooLargeError:
        # a loud refusal is right exactly when some offset cannot be stored in the 64-bit fields of layout v2
        return True if not fits_v2 else "share that fits layout v2 was refused as too large"
    finally:
        layout.WriteBucketProxy, layout.WriteBucketProxy_v2 = saved
    if not fits_v2:
        return "share whose offsets exceed 64 bits was not refused"
    o = wbp._offsets
    v2 = isinstance(wbp, _W2)
    hdr = 0x44 if v2 else 0x24
    eff = 1
    while eff < ns:
        eff = eff * 2
    hsz = (2 * eff - 1) * HS
    want = {"data": hdr, "plaintext_hash_tree": hdr + data_size, "crypttext_hash_tree": hdr + data_size + hsz,
            "block_hashes": hdr + data_size + 2 * hsz, "share_hashes": hdr + data_size + 3 * hsz,
            "uri_extension": hdr + data_size + 3 * hsz + nsh * (2 + HS)}
    if o != want:
        return "section offsets do not tile the share"
    if wbp.get_allocated_size() != want["uri_extension"] + (8 if v2 else 4) + uebsize:
        return "allocated size wrong"
    small = bs < 2 ** 32 and data_size < 2 ** 32 and want["uri_extension"] - 0x24 + 0x24 < 2 ** 32
    # v1 must be used exactly when everything fits 32 bits (v1 offsets are computed with the 0x24 header)
    v1_end = 0x24 + data_size + 3 * hsz + nsh * (2 + HS)
    fits_v1 = bs < 2 ** 32 and data_size < 2 ** 32 and v1_end < 2 ** 32
    if v2 == fits_v1:
        return "layout version choice wrong"
    # reader parses the header the writer produced
    sh = share_mod.Share.__new__(share_mod.Share)
    sh._lp = 0
    sh.had_corruption = False
    sh._received = DataSpans()
    sh._received.add(0, wbp._offset_data)
    if len(wbp._offset_data) != hdr:
        return "header size"
    try:
        if _satisfy_offsets(sh) is not True:
            return "reader did not accept the writer's header"
    except hlib.FieldMisaligned as e:
        return "reader reads header fields at other positions/widths than the writer wrote: %s" % (e,)
    if sh.actual_offsets != want or sh._fieldsize != (8 if v2 else 4):
        return "reader's offsets differ from writer's"
    # block addressing
    blen = tb if segnum == ns - 1 else bs
    wbp.put_block(segnum, ProvBuf.src("blk", blen, 0))
    (woff, wdata) = writes[-1]
    got = []
    sh._node = hlib.NS(num_segments=ns, block_size=bs, tail_block_size=tb)
    sh._commonshare = hlib.NS(check_block=lambda sn, blk: got.append((sn, blk)))
    sh._requested_blocks = [(segnum, None)]
    sh._received = DataSpans()
    total = wbp.get_allocated_size()
    sh._received.add(0, ProvBuf.src("share", total, 0))
    notes = []
    obs = hlib.NS(notify=lambda **kw: notes.append(kw))
    saved_ds = share_mod.DataSpans
    try:
        r = _satisfy_data_block(sh, segnum, [obs])
    finally:
        share_mod.DataSpans = saved_ds
    if len(got) != 1 or got[0][0] != segnum:
        return "check_block not called for the block"
    blk = got[0][1]
    if len(blk) != blen or blk.at(0) != ("share", woff):
        return "reader fetches a different range than the writer wrote"
    if woff != hdr + segnum * bs or woff + blen > want["plaintext_hash_tree"]:
        return "block written outside the data section"
    if len(notes) != 1 or notes[0].get("block") is not blk:
        return "delivered block is not the checked block"
    return True


# ---- guessed tables are replaced by the real ones once the UEB arrives ---------------

class _HT2(_HT):
    def needed_hashes(self, leafnum, include_leaf=False):
        return ("needed", self.n, leafnum, include_leaf)


def h_guess_vs_real(size: int, blk: int, guess_max: int, k: int, n: int, last: bool) -> bool:
    """
    pre: 1 <= k <= n <= B["n_max"] and k == B["k"]
    pre: 1 <= size <= B["size_max"] and 1 <= blk and k * blk <= B["seg_max"] and 1 <= guess_max <= B["seg_max"]
    post: _ == True
    """
    segsize = k * blk
    ueb = {"segment_size": segsize, "crypttext_root_hash": b"c", "share_root_hash": b"s"}
    saved_ht, saved_unpack = node_mod.IncompleteHashTree, node_mod.uri.unpack_extension
    nd = node_mod.DownloadNode.__new__(node_mod.DownloadNode)
    nd._verifycap = hlib.NS(size=size, needed_shares=k, total_shares=n, to_string=lambda: b"cap")
    nd._lp = 0
    nd._segsize_observers = _Obs()
    nd.share_hash_tree = _HT2(n)
    node_mod.IncompleteHashTree = _HT2
    node_mod.uri.unpack_extension = lambda u: u
    try:
        if k == 1:
            nd._build_guessed_tables(guess_max)
        else:
            # two symbolic divisors (guessed and real segment size) are out of z3's reach for k > 1: use an
            # over-approximated guessed state instead (any guessed segment count >= 1), recorded as an assumption
            nd.guessed_segment_size = k * guess_max
            nd.guessed_num_segments = guess_max
            nd.ciphertext_hash_tree = _HT2(guess_max)
            nd.ciphertext_hash_tree_leaves = guess_max
        _parse_ueb(nd, ueb)
    finally:
        node_mod.IncompleteHashTree, node_mod.uri.unpack_extension = saved_ht, saved_unpack
    ns = nd.num_segments
    if ns < 1 or (ns - 1) * segsize >= size or ns * segsize < size:
        return "real num_segments wrong"
    segnum = ns - 1 if last else 0   # first and last real segment (the comparison in the code is monotone in segnum)
    if nd.ciphertext_hash_tree.n != ns:
        return "ciphertext hash tree not sized for the real segment count"
    if nd.ciphertext_hash_tree.set != [({0: b"c"}, None)]:
        return "ciphertext root not installed in the tree in use"
    # every real segment must be able to ask for its ciphertext hashes, and 'desired' must agree with 'needed'
    want = ("needed", ns, segnum, True)
    if nd.get_needed_ciphertext_hashes(segnum) != want:
        return "needed ciphertext hashes not computed on the real tree"
    if nd.get_desired_ciphertext_hashes(segnum) != want:
        return "desired ciphertext hashes disagree with the real tree (stale guessed table)"
    if nd.share_hash_tree.set != [({0: b"s"}, None)]:
        return "share root hash not installed"
    return True
