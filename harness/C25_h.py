"""
C25 — lease semantics.

Real ShareFile / MutableShareFile lease methods, LeaseInfo / HashedLeaseInfo, the v1/v2 lease
serializers and StorageServer.add_lease/renew_lease on the in-memory filesystem.  Secrets are distinct
concrete 32-byte tokens (the incoming secret is chosen by a symbolic index: one of the existing leases
or a fresh one); expiry times, available space, container geometry are symbolic.  blake2b of the tokens
is the real function (run untraced).
"""
from vlib import hlib
from vlib.hlib import ProvBuf, assume
import _sharefix as X
from _sharefix import FS, FStruct, MSF, SF, DATA_OFFSET, MLEASE, ILEASE, Garbage
from allmydata.storage import immutable as imm, mutable as mut, lease as lease_mod, lease_schema, server as server_mod
from allmydata.storage.lease import LeaseInfo, HashedLeaseInfo
from allmydata.interfaces import NoSpace

B = hlib.bounds()
NOTES = X.NOTES + []
hlib.encoded(SF.add_or_renew_lease, SF.renew_lease, SF.add_lease, SF.get_leases, SF._write_lease_record, SF._read_num_leases,
             MSF.add_or_renew_lease, MSF.renew_lease, MSF.add_lease, MSF._write_lease_record, MSF._read_lease_record,
             MSF._get_first_empty_lease_slot, MSF._get_num_lease_slots, MSF._enumerate_leases,
             LeaseInfo.renew, LeaseInfo.is_renew_secret, LeaseInfo.to_immutable_data, LeaseInfo.from_immutable_data,
             LeaseInfo.to_mutable_data, LeaseInfo.from_mutable_data, LeaseInfo.immutable_size, LeaseInfo.mutable_size,
             HashedLeaseInfo.renew, HashedLeaseInfo.is_renew_secret, HashedLeaseInfo.is_cancel_secret,
             lease_schema.HashedLeaseSerializer.serialize, lease_schema.HashedLeaseSerializer.unserialize,
             lease_schema.HashedLeaseSerializer._hash_lease_info,
             lease_schema.CleartextLeaseSerializer.serialize, lease_schema.CleartextLeaseSerializer.unserialize,
             X.SS.add_lease, X.SS.renew_lease, X.SS._add_or_renew_leases, X.SS._iter_share_files)

PATH = X.share_path(0)
PARENT = X.Parent()
RS = [X.tok("r", i) for i in range(5)]      # renew secrets: RS[i] belongs to existing lease i; the last ones are fresh
CS = [X.tok("c", i) for i in range(5)]


def _pick(lst, j):
    for i in range(len(lst)):
        if j == i:
            return lst[i]
    raise hlib.HarnessError("index")


def _version():
    return B.get("version", 2)


# ---- immutable containers ------------------------------------------------------------------------------

def _imm_state(dlen, n, exps, version):
    X.reset()
    recs = [X.ilease_rec(1 + i, X.hashed(version, RS[i]), X.hashed(version, CS[i]), exps[i]) for i in range(n)]
    st = X.mk_immutable(PATH, dlen, recs, version=version)
    return st, [tuple(r.values) for r in recs]


def _imm_leases(st, dlen):
    """records straight from the file: (count field, [records])"""
    (ver, _l, cnt) = X.rec_values(st, 0, ">LLL")
    out = []
    k = 0
    while dlen + 0xc + (k + 1) * ILEASE <= st.size and k < 6:
        out.append(X.rec_values(st, 0xc + dlen + k * ILEASE, ">L32s32sL"))
        k += 1
    return cnt, out


def h_imm_add_or_renew(dlen: int, n: int, e0: int, e1: int, e2: int, j: int, enew: int, avail: int, renew_only: bool,
                       use_cancel: bool) -> bool:
    """
    pre: 0 <= dlen <= B["dlen_max"] and 0 <= n <= B["n_max"] and 0 <= j <= n
    pre: 0 <= e0 < X.U32 and 0 <= e1 < X.U32 and 0 <= e2 < X.U32 and 0 <= enew < X.U32
    post: _ == True
    """
    return X.guard(_h_imm_add_or_renew, dlen, n, e0, e1, e2, j, enew, avail, renew_only, use_cancel)


def _h_imm_add_or_renew(dlen, n, e0, e1, e2, j, enew, avail, renew_only, use_cancel):
    version = _version()
    st, old = _imm_state(dlen, n, [e0, e1, e2], version)
    sf = SF(PATH)
    secret, cancel = _pick(RS, j), _pick(CS, j)
    if use_cancel:
        # presenting a lease's CANCEL secret as renew secret is an unknown secret
        secret, cancel = cancel, secret
    known = j < n and not use_cancel
    li = LeaseInfo(7, secret, cancel, enew, X.NODEID)
    size0 = st.size
    raised = None
    try:
        if renew_only:
            sf.renew_lease(secret, enew)
        else:
            sf.add_or_renew_lease(avail, li)
    except NoSpace:
        raised = "NoSpace"
    except IndexError:
        raised = "IndexError"
    cnt, recs = _imm_leases(st, dlen)
    if known:
        # the secret matches lease j: renewed in place, never shortened, nothing added
        if raised:
            return "renewing an existing lease raised %s" % raised
        eold = old[j][3]
        want = list(old)
        want[j] = old[j][:3] + (enew if enew > eold else eold,)
        if cnt != n or recs != want or st.size != size0:
            return "matching secret must renew that lease (expiry = max(old, new)) and add no duplicate"
    else:
        # unknown secret
        if renew_only:
            if raised != "IndexError":
                return "renew_lease with an unknown secret must raise IndexError"
            if FS.nops != 0:
                return "renew_lease with an unknown secret changed the container"
        elif ILEASE > avail:
            if raised != "NoSpace" or FS.nops != 0:
                return "add without space must raise NoSpace and change nothing"
        else:
            if raised:
                return "adding a fresh lease raised %s" % raised
            new = (7, X.hashed(version, secret), X.hashed(version, cancel), enew)
            if cnt != n + 1 or recs != old + [new]:
                return "fresh secret must append exactly one lease and keep the others"
            if version == 2 and (new[1] == secret or new[2] == cancel):
                return "harness: hash is the identity"
    if version == 2:
        for r in recs:
            if r[1] in RS or r[2] in CS:
                return "v2 container stores a lease secret in cleartext"
    # share data untouched
    sf2 = SF(PATH)
    if sf2.get_length() != dlen:
        return "lease operation changed the share data length"
    return True


# ---- mutable containers --------------------------------------------------------------------------------

def _mut_state(dl, elo, occ, nx, exps, version):
    """occ: 4 booleans (slot occupied); lease i (slot or extra) has secrets RS[i]/CS[i] for i < 4, extras use index 4"""
    X.reset()
    slots = []
    for i in range(4):
        if occ[i]:
            slots.append(X.mlease_rec(1 + i, exps[i], X.hashed(version, RS[i]), X.hashed(version, CS[i])))
        else:
            slots.append(X.mlease_rec(0, 0, b"\x00" * 32, b"\x00" * 32, b"\x00" * 20))
    extras = [X.mlease_rec(5, exps[4], X.hashed(version, RS[4]), X.hashed(version, CS[4]))][:nx]
    st = X.mk_mutable(PATH, dl, elo, slots, extras, version=version)
    return st, slots, extras


def _mut_leases(st):
    (magic, nodeid, we, dlf, elof) = X.rec_values(st, 0, ">32s20s32sQQ")
    (cnt,) = X.rec_values(st, elof, ">L")
    slots = [X.rec_values(st, X.HEADER_SIZE + i * MLEASE, ">LL32s32s20s") for i in range(4)]
    extras = []
    k = 0
    while elof + 4 + (k + 1) * MLEASE <= st.size and k < 4:
        extras.append(X.rec_values(st, elof + 4 + k * MLEASE, ">LL32s32s20s"))
        k += 1
    return dlf, elof, cnt, slots, extras


def _occ_is(o0, o1, o2, o3, pat):
    return [o0, o1, o2, o3] == [ch == "1" for ch in pat]


def h_mut_add_or_renew(dl: int, elo: int, o0: bool, o1: bool, o2: bool, o3: bool, nx: int, e0: int, e4: int, j: int,
                       enew: int, avail: int, renew_only: bool) -> bool:
    """
    pre: X.mutable_inv(dl, elo) and nx == B["nx"] and _occ_is(o0, o1, o2, o3, B["occ"]) and 0 <= j <= 5
    pre: 0 <= e0 < X.U32 and 0 <= e4 < X.U32 and 0 <= enew < X.U32
    post: _ == True
    """
    return X.guard(_h_mut_add_or_renew, dl, elo, o0, o1, o2, o3, nx, e0, e4, j, enew, avail, renew_only)


def _h_mut_add_or_renew(dl, elo, o0, o1, o2, o3, nx, e0, e4, j, enew, avail, renew_only):
    version = _version()
    occ = [o0, o1, o2, o3]
    exps = [e0, e0 + 1 if e0 + 1 < X.U32 else e0, 77, 78, e4]
    st, slots, extras = _mut_state(dl, elo, occ, nx, exps, version)
    sf = MSF(PATH, PARENT)
    # j in 0..4: secret of lease j (which may or may not exist); j == 5: a secret no lease has
    exists = (j == 4 and nx == 1)
    for i in range(4):
        if j == i and occ[i]:
            exists = True
    if j == 5:
        secret, cancel = X.tok("R", 9), X.tok("C", 9)
    else:
        secret, cancel = _pick(RS, j), _pick(CS, j)
    li = LeaseInfo(7, secret, cancel, enew, X.NODEID2)
    size0 = st.size
    raised = None
    try:
        if renew_only:
            sf.renew_lease(secret, enew)
        else:
            sf.add_or_renew_lease(avail, li)
    except NoSpace:
        raised = "NoSpace"
    except IndexError:
        raised = "IndexError"
    dlf, elof, cnt, slots2, extras2 = _mut_leases(st)
    if dlf != dl or elof != elo:
        return "lease operation changed the data length / container geometry"
    old_slots = [tuple(r.values) for r in slots]
    old_extras = [tuple(r.values) for r in extras]
    if exists:
        if raised:
            return "renewing an existing lease raised %s" % raised
        want_slots, want_extras = list(old_slots), list(old_extras)
        if j < 4:
            r = old_slots[j]
            want_slots[j] = (r[0], enew if enew > r[1] else r[1]) + r[2:]
        else:
            r = old_extras[0]
            want_extras[0] = (r[0], enew if enew > r[1] else r[1]) + r[2:]
        if slots2 != want_slots or extras2 != want_extras or cnt != nx or st.size != size0:
            return "matching secret must renew that lease (expiry = max(old, new)) and add no duplicate"
    elif renew_only:
        if raised != "IndexError" or FS.nops != 0:
            return "renew_lease with an unknown secret must raise IndexError and change nothing"
    else:
        new = (7, enew, X.hashed(version, secret), X.hashed(version, cancel), X.NODEID2)
        free = [i for i in range(4) if not occ[i]]
        if free:
            # an empty in-header slot costs no space
            if raised:
                return "adding a lease into a free slot raised %s" % raised
            want_slots = list(old_slots)
            want_slots[free[0]] = new
            if slots2 != want_slots or extras2 != old_extras or cnt != nx or st.size != size0:
                return "fresh secret must fill the first empty slot and keep the others"
        elif MLEASE > avail:
            if raised != "NoSpace" or FS.nops != 0:
                return "add without space must raise NoSpace and change nothing"
        else:
            if raised:
                return "adding a fresh lease raised %s" % raised
            if slots2 != old_slots or extras2 != old_extras + [new] or cnt != nx + 1:
                return "fresh secret must append exactly one extra lease and keep the others"
    if version == 2:
        for r in slots2 + extras2:
            if r[2] in RS or r[3] in CS or r[2] == X.tok("R", 9):
                return "v2 container stores a lease secret in cleartext"
    return True


# ---- serializers / LeaseInfo ---------------------------------------------------------------------------

def h_serializers(owner: int, exp: int, exp2: int, mutable: bool, other: int) -> bool:
    """
    pre: 0 <= owner < X.U32 and 0 <= exp < X.U32 and 0 <= exp2 < X.U32 and 0 <= other <= 2
    post: _ == True
    """
    return X.guard(_h_serializers, owner, exp, exp2, mutable, other)


def _h_serializers(owner, exp, exp2, mutable, other):
    version = _version()
    schema = (X.MSCHEMA if mutable else X.ISCHEMA)[version]
    ser = schema.lease_serializer
    li = LeaseInfo(owner, RS[0], CS[0], exp, X.NODEID)
    data = ser.serialize(li)
    vals = tuple(data.values)
    if mutable:
        (o, e, r, c, nid) = vals
    else:
        (o, r, c, e) = vals
    if o != owner or e != exp:
        return "owner / expiry not serialized"
    if version == 2:
        if r != X._real_hash_secret(RS[0]) or c != X._real_hash_secret(CS[0]):
            return "v2 serializer must store blake2b(secret)"
        if RS[0] in vals or CS[0] in vals:
            return "v2 serializer output contains a cleartext secret"
    elif r != RS[0] or c != CS[0]:
        return "v1 serializer must store the secrets as given"
    back = ser.unserialize(data)
    if not back.is_renew_secret(RS[0]) or not back.is_cancel_secret(CS[0]):
        return "the right secret is not recognised after a round trip"
    wrong = (RS[1], CS[0], X._real_hash_secret(RS[0]))[other]
    if back.is_renew_secret(wrong):
        return "a wrong secret (another token / the cancel secret / the stored hash itself) is accepted as renew secret"
    if back.get_expiration_time() != exp or back.owner_num != owner:
        return "expiry / owner lost in the round trip"
    # renew keeps every other field, in both representations
    back2 = back.renew(exp2)
    again = ser.serialize(back2)
    v2 = tuple(again.values)
    want = list(vals)
    want[1 if mutable else 3] = exp2
    if v2 != tuple(want):
        return "renew() changed a field other than the expiry time (or re-hashed the secrets)"
    if back.get_expiration_time() != exp:
        return "renew() mutated the original lease"
    return True


# ---- StorageServer.add_lease / renew_lease over the shares of a bucket ----------------------------------

hlib.strip_method(X.SS, "add_lease")
hlib.strip_method(X.SS, "renew_lease")


def h_server_leases(now: int, e0: int, e1: int, known: bool, renew_only: bool, two: bool, avail: int) -> bool:
    """
    pre: 0 <= now < X.U32 - 31 * 86400 and 0 <= e0 < X.U32 and 0 <= e1 < X.U32 and 0 <= avail
    post: _ == True
    """
    return X.guard(_h_server_leases, now, e0, e1, known, renew_only, two, avail)


def _h_server_leases(now, e0, e1, known, renew_only, two, avail):
    X.reset()
    clock = X.Clock(now)
    ss = X.mk_server(clock=clock)
    FS.fileutil.avail = avail
    exps = [e0, e1]
    nsh = 2 if two else 1
    sts = []
    for sh in range(nsh):
        rec = X.ilease_rec(1, X.hashed(2, RS[0]), X.hashed(2, CS[0]), exps[sh])
        sts.append(X.mk_immutable(X.share_path(sh), 10 + sh, [rec]))
    secret, cancel = (RS[0], CS[0]) if known else (RS[1], CS[1])
    raised = None
    try:
        if renew_only:
            ss.renew_lease(X.SI, secret)
        else:
            ss.add_lease(X.SI, secret, cancel)
    except IndexError:
        raised = "IndexError"
    except NoSpace:
        raised = "NoSpace"
    t = now + 31 * 24 * 60 * 60
    for sh in range(nsh):
        cnt, recs = _imm_leases(sts[sh], 10 + sh)
        old = (1, X.hashed(2, RS[0]), X.hashed(2, CS[0]), exps[sh])
        if known:
            if raised:
                return "renewing a known lease raised %s" % raised
            want = old[:3] + (t if t > exps[sh] else exps[sh],)
            if cnt != 1 or recs != [want]:
                return "known secret: every share's lease must be renewed to max(old, now + 31 days), no duplicates"
        elif renew_only:
            if raised != "IndexError" or cnt != 1 or recs != [old]:
                return "renew with an unknown secret must raise IndexError and change nothing"
        else:
            space = ILEASE <= avail
            if sh == 0 and not space:
                if raised != "NoSpace" or cnt != 1 or recs != [old]:
                    return "add_lease without space must raise NoSpace and add nothing"
            if space:
                if raised:
                    return "add_lease raised %s" % raised
                if cnt != 2 or recs != [old, (1, X.hashed(2, secret), X.hashed(2, cancel), t)]:
                    return "add_lease with a fresh secret must add one lease expiring at now + 31 days to every share"
    return True


# ---- leases survive data writes and container growth (real _write_share_data/_change_container_size) -----

def h_leases_survive_growth(dl: int, elo: int, nx: int, off: int, ln: int) -> bool:
    """
    pre: X.mutable_inv(dl, elo) and nx == B["nx"] and 0 <= off and 0 <= ln and off + ln <= X.MAX_SIZE
    post: _ == True
    """
    return X.guard(_h_leases_survive_growth, dl, elo, nx, off, ln)


def _h_leases_survive_growth(dl, elo, nx, off, ln):
    # > 4 leases: the extra-lease block has to move when the data outgrows the container (also by a few bytes only,
    # when the old and the new block overlap)
    version = _version()
    X.reset()
    slots = [X.mlease_rec(1 + i, 100 + i, X.hashed(version, RS[i]), X.hashed(version, CS[i])) for i in range(4)]
    extras = [X.mlease_rec(5 + i, 200 + i, X.hashed(version, X.tok("xr", i)), X.hashed(version, X.tok("xc", i))) for i in range(nx)]
    X.mk_mutable(PATH, dl, elo, slots, extras, version=version)
    sf = MSF(PATH, PARENT)
    sf.writev([(off, ProvBuf.src("new", ln))], None)
    got = []
    for li in MSF(PATH, PARENT).get_leases():
        raw = li._lease_info if version == 2 else li
        got.append((raw.owner_num, raw._expiration_time, raw.renew_secret, raw.cancel_secret, raw.nodeid))
    if got != [tuple(r.values) for r in slots + extras]:
        return "a data write / container growth lost or altered a lease (get_leases before != after)"
    if not sf._schema.lease_serializer.unserialize(extras[nx - 1]).is_renew_secret(X.tok("xr", nx - 1)):
        return "harness: secret check"
    return True


# ---- leases survive share data writes (immutable container) ------------------------------------------------

hlib.encoded(SF.write_share_data)


def h_imm_write_keeps_leases(size: int, n: int, e0: int, e1: int, off: int, ln: int) -> bool:
    """
    pre: 1 <= size <= B["dlen_max"] and 1 <= n <= 2 and 0 <= off and 0 <= ln
    pre: 0 <= e0 < X.U32 and 0 <= e1 < X.U32
    post: _ == True
    """
    return X.guard(_h_imm_write_keeps_leases, size, n, e0, e1, off, ln)


def _h_imm_write_keeps_leases(size, n, e0, e1, off, ln):
    # a share being uploaded: `size` allocated data bytes followed by n lease records; any data write either is refused
    # (it would reach beyond the allocated size) or leaves every lease record and the lease count as they were
    from allmydata.interfaces import DataTooLargeError
    version = _version()
    st, old = _imm_state(size, n, [e0, e1, 0], version)
    sf = SF(PATH)
    sf._max_size = size              # as set by ShareFile(..., create=True, max_size=size) for an upload in progress
    try:
        sf.write_share_data(off, ProvBuf.src("new", ln))
    except DataTooLargeError:
        if off + ln <= size:
            return "DataTooLargeError for a write inside the allocated size"
        if FS.nops != 0:
            return "refused write modified the container"
        return True
    if off + ln > size:
        return "a write reaching beyond the allocated size was accepted (it lands in the lease area)"
    cnt, recs = _imm_leases(st, size)
    if cnt != n or recs != old:
        return "a share data write altered the leases"
    if st.size != 0xc + size + n * ILEASE:
        return "a share data write changed the container size"
    return True
