"""
C42 — the backup database reuses a cap only for unchanged content.

Real code executed: scripts/backupdb.py BackupDB_v2.check_file / did_upload_file / get_or_allocate_fileid_for_cap /
did_check_file_healthy / check_directory / did_create_directory / did_check_directory_healthy, FileResult, DirectoryResult,
util.netstring.netstring, util.hashutil.backupdb_dirhash (on an ideal hash), util.base32.b2a.

The SQLite connection is replaced by an in-memory table model that implements exactly the 13 SQL statements the module
issues (primary-key / UNIQUE conflicts raise IntegrityError, caps.fileid autoincrements); os.stat, time.time and
random.random in the module's namespace return symbolic values.
"""
import stat as _stat
from vlib import hlib
from vlib.hlib import NS, assume
hlib.ensure_shims()
from allmydata.scripts import backupdb as BD
from allmydata.util import hashutil, base32, netstring as netstring_mod

B = hlib.bounds()
NOTES = [
    "sqlite3 replaced by an in-memory model of the four tables that executes the module's 13 SQL statements literally (unknown SQL => harness error)",
    "backupdb.os.stat / time.time / random.random replaced by functions returning the symbolic current size/mtime/ctime, clock and random draw",
    "directory obligation: hashlib inside util.hashutil replaced by an ideal injective hash (token per distinct input), so a lookup hit means equal hash input",
]
hlib.encoded(BD.BackupDB_v2.check_file, BD.BackupDB_v2.did_upload_file, BD.BackupDB_v2.get_or_allocate_fileid_for_cap,
             BD.BackupDB_v2.did_check_file_healthy, BD.BackupDB_v2.check_directory, BD.BackupDB_v2.did_create_directory,
             BD.BackupDB_v2.did_check_directory_healthy, BD.FileResult, BD.DirectoryResult, hashutil.backupdb_dirhash,
             netstring_mod.netstring)

MONTH = 30 * 24 * 60 * 60


class IntegrityError(Exception):
    pass


class OperationalError(Exception):
    pass


SQLMOD = NS(IntegrityError=IntegrityError, OperationalError=OperationalError)


def _norm(sql):
    return " ".join(sql.split())


import re as _re

def _parse_schema(sql_text):
    """table -> (columns, primary key column, rowid alias?, AUTOINCREMENT?, UNIQUE columns), read from the module's own CREATE TABLE text"""
    out = {}
    text = "\n".join(ln.split("--")[0] for ln in sql_text.splitlines())
    for m in _re.finditer(r"CREATE TABLE (\w+)\s*\((.*?)\);", text, _re.S | _re.I):
        table, body = m.group(1), m.group(2)
        cols, pk, alias, auto, uniques = [], None, False, False, []
        for part in body.split(","):
            words = part.split()
            if not words:
                continue
            name = words[0]
            cols.append(name)
            up = part.upper()
            if "PRIMARY KEY" in up:
                pk = name
                alias = len(words) > 1 and words[1].upper() == "INTEGER"
                auto = "AUTOINCREMENT" in up
            elif "UNIQUE" in up:
                uniques.append(name)
        out[table] = (cols, pk, alias, auto, uniques)
    return out


_SCHEMA = _parse_schema(BD.SCHEMA_v2)
for _t in ("local_files", "caps", "last_upload", "directories"):
    if _t not in _SCHEMA or _SCHEMA[_t][1] is None:
        raise hlib.HarnessError("cannot read table %s from backupdb.SCHEMA_v2" % _t)


class FakeDB(object):
    """
    connection and cursor in one: a small in-memory engine for the SQL subset backupdb.py uses
    (INSERT [OR IGNORE|OR REPLACE] / REPLACE / UPDATE..WHERE c=? / DELETE..WHERE c=? / SELECT cols FROM t[,t2] WHERE c=? [AND c2=?]),
    with sqlite's constraint behaviour (PRIMARY KEY / UNIQUE conflicts raise IntegrityError, INTEGER PRIMARY KEY is the rowid and is
    assigned max+1 when omitted - with AUTOINCREMENT: never an id that was ever used, without: ids of deleted rows are handed out
    again) and sqlite's lastrowid semantics (set by a successful INSERT/REPLACE, untouched by an ignored one).  The table definitions
    are read from backupdb.SCHEMA_v2; the engine is compared with the real sqlite3 on a fixed script at import (_selftest_engine).
    """

    def __init__(self):
        self.rows = dict((t, []) for t in _SCHEMA)      # table -> list of {"_rowid": n, col: value}
        self.commits = 0
        self.res = []
        self.dirty = False
        self.lastrowid = 0
        self.rowcount = -1
        self.seq = dict((t, 0) for t in _SCHEMA)        # AUTOINCREMENT high-water marks (sqlite_sequence)

    # ---- convenient views used by the oracles -------------------------------------------------
    @property
    def local_files(self):
        return dict((r["path"], [r["size"], r["mtime"], r["ctime"], r["fileid"]]) for r in self.rows["local_files"])

    @property
    def caps(self):
        return dict((r["fileid"], r["filecap"]) for r in self.rows["caps"])

    @property
    def last_upload(self):
        return dict((r["fileid"], [r["last_uploaded"], r["last_checked"]]) for r in self.rows["last_upload"])

    @property
    def directories(self):
        return dict((r["dirhash"], [r["dircap"], r["last_uploaded"], r["last_checked"]]) for r in self.rows["directories"])

    def put(self, table, **vals):
        """test set-up: store a row directly"""
        cols = _SCHEMA[table][0]
        row = dict((c, vals.get(c)) for c in cols)
        self._store(table, row, "abort")

    # ---- DB-API surface --------------------------------------------------------------------------
    def cursor(self):
        return self

    def commit(self):
        self.commits += 1
        self.dirty = False

    def fetchone(self):
        if self.res:
            return self.res.pop(0)
        return None

    def fetchall(self):
        r, self.res = self.res, []
        return r

    def _next_rowid(self, table):
        m = 0
        for r in self.rows[table]:
            if r["_rowid"] > m:
                m = r["_rowid"]
        if _SCHEMA[table][3] and self.seq[table] > m:
            m = self.seq[table]
        return m + 1

    def _store(self, table, row, on_conflict):
        (cols, pk, alias, _auto, uniques) = _SCHEMA[table]
        if alias and row.get(pk) is None:
            row[pk] = self._next_rowid(table)
        new_rowid = row[pk] if alias else self._next_rowid(table)     # allocated before a REPLACE removes the old row (as sqlite does)
        clash = []
        for r in self.rows[table]:
            for c in [pk] + list(uniques):
                if r[c] == row[c]:
                    clash.append(r)
                    break
        if clash:
            if on_conflict == "ignore":
                # sqlite: an ignored INSERT on an AUTOINCREMENT table has already consumed the id it allocated
                if _SCHEMA[table][3] and alias and row[pk] > self.seq[table]:
                    self.seq[table] = row[pk]
                self.rowcount = 0
                return False
            if on_conflict == "abort":
                raise IntegrityError("UNIQUE constraint failed: %s" % table)
            for r in clash:
                self.rows[table].remove(r)
        row["_rowid"] = new_rowid
        self.rows[table].append(row)
        if row["_rowid"] > self.seq[table]:
            self.seq[table] = row["_rowid"]
        self.lastrowid = row["_rowid"]
        self.rowcount = 1
        self.dirty = True
        return True

    def execute(self, sql, params=()):
        q = _norm(sql)
        p = list(params)
        self.res = []
        m = _re.match(r"^(INSERT(?: OR (IGNORE|REPLACE))?|REPLACE) INTO (\w+)(?: ?\(([^)]*)\))? VALUES ?\(([?, ]*)\)$", q, _re.I)
        if m:
            verb, orx, table, collist = m.group(1).upper(), (m.group(2) or "").upper(), m.group(3), m.group(4)
            if table not in _SCHEMA:
                raise hlib.HarnessError("unknown table in %r" % q)
            cols = [c.strip() for c in collist.split(",")] if collist else list(_SCHEMA[table][0])
            if len(cols) != len(p) or m.group(5).count("?") != len(p):
                raise OperationalError("%d values for %d columns" % (len(p), len(cols)))
            row = dict((c, None) for c in _SCHEMA[table][0])
            for (c, v) in zip(cols, p):
                if c not in row:
                    raise OperationalError("no such column: %s" % c)
                row[c] = v
            mode = "replace" if (verb == "REPLACE" or orx == "REPLACE") else ("ignore" if orx == "IGNORE" else "abort")
            self._store(table, row, mode)
            return self
        m = _re.match(r"^UPDATE (\w+) SET (.+?) WHERE (\w+) ?= ?\?$", q, _re.I)
        if m:
            table, sets, wc = m.group(1), [x.strip() for x in m.group(2).split(",")], m.group(3)
            setcols = []
            for x in sets:
                mm = _re.match(r"^(\w+) ?= ?\?$", x)
                if not mm:
                    raise hlib.HarnessError("SQL not modelled: %r" % q)
                setcols.append(mm.group(1))
            if table not in _SCHEMA or len(p) != len(setcols) + 1:
                raise hlib.HarnessError("SQL not modelled: %r" % q)
            n = 0
            for r in self.rows[table]:
                if r[wc] == p[-1]:
                    for (c, v) in zip(setcols, p[:-1]):
                        r[c] = v
                    n += 1
            self.rowcount = n
            self.dirty = True
            return self
        m = _re.match(r"^DELETE FROM (\w+) WHERE (\w+) ?= ?\?$", q, _re.I)
        if m:
            table, wc = m.group(1), m.group(2)
            keep = [r for r in self.rows[table] if not (r[wc] == p[0])]
            self.rowcount = len(self.rows[table]) - len(keep)
            self.rows[table] = keep
            self.dirty = True
            return self
        m = _re.match(r"^SELECT (.+?) FROM (\w+)(?: ?, ?(\w+))? WHERE ([\w.]+) ?= ?\?(?: AND ([\w.]+) ?= ?\?)?$", q, _re.I)
        if m:
            cols = [c.strip() for c in m.group(1).split(",")]
            t1, t2, w1, w2 = m.group(2), m.group(3), m.group(4), m.group(5)

            def split(c, default):
                return (c.split(".", 1) if "." in c else [default, c])
            if t2 is None:
                if w2 is not None:
                    raise hlib.HarnessError("SQL not modelled: %r" % q)
                wc = split(w1, t1)[1]
                for r in self.rows[t1]:
                    if r[wc] == p[0]:
                        self.res.append(tuple(r[split(c, t1)[1]] for c in cols))
            else:
                if w2 is None:
                    raise hlib.HarnessError("SQL not modelled: %r" % q)
                (ta, ca), (tb, cb) = split(w1, t1), split(w2, t2)
                for ra in self.rows[ta]:
                    if not (ra[ca] == p[0]):
                        continue
                    for rb in self.rows[tb]:
                        if rb[cb] == p[1]:
                            both = {ta: ra, tb: rb}
                            self.res.append(tuple(both[split(c, t1)[0]][split(c, t1)[1]] for c in cols))
            return self
        raise hlib.HarnessError("SQL statement not modelled: %r" % (q,))


def _selftest_engine():
    """the table model against the real sqlite3 (same schema text) on a fixed script: results and lastrowid after every statement"""
    import sqlite3
    real = sqlite3.connect(":memory:")
    real.executescript(BD.SCHEMA_v2)
    rc = real.cursor()
    fake = FakeDB()
    script = [
        ("INSERT INTO caps (filecap) VALUES (?)", ("c1",)), ("INSERT INTO caps (filecap) VALUES (?)", ("c2",)),
        ("INSERT INTO last_upload VALUES (?,?,?)", (2, 5, 6)), ("INSERT INTO local_files VALUES (?,?,?,?,?)", ("/p", 1, 2, 3, 2)),
        ("INSERT OR IGNORE INTO caps (filecap) VALUES (?)", ("c1",)), ("SELECT fileid FROM caps WHERE filecap=?", ("c1",)),
        ("INSERT INTO caps (filecap) VALUES (?)", ("c2",)),
        ("SELECT caps.filecap, last_upload.last_checked FROM caps,last_upload WHERE caps.fileid=? AND last_upload.fileid=?", (2, 2)),
        ("DELETE FROM caps WHERE fileid=?", (2,)), ("INSERT INTO caps (filecap) VALUES (?)", ("c3",)), ("SELECT fileid FROM caps WHERE filecap=?", ("c3",)),
        ("UPDATE local_files SET size=?, mtime=?, ctime=?, fileid=? WHERE path=?", (9, 8, 7, 1, "/p")), ("SELECT size,mtime,ctime,fileid FROM local_files WHERE path=?", ("/p",)),
        ("INSERT INTO local_files VALUES (?,?,?,?,?)", ("/p", 1, 2, 3, 2)), ("REPLACE INTO directories VALUES (?,?,?,?)", ("h", "d1", 1, 1)),
        ("REPLACE INTO directories VALUES (?,?,?,?)", ("h", "d2", 2, 2)), ("SELECT dircap, last_checked FROM directories WHERE dirhash=?", ("h",)),
        ("UPDATE directories SET last_checked=? WHERE dircap=?", (7, "d2")), ("SELECT dircap, last_checked FROM directories WHERE dirhash=?", ("h",)),
        ("DELETE FROM local_files WHERE path=?", ("/p",)), ("SELECT size,mtime,ctime,fileid FROM local_files WHERE path=?", ("/p",)),
        ("INSERT INTO last_upload VALUES (?,?,?)", (2, 1, 1)), ("UPDATE last_upload SET last_checked=? WHERE fileid=?", (3, 2)),
    ]
    for (i, (sql, params)) in enumerate(script):
        outs = []
        for (cur, errs) in ((rc, (sqlite3.IntegrityError, sqlite3.OperationalError)), (fake, (IntegrityError, OperationalError))):
            try:
                cur.execute(sql, params)
                rows = cur.fetchall() if sql.startswith("SELECT") else None
                outs.append(("ok", [tuple(r) for r in rows] if rows is not None else None, cur.lastrowid if sql.startswith(("INSERT", "REPLACE")) else None))
            except errs:
                outs.append(("integrity-error", None, None))
        if outs[0] != outs[1]:
            raise hlib.HarnessError("table model differs from sqlite3 at statement %d %r: sqlite %r, model %r" % (i, sql, outs[0], outs[1]))
    return len(script)


N_ENGINE_STEPS = _selftest_engine()


class _Env(object):
    """symbolic environment of the module: stat, clock, random"""
    stats = {}
    now = 0
    draw = 0.0


class _FakeOS(object):
    path = BD.os.path

    @staticmethod
    def stat(path):
        st = _Env.stats.get(path)
        if st is None:
            raise OSError(2, "No such file", path)
        (size, mtime, ctime) = st
        out = [0] * 10
        out[_stat.ST_SIZE], out[_stat.ST_MTIME], out[_stat.ST_CTIME] = size, mtime, ctime
        return tuple(out)


BD.os = _FakeOS
BD.time = NS(time=lambda: _Env.now)
BD.random = NS(random=lambda: _Env.draw)

PATH_A, PATH_B = "/backup/src/a.txt", "/backup/src/b.txt"
CAPS = (b"URI:CHK:cap-one", b"URI:CHK:cap-two", b"URI:CHK:cap-three")


def pick(seq, i):
    for j in range(len(seq)):
        if i == j:
            return seq[j]
    raise hlib.HarnessError("index out of range")


# the re-check decision does float arithmetic ((age - 1 month) / 1 month, compared with random()); symbolic floats do not discharge in
# CrossHair, so ages and draws are concrete values picked by symbolic selectors (boundaries of the rule included)
AGES = (-5, 0, MONTH, MONTH + 1, MONTH + MONTH // 2, 2 * MONTH - 1, 2 * MONTH, 3 * MONTH)
DRAWS = (0.0, 0.25, 0.5, 0.999)
T0 = 1000000


def _want_should_check(age, draw):
    """no check before one month, always after two, in between with probability growing linearly (draw in [0,1))"""
    if age <= MONTH:
        return False
    if age >= 2 * MONTH:
        return True
    return draw * MONTH < age - MONTH


def _db_state(has_row, s_size, s_mtime, s_ctime, fid, has_cap, has_lu, last_checked, other_row):
    db = FakeDB()
    if other_row:
        # another path, uploaded to cap-three (fileid 3), must never be disturbed
        db.put("caps", fileid=3, filecap=CAPS[2])
        db.put("last_upload", fileid=3, last_uploaded=7, last_checked=7)
        db.put("local_files", path=PATH_B, size=s_size, mtime=s_mtime, ctime=s_ctime, fileid=3)
    if has_cap:
        db.put("caps", fileid=fid, filecap=CAPS[fid - 1])
    if has_lu:
        db.put("last_upload", fileid=fid, last_uploaded=last_checked - 5, last_checked=last_checked)
    if has_row:
        db.put("local_files", path=PATH_A, size=s_size, mtime=s_mtime, ctime=s_ctime, fileid=fid)
    db.dirty = False
    db.lastrowid = 0
    return db


def _snapshot(db):
    return (db.local_files, db.caps, db.last_upload, db.directories)


def h_check_file(has_row: bool, s_size: int, s_mtime: int, s_ctime: int, has_cap: bool, has_lu: bool,
                 c_size: int, c_mtime: int, c_ctime: int, use_ts: bool) -> bool:
    """
    pre: s_size >= 0 and c_size >= 0
    pre: has_row or (has_cap and has_lu and use_ts)
    post: _ == True
    """
    fid = 2
    last_checked = T0
    now, draw = T0 + MONTH + MONTH // 2, 0.25         # the re-check rule over all ages/draws is h_recheck_rule
    db = _db_state(has_row, s_size, s_mtime, s_ctime, fid, has_cap, has_lu, last_checked, True)
    before = _snapshot(db)
    _Env.stats = {PATH_A: (c_size, c_mtime, c_ctime)}
    _Env.now, _Env.draw = now, draw
    bdb = BD.BackupDB_v2(SQLMOD, db)
    r = bdb.check_file(PATH_A, use_timestamps=use_ts)
    unchanged = has_row and s_size == c_size and s_mtime == c_mtime and s_ctime == c_ctime
    reuse = unchanged and use_ts and has_cap and has_lu
    got = r.was_uploaded()
    if reuse:
        if got != CAPS[fid - 1] or not isinstance(got, bytes):
            return "unchanged file with a trusted record: the recorded cap must be offered"
        if r.should_check() is not True:
            return "should_check does not follow the age rule"
        if _snapshot(db) != before or db.commits != 0:
            return "a pure lookup modified the database"
    else:
        if got is not False:
            return "cap offered for reuse although size/mtime/ctime/path/trust do not all match the last upload record"
        if r.should_check() is not False:
            return "should_check without a cap"
        want = _snapshot(_db_state(False, s_size, s_mtime, s_ctime, fid, has_cap, has_lu, last_checked, True)) if has_row else before
        if _snapshot(db) != want:
            return "stale record not deleted (or something else was touched)"
        if has_row and (db.commits != 1 or db.dirty):
            return "deletion of the stale record not committed"
    if (r.path, r.size, r.mtime, r.ctime) != (PATH_A, c_size, c_mtime, c_ctime):
        return "result does not carry the file's current path/size/mtime/ctime"
    return True


def h_upload_then_check(st: int, s_size: int, s_mtime: int, s_ctime: int, newcap: int, u_size: int, u_mtime: int, u_ctime: int,
                        d_size: int, d_mtime: int, d_ctime: int, use_ts2: bool, other_path: bool, m_size: int, m_mtime: int) -> bool:
    """
    pre: 0 <= st <= 2 and 0 <= newcap <= 2
    pre: s_size >= 0 and u_size >= 0 and u_size + d_size >= 0 and u_size + m_size >= 0
    post: _ == True
    """
    # pre-state: 0 = no record for the path, 1 = complete record (cap-one), 2 = record whose cap was forgotten
    fid = 1
    now, dt, draw = T0, MONTH + MONTH // 2, 0.25
    db = _db_state(st != 0, s_size, s_mtime, s_ctime, fid, st == 1, st == 1, now - 100, True)
    _Env.stats = {PATH_A: (u_size, u_mtime, u_ctime), PATH_B: (s_size, s_mtime, s_ctime)}
    _Env.now, _Env.draw = now, draw
    bdb = BD.BackupDB_v2(SQLMOD, db)
    r = bdb.check_file(PATH_A)
    cap = pick(CAPS, newcap)
    # the tool uploads the bytes it read (whatever the database said); meanwhile the file may be modified again (m_size, m_mtime);
    # the record must describe what was uploaded, i.e. the stat check_file saw
    _Env.stats = {PATH_A: (u_size + m_size, u_mtime + m_mtime, u_ctime + m_mtime), PATH_B: (s_size, s_mtime, s_ctime)}
    r.did_upload(cap)
    if db.dirty:
        return "did_upload not committed"
    row = db.local_files.get(PATH_A)
    if row is None or row[:3] != [u_size, u_mtime, u_ctime] or db.caps.get(row[3]) != cap:
        return "upload record does not hold the size/mtime/ctime observed by check_file and the new cap"
    if row[3] not in db.last_upload or db.last_upload[row[3]] != [now, now]:
        return "last_upload not stamped with the upload time"
    if len(set(db.caps.values())) != len(db.caps):
        return "a cap was registered twice"
    # later: the file may have changed; the tool asks again (or asks about another path)
    _Env.now = now + dt
    _Env.stats = {PATH_A: (u_size + d_size, u_mtime + d_mtime, u_ctime + d_ctime), PATH_B: (s_size, s_mtime, s_ctime)}
    if other_path:
        r2 = bdb.check_file(PATH_B, use_timestamps=use_ts2)
        want = CAPS[2] if use_ts2 else False      # b.txt's own record (cap-three), never a.txt's
        if r2.was_uploaded() != want:
            return "another path must be answered from its own record only"
        return True
    r2 = bdb.check_file(PATH_A, use_timestamps=use_ts2)
    same = d_size == 0 and d_mtime == 0 and d_ctime == 0 and use_ts2
    if same:
        if r2.was_uploaded() != cap:
            return "unchanged file: the cap of the MOST RECENT upload must be offered"
        if r2.should_check() is not True:
            return "should_check does not follow the age rule"
        _Env.now = now + dt + 1
        r2.did_check_healthy({})
        r3 = bdb.check_file(PATH_A)
        if r3.was_uploaded() != cap or r3.should_check() is not False:
            return "after a healthy check the cap stays reusable and needs no re-check"
    else:
        if r2.was_uploaded() is not False:
            return "changed file (or untrusted timestamps): the old cap must not be reused"
        if PATH_A in db.local_files:
            return "stale record kept"
    if db.local_files.get(PATH_B) != [s_size, s_mtime, s_ctime, 3]:
        return "record of another path disturbed"
    return True


def h_recheck_rule(age_sel: int, draw_sel: int, directory: bool, size: int, mtime: int, ctime: int) -> bool:
    """
    pre: 0 <= age_sel < len(AGES) and 0 <= draw_sel < len(DRAWS) and size >= 0
    post: _ == True
    """
    age, draw = pick(AGES, age_sel), pick(DRAWS, draw_sel)
    _Env.now, _Env.draw = T0 + age, draw
    if directory:
        _Ideal.table = {}
        db = FakeDB()
        bdb = BD.BackupDB_v2(SQLMOD, db)
        _Env.now = T0
        bdb.check_directory({"a": _X}).did_create(b"URI:DIR2-CHK:d")
        _Env.now = T0 + age
        r = bdb.check_directory({"a": _X})
        if r.was_created() != b"URI:DIR2-CHK:d":
            return "recorded directory not found"
    else:
        db = _db_state(True, size, mtime, ctime, 1, True, True, T0, False)
        _Env.stats = {PATH_A: (size, mtime, ctime)}
        r = BD.BackupDB_v2(SQLMOD, db).check_file(PATH_A)
        if r.was_uploaded() != CAPS[0]:
            return "recorded cap not offered"
    if r.should_check() != _want_should_check(age, draw):
        return "should_check(age=%r, draw=%r) is %r" % (age, draw, r.should_check())
    return True


# ---- directories -----------------------------------------------------------------------------------------

class _Ideal(object):
    table = {}

    @classmethod
    def digest(cls, data):
        data = bytes(data)
        t = cls.table.get(data)
        if t is None:
            n = len(cls.table)
            t = b"\xf5" + bytes([n // 256, n % 256]) + b"#" * 29
            cls.table[data] = t
        return t


class _IdealSha256(object):
    def __init__(self, data=b""):
        self.buf = bytes(data)

    def update(self, data):
        self.buf = self.buf + bytes(data)

    def digest(self):
        return _Ideal.digest(self.buf)


hashutil.hashlib = NS(sha256=_IdealSha256)


def _ns(b):
    return str(len(b)).encode("ascii") + b":" + b + b","


# contents chosen so that sloppy framing / ordering would collide or miss:
#   cap not wrapped:   {"a": X, "b": Y}  vs  {"a": X + ns("b") + Y}
#   name not wrapped:  {"a": X, "b": Y}  vs  {"a" + ns(X) + "b": Y}
#   nothing wrapped:   {"a": X, "b": Y}  vs  {"a": X + b"b" + Y}
#   order dependence:  the same map inserted in the other order must hit
_X, _Y = b"URI:CHK:x", b"URI:CHK:y"
FIRSTS = (
    (("a", _X), ("b", _Y)),
    (("a", _X),),
    (("\u00e9", _Y), ("a", b"")),
)
SECONDS = FIRSTS + (
    (("b", _Y), ("a", _X)),
    (("a", b""), ("\u00e9", _Y)),
    (("a", _X + _ns(b"b") + _Y),),
    (("a" + _ns(_X).decode("ascii") + "b", _Y),),
    (("a", _X + b"b" + _Y),),
    (("a", _X), ("b", _X)),
    (("a", _Y),),
    (("b", _X),),
    (("a", _X), ("b", _Y), ("c", _Y)),
)


def h_directory(fi: int, si: int, recheck: bool) -> bool:
    """
    pre: 0 <= fi < len(FIRSTS) and 0 <= si < len(SECONDS)
    post: _ == True
    """
    _Ideal.table = {}
    first, second = dict(pick(FIRSTS, fi)), dict(pick(SECONDS, si))
    now, dt, draw = T0, MONTH + MONTH // 2, 0.25
    db = FakeDB()
    _Env.now, _Env.draw = now, draw
    bdb = BD.BackupDB_v2(SQLMOD, db)
    r1 = bdb.check_directory(first)
    if r1.was_created() is not False or r1.should_check() is not False:
        return "empty database offered a directory cap"
    r1.did_create(b"URI:DIR2-CHK:first")
    if db.dirty or len(db.directories) != 1:
        return "did_create not recorded / committed"
    _Env.now = now + dt
    r2 = bdb.check_directory(second)
    if first == second:
        if r2.was_created() != b"URI:DIR2-CHK:first":
            return "identical name->cap contents (in any order) must find the recorded directory"
        if r2.should_check() is not True:
            return "should_check does not follow the age rule"
        if recheck:
            _Env.now = now + dt + 1
            r2.did_check_healthy({})
            r3 = bdb.check_directory(first)
            if r3.was_created() != b"URI:DIR2-CHK:first" or r3.should_check() is not False:
                return "after a healthy check the directory stays reusable and needs no re-check"
    else:
        if r2.was_created() is not False:
            return "directory cap reused for different contents: %r vs %r" % (first, second)
        r2.did_create(b"URI:DIR2-CHK:second")
        if len(db.directories) != 2:
            return "different contents must get their own record"
        if bdb.check_directory(first).was_created() != b"URI:DIR2-CHK:first":
            return "first record lost"
    return True


PATH_C = "/backup/src/c.txt"


def h_two_uploads(st: int, capa: int, capb: int, third: bool, a_size: int, a_mtime: int, b_size: int, b_mtime: int) -> bool:
    """
    pre: 0 <= st <= 2 and 0 <= capa <= 2 and 0 <= capb <= 2 and a_size >= 0 and b_size >= 0
    post: _ == True
    """
    # one backup run uploads two files; the second cap may be one the database already knows (same content as the first file,
    # or as an earlier upload): each path must afterwards be answered with ITS OWN cap
    fid = 1
    now = T0
    db = _db_state(st != 0, 1, 2, 3, fid, st == 1, st == 1, now - 100, True)
    second = PATH_C if third else PATH_B
    _Env.stats = {PATH_A: (a_size, a_mtime, 30), PATH_B: (b_size, b_mtime, 40), PATH_C: (b_size, b_mtime, 40)}
    _Env.now, _Env.draw = now, 0.25
    bdb = BD.BackupDB_v2(SQLMOD, db)
    ca, cb = pick(CAPS, capa), pick(CAPS, capb)
    bdb.check_file(PATH_A).did_upload(ca)
    bdb.check_file(second).did_upload(cb)
    if db.dirty:
        return "uploads not committed"
    ra, rb = bdb.check_file(PATH_A), bdb.check_file(second)
    if ra.was_uploaded() != ca:
        return "first file answered with %r, uploaded as %r" % (ra.was_uploaded(), ca)
    if rb.was_uploaded() != cb:
        return "second file answered with %r, uploaded as %r" % (rb.was_uploaded(), cb)
    caps = db.caps
    if len(set(caps.values())) != len(caps):
        return "a cap was registered twice"
    lf = db.local_files
    if caps.get(lf[PATH_A][3]) != ca or caps.get(lf[second][3]) != cb:
        return "a path is linked to another file's cap"
    if not third and PATH_C in lf:
        return "unexpected record"
    return True


# short names / caps over a shared alphabet: the lookup key must be injective in the (name, cap) pairs, e.g. {"ab": "c"} vs {"a": "bc"}
NAMES2 = ("a", "ab", "b", "a1:")
CAPS2 = (b"", b"b", b"bc", b"c", b"a", b"1:b,", b"b,1:")


def h_directory_pairs(n1: int, c1: int, n2: int, c2: int, extra: bool) -> bool:
    """
    pre: 0 <= n1 < len(NAMES2) and 0 <= n2 < len(NAMES2) and 0 <= c1 < len(CAPS2) and 0 <= c2 < len(CAPS2)
    pre: B.get("names2") is None or (n1 in B["names2"] and n2 in B["names2"])
    pre: B.get("caps2") is None or (c1 in B["caps2"] and c2 in B["caps2"])
    post: _ == True
    """
    _Ideal.table = {}
    first = {pick(NAMES2, n1): pick(CAPS2, c1)}
    second = {pick(NAMES2, n2): pick(CAPS2, c2)}
    if extra:
        first["z"] = b"zz"
        second["z"] = b"zz"
    db = FakeDB()
    _Env.now, _Env.draw = T0, 0.25
    bdb = BD.BackupDB_v2(SQLMOD, db)
    bdb.check_directory(first).did_create(b"URI:DIR2-CHK:first")
    r2 = bdb.check_directory(second)
    if first == second:
        if r2.was_created() != b"URI:DIR2-CHK:first":
            return "identical contents must find the recorded directory"
    elif r2.was_created() is not False:
        return "directory cap reused for different contents: %r vs %r" % (first, second)
    return True


def h_forgotten_cap(prune_lu: bool, newcap: int, n_new: int, b_size: int, b_mtime: int, b_ctime: int, touch_b: bool) -> bool:
    """
    pre: 0 <= newcap <= 2 and 1 <= n_new <= 2 and b_size >= 0
    post: _ == True
    """
    # b.txt was uploaded (its cap has the highest fileid), then its caps row is lost / pruned ("we somehow forgot where we put the file");
    # before b.txt is looked at again other files are uploaded. b.txt must then be answered with False (upload again) - or its own cap -
    # never with another file's cap.
    db = FakeDB()
    _Env.now, _Env.draw = T0, 0.25
    _Env.stats = {PATH_A: (1, 2, 3), PATH_B: (b_size, b_mtime, b_ctime), PATH_C: (4, 5, 6)}
    bdb = BD.BackupDB_v2(SQLMOD, db)
    own = b"URI:CHK:b-own-cap"
    bdb.check_file(PATH_A).did_upload(CAPS[0])
    bdb.check_file(PATH_B).did_upload(own)
    fid_b = db.local_files[PATH_B][3]
    if db.caps.get(fid_b) != own:
        return "upload record"
    db.execute("DELETE FROM caps WHERE fileid=?", (fid_b,))
    if prune_lu:
        db.execute("DELETE FROM last_upload WHERE fileid=?", (fid_b,))
    db.commit()
    # the next run uploads one or two other files with caps the database has (not) seen
    bdb.check_file(PATH_C).did_upload(pick(CAPS, newcap))
    if n_new == 2:
        if touch_b:
            _Env.stats[PATH_A] = (7, 8, 9)
        bdb.check_file(PATH_A).did_upload(b"URI:CHK:another-new-cap")
    got = bdb.check_file(PATH_B).was_uploaded()
    if got is not False and got != own:
        return "b.txt answered with another file's cap %r" % (got,)
    if got is not False:
        return "the cap of b.txt was forgotten: it must be uploaded again"
    return True


# ---- the caller: tahoe_backup.BackerUpper.check_backupdb_file ------------------------------------------------------------------
from allmydata.scripts import tahoe_backup as TB, cli as _cli
hlib.encoded(TB.BackerUpper.check_backupdb_file)
NOTES.append("backup tool obligation: options come from the real cli.BackupOptions().parseOptions([...]) (parent options and node directory "
             "hand-built, --node-url given) or are hand-built dicts; the backupdb is a recorder; tahoe_backup.do_http returns a canned check response")


class _RecBackupDB(object):
    def __init__(self, cap, should_check):
        self.calls = []
        self.cap, self.sc = cap, should_check
        self.healthy_calls = 0

    def check_file(self, path, use_timestamps=True):
        self.calls.append((path, use_timestamps))
        outer = self
        return NS(was_uploaded=lambda: (outer.cap if outer.cap else False), should_check=lambda: outer.sc,
                  did_check_healthy=lambda results: setattr(outer, "healthy_calls", outer.healthy_calls + 1))


def _parse_backup_options(with_flag):
    o = _cli.BackupOptions()
    o.parent = {"quiet": 0, "node-directory": "/nonexistent/node/directory"}
    argv = ["--node-url", "http://127.0.0.1:3456"] + (["--ignore-timestamps"] if with_flag else []) + ["/backup/src", "tahoe:backups"]
    o.parseOptions(argv)
    return o


# the REAL option parser, run once at import (twisted.python.usage cannot run under CrossHair's tracer: AttributeError in its proxy
# machinery); check_backupdb_file only reads the options
_PARSED = (_parse_backup_options(True), _parse_backup_options(False))


def _backup_options(src):
    """(options, whether --ignore-timestamps was requested)"""
    if src == 0:
        return _PARSED[0], True
    if src == 1:
        return _PARSED[1], False
    val = pick((True, False, 1, 0), src - 2)        # hand-built options, and the 1/0 twisted.python.usage stores for flags
    return {"ignore-timestamps": val, "node-url": "http://127.0.0.1:3456/", "verbose": 0, "quiet": 0}, bool(val)


def h_backup_tool(src: int, has_cap: bool, should_check: bool, http_ok: bool, healthy: bool) -> bool:
    """
    pre: 0 <= src <= 5
    post: _ == True
    """
    options, ignore = _backup_options(src)
    bu = TB.BackerUpper(options)
    bu.verbosity = 0
    bu.verboseprint = lambda *a, **kw: None
    db = _RecBackupDB(b"URI:CHK:recorded" if has_cap else None, should_check)
    bu.backupdb = db
    posted = []

    def fake_http(method, url, body=b""):
        posted.append((method, url))
        body = b'{"results": {"healthy": %s}}' % (b"true" if healthy else b"false")
        return NS(status=200 if http_ok else 500, read=lambda: body)
    saved = TB.do_http
    TB.do_http = fake_http
    try:
        (must_upload, r) = bu.check_backupdb_file("/backup/src/a.txt")
    finally:
        TB.do_http = saved
    if len(db.calls) != 1 or db.calls[0][0] != "/backup/src/a.txt":
        return "backupdb not asked exactly once about the path"
    ut = db.calls[0][1]
    if bool(ut) != (not ignore):
        return "use_timestamps=%r passed to check_file although --ignore-timestamps was %sgiven (option value %r)" % (
            ut, "" if ignore else "not ", options["ignore-timestamps"])
    # reuse only when the database offers a cap and (no check needed, or the check says healthy)
    want_upload = (not has_cap) or (should_check and not (http_ok and healthy))
    if must_upload != want_upload:
        return "must_upload=%r, expected %r" % (must_upload, want_upload)
    if has_cap and should_check:
        if len(posted) != 1 or b"URI%3ACHK%3Arecorded" not in posted[0][1].encode("ascii") or "t=check" not in posted[0][1]:
            return "check request: %r" % (posted,)
        if db.healthy_calls != (1 if (http_ok and healthy) else 0):
            return "did_check_healthy calls"
    elif posted:
        return "unexpected check request"
    return True
