"""
C08 — the servers-of-happiness number is the size of a maximum server/share matching
and does not depend on iteration order.

Inputs are relations (dicts of sets): CrossHair realises every relation bit, so these
are path-per-input obligations (DESIGN 1.4).  Each path builds one concrete relation
from symbolic booleans, a dict insertion order and a peer labelling from symbolic
permutation indices, runs the REAL functions, and compares with a z3-decided optimum
(harness/_matching.py: SAT(size h) and UNSAT(size h+1) over Boolean edge variables).
"""
from vlib import hlib
from vlib.hlib import assume
import _matching as M
from allmydata.util import happinessutil as HU
from allmydata.immutable import happiness_upload as HP

B = hlib.bounds()
NOTES = [
    "peer ids are distinct ints 100+8p: deterministic across processes, and colliding in small hash tables so that set "
    "iteration order follows insertion order (real server ids are bytes; the code under test never looks inside an id)",
    "relation-shaped obligations: after the solver-decided forks have fixed every input bit, the real function is run on the "
    "realised plain-Python input with CrossHair's opcode tracing off (_matching.run_concrete refuses non-builtin values); "
    "traced and untraced execution coincide on concrete data",
    "maximum-matching oracle: z3 query per path in a private context, run with CrossHair tracing off on the realised relation",
]
hlib.encoded(HU.servers_of_happiness, HU.shares_by_server, HU._flow_network_for, HU._reindex, HU.merge_servers,
             HP.residual_network, HP.augmenting_path_for, HP.bfs, HP._compute_maximum_graph,
             HP._calculate_mappings, HP._servermap_flow_graph, HP._flow_network, HP._reindex,
             HP._convert_mappings, HP.calculate_happiness)

P = int(B.get("P", 3))
S = int(B.get("S", 3))
FIX = B.get("fix") or []
SPERMS = M.perms(S)
PPERMS = M.perms(P)
SORDERS = B.get("sorders")          # None = every share insertion order; else a list of indices into SPERMS
# peer ids: 100, 108, 116, ... collide in CPython's small-set hash table, so the iteration order of a set of
# them depends on the order of insertion (checked at import); `srev` reverses it for the odd shares.
LABEL = [100 + 8 * p for p in range(4)] + [100 + 8 * 4]
if list(set([LABEL[0], LABEL[1]])) == list(set([LABEL[1], LABEL[0]])):
    NOTES.append("set iteration order did not vary with insertion order on this interpreter")


def _sorder_ok(sorder):
    if SORDERS is None:
        return 0 <= sorder < len(SPERMS)
    ok = False
    for i in SORDERS:
        if sorder == i % len(SPERMS):
            ok = True
    return ok


SREV_ONLY = B.get("srev_only")     # None = reversed holder sets under every insertion order, else only under these


def _srev_ok(sorder, srev):
    if SREV_ONLY is None or not srev:
        return True
    ok = False
    for i in SREV_ONLY:
        if sorder == i:
            ok = True
    return ok


def _pre(bits, sorder, srev):
    return M.bits_zero_beyond(bits, P * S) and M.bits_fixed(bits, FIX) and _sorder_ok(sorder) and _srev_ok(sorder, srev)


def _edges(rel):
    return [(LABEL[p], s) for p in range(P) for s in rel[p]]


def _sharemap(rel, sperm, srev):
    """share -> set(peer id) dict; keys inserted in the order sperm; holder sets filled in ascending peer
    order, or descending for odd shares when srev."""
    sm = {}
    for s in sperm:
        order = list(range(P))
        if srev and s % 2 == 1:
            order.reverse()
        holders = set()
        for p in order:
            if s in rel[p]:
                holders.add(LABEL[p])
        if holders:
            sm[s] = holders
    return sm


def _copy(sm):
    return dict((k, set(v)) for k, v in sm.items())


def _soh_check(rel, sperm, rev, gap):
    """untraced, on realised input: build the sharemap, run the real function, compare with the z3 optimum."""
    rel = [set(r) for r in rel]
    sperm = list(sperm)
    if gap:
        # share numbers with holes (1, 4, 7, ...): the flow network must re-index them
        rel = [set(3 * s + 1 for s in row) for row in rel]
        sperm = [3 * s + 1 for s in sperm]
    want = M.max_matching_z3(_edges(rel))
    sm = _sharemap(rel, sperm, rev)
    before = _copy(sm)
    got = HU.servers_of_happiness(sm)
    if got != want:
        return "servers_of_happiness=%r but the maximum matching has size %r" % (got, want)
    if sm != before:
        return "servers_of_happiness mutated its argument"
    return True


def h_soh(b0: bool, b1: bool, b2: bool, b3: bool, b4: bool, b5: bool, b6: bool, b7: bool,
          b8: bool, b9: bool, b10: bool, b11: bool, b12: bool, b13: bool, b14: bool, b15: bool,
          sorder: int, srev: bool, gap: bool) -> bool:
    """
    pre: _pre([b0, b1, b2, b3, b4, b5, b6, b7, b8, b9, b10, b11, b12, b13, b14, b15], sorder, srev or gap)
    pre: (not gap) or (not srev)
    post: _ == True
    """
    bits = [b0, b1, b2, b3, b4, b5, b6, b7, b8, b9, b10, b11, b12, b13, b14, b15]
    rel = M.rel_from_bits(bits, P, S)
    sperm = M.pick(SPERMS, sorder)
    rev = True if srev else False
    g = True if gap else False
    return M.run_concrete(_soh_check, rel, sperm, rev, g)


class _Tracker(object):
    def __init__(self, sid, shares):
        self.sid = sid
        self.buckets = dict((s, None) for s in sorted(shares))

    def get_serverid(self):
        return self.sid

    def __hash__(self):            # deterministic set order across processes (default hash is the address)
        return self.sid

    def __eq__(self, other):
        return isinstance(other, _Tracker) and other.sid == self.sid


def _merge_check(rel, trel):
    rel = [set(r) for r in rel]
    trel = [set(r) for r in trel]
    TP = len(trel)
    # tracker 0 is the last server of the pre-existing relation (a server can both hold old shares and accept
    # new ones), tracker 1.. are servers without pre-existing shares
    tid = [LABEL[P - 1 + q] for q in range(TP)]
    pre = _sharemap(rel, list(range(S)), False)
    before = _copy(pre)
    trackers = set()
    for q in range(TP):
        if trel[q]:
            trackers.add(_Tracker(tid[q], trel[q]))
    merged = HU.merge_servers(pre, trackers)
    if pre != before:
        return "merge_servers mutated the map of pre-existing shares"
    edges = set(_edges(rel))
    for q in range(TP):
        for s in trel[q]:
            edges.add((tid[q], s))
    model = {}
    for (srv, s) in edges:
        model.setdefault(s, set()).add(srv)
    if merged != model:
        return "merge_servers is not the union of pre-existing and tracker buckets"
    got = HU.servers_of_happiness(merged)
    want = M.max_matching_z3(edges)
    if got != want:
        return "happiness of merged map %r != maximum matching %r" % (got, want)
    return True


def h_merge_soh(b0: bool, b1: bool, b2: bool, b3: bool, b4: bool, b5: bool, b6: bool, b7: bool,
                b8: bool, b9: bool, b10: bool, b11: bool, b12: bool, b13: bool, b14: bool, b15: bool,
                t0: bool, t1: bool, t2: bool, t3: bool, t4: bool, t5: bool, t6: bool, t7: bool, t8: bool) -> bool:
    """
    pre: M.bits_zero_beyond([b0, b1, b2, b3, b4, b5, b6, b7, b8, b9, b10, b11, b12, b13, b14, b15], P * S)
    pre: M.bits_fixed([b0, b1, b2, b3, b4, b5, b6, b7, b8, b9, b10, b11, b12, b13, b14, b15], FIX)
    pre: M.bits_zero_beyond([t0, t1, t2, t3, t4, t5, t6, t7, t8], B.get("TP", 2) * S)
    post: _ == True
    """
    # pre-existing shares (relation bits b) merged with upload trackers (bits t: tracker q has a bucket for share s)
    rel = M.rel_from_bits([b0, b1, b2, b3, b4, b5, b6, b7, b8, b9, b10, b11, b12, b13, b14, b15], P, S)
    trel = M.rel_from_bits([t0, t1, t2, t3, t4, t5, t6, t7, t8], int(B.get("TP", 2)), S)
    return M.run_concrete(_merge_check, rel, trel)


def _calc_check(rel, pperm, extra):
    rel = [set(r) for r in rel]
    # peers/shares: all P peers in insertion order pperm (ids collide => set order follows insertion), all S shares;
    # with `extra` also one peer without shares and one share nobody holds
    peers_arg = set()
    for p in pperm:
        peers_arg.add(LABEL[p])
    shares = list(range(S))
    if extra:
        peers_arg.add(LABEL[P])
        shares.append(S)
    servermap = {}
    for p in pperm:
        if rel[p]:
            servermap[LABEL[p]] = set(rel[p])
    shares_arg = set(shares)
    res = HP._calculate_mappings(peers_arg, shares_arg, servermap)
    if set(res.keys()) != set(shares):
        return "result keys are not exactly the shares"
    pairs = []
    for s, v in res.items():
        if v is None:
            continue
        if not isinstance(v, set) or len(v) != 1:
            return "a mapped share must map to a one-element set"
        pairs.append((list(v)[0], s))
    edges = _edges(rel)
    if not M.is_matching(pairs, edges):
        return "result is not a matching of the servermap: %r" % (pairs,)
    want = M.max_matching_z3(edges)
    if len(pairs) != want:
        return "matching has size %d, maximum is %d" % (len(pairs), want)
    if HP.calculate_happiness(dict((s, p) for (p, s) in pairs)) != want:
        return "calculate_happiness of the matching is not its size"
    return True


def h_calc_mappings(b0: bool, b1: bool, b2: bool, b3: bool, b4: bool, b5: bool, b6: bool, b7: bool,
                    b8: bool, b9: bool, b10: bool, b11: bool, b12: bool, b13: bool, b14: bool, b15: bool,
                    porder: int, extra: bool) -> bool:
    """
    pre: M.bits_zero_beyond([b0, b1, b2, b3, b4, b5, b6, b7, b8, b9, b10, b11, b12, b13, b14, b15], P * S)
    pre: M.bits_fixed([b0, b1, b2, b3, b4, b5, b6, b7, b8, b9, b10, b11, b12, b13, b14, b15], FIX)
    pre: 0 <= porder < len(PPERMS)
    pre: b0 or b1 or b2 or b3 or b4 or b5 or b6 or b7 or b8 or b9 or b10 or b11 or b12 or b13 or b14 or b15
    post: _ == True
    """
    # happiness_upload._calculate_mappings(peers, shares, servermap): the non-None part of the result is a
    # maximum matching of the servermap restricted to peers x shares.  (An empty servermap is falsy and
    # selects the complete-graph branch: h_calc_mappings_new.)
    bits = [b0, b1, b2, b3, b4, b5, b6, b7, b8, b9, b10, b11, b12, b13, b14, b15]
    rel = M.rel_from_bits(bits, P, S)
    pperm = M.pick(PPERMS, porder)
    ex = True if extra else False
    return M.run_concrete(_calc_check, rel, pperm, ex)


def h_calc_mappings_new(npeers: int, nshares: int, porder: int) -> bool:
    """
    pre: 0 <= npeers <= B.get("NP", 4) and 0 <= nshares <= B.get("NS", 4) and 0 <= porder <= 1
    post: _ == True
    """
    # servermap=None: complete bipartite graph; min(|peers|,|shares|) shares are mapped to distinct peers.
    # (traced execution: the sizes stay symbolic until the loops realise them)
    peers = set()
    for i in range(B.get("NP", 4)):
        if i < npeers:
            peers.add(100 + (i if porder == 0 else (7 * i) % 11))
    shares = set()
    for i in range(B.get("NS", 4)):
        if i < nshares:
            shares.add(i)
    res = HP._calculate_mappings(peers, shares)
    if len(peers) == 0 or len(shares) == 0:
        # degenerate graph: must not invent peers
        for s, v in res.items():
            if v is not None and not set(v) <= peers:
                return "invented a peer"
        return True
    if set(res.keys()) != shares:
        return "result keys are not exactly the shares"
    used = []
    for s, v in res.items():
        if v is None:
            continue
        if len(v) != 1 or not v <= peers:
            return "bad mapping value"
        used.append(list(v)[0])
    if len(set(used)) != len(used):
        return "a peer is used twice in the matching phase"
    want = M.max_matching_z3([(p, s) for p in peers for s in shares])
    if len(used) != want or want != min(len(peers), len(shares)):
        return "matched %d, maximum %d" % (len(used), want)
    return True


# ---- helpers: bfs / augmenting_path_for / residual_network on arbitrary small digraphs ---------

N = int(B.get("N", 4))


def _graph_from_bits(bits, n):
    g = []
    k = 0
    for i in range(n):
        row = []
        for j in range(n):
            if i != j:
                if bits[k]:
                    row.append(j)
                k += 1
        g.append(row)
    return g


def _dist(g, s):
    """independent model: distances by repeated relaxation (Bellman-Ford style), no queue."""
    n = len(g)
    INF = n + 5
    d = [INF] * n
    d[s] = 0
    for _ in range(n):
        for u in range(n):
            for v in g[u]:
                if d[u] + 1 < d[v]:
                    d[v] = d[u] + 1
    return d, INF


def h_bfs(e0: bool, e1: bool, e2: bool, e3: bool, e4: bool, e5: bool, e6: bool, e7: bool, e8: bool, e9: bool,
          e10: bool, e11: bool, rev: bool, src: int) -> bool:
    """
    pre: M.bits_zero_beyond([e0, e1, e2, e3, e4, e5, e6, e7, e8, e9, e10, e11], N * (N - 1))
    pre: 0 <= src < N
    pre: B.get("src") is None or src == B.get("src")
    post: _ == True
    """
    g = _graph_from_bits([e0, e1, e2, e3, e4, e5, e6, e7, e8, e9, e10, e11], N)
    if rev:
        g = [list(reversed(r)) for r in g]
    s = M.pick(list(range(N)), src)
    g0 = [list(r) for r in g]
    pred = HP.bfs(g, s)
    if g != g0:
        return "bfs mutated the graph"
    d, INF = _dist(g, s)
    if len(pred) != N:
        return "predecessor table has wrong length"
    for v in range(N):
        if v == s or d[v] == INF:
            if pred[v] is not None:
                return "unreachable vertex (or the source) has a predecessor"
        else:
            u = pred[v]
            if u is None:
                return "reachable vertex has no predecessor"
            if v not in g[u]:
                return "predecessor edge is not in the graph"
            if d[u] + 1 != d[v]:
                return "predecessor is not on a shortest path"
    return True


def h_augpath(e0: bool, e1: bool, e2: bool, e3: bool, e4: bool, e5: bool, e6: bool, e7: bool, e8: bool, e9: bool,
              e10: bool, e11: bool, rev: bool) -> bool:
    """
    pre: M.bits_zero_beyond([e0, e1, e2, e3, e4, e5, e6, e7, e8, e9, e10, e11], N * (N - 1))
    post: _ == True
    """
    g = _graph_from_bits([e0, e1, e2, e3, e4, e5, e6, e7, e8, e9, e10, e11], N)
    # flow networks built by this code never have an edge source->sink (the sink's only neighbours are shares)
    assume((N - 1) not in g[0])
    if rev:
        g = [list(reversed(r)) for r in g]
    path = HP.augmenting_path_for(g)
    d, INF = _dist(g, 0)
    if d[N - 1] == INF:
        if path is not False:
            return "path reported although the sink is unreachable"
        return True
    if not path:
        return "no path reported although the sink is reachable"
    if path[0][0] != 0 or path[-1][1] != N - 1:
        return "path does not run from source to sink"
    for i, (u, v) in enumerate(path):
        if v not in g[u]:
            return "path uses a non-edge"
        if i > 0 and path[i - 1][1] != u:
            return "path edges are not consecutive"
    if len(path) != d[N - 1]:
        return "path is not a shortest one (Edmonds-Karp needs BFS order)"
    return True


def h_residual(e0: bool, e1: bool, e2: bool, e3: bool, e4: bool, e5: bool,
               f0: bool, f1: bool, f2: bool, f3: bool, f4: bool, f5: bool) -> bool:
    """
    pre: True
    post: _ == True
    """
    # 3-vertex digraph (6 possible edges), flow 0/1 on each existing edge (f[i][v]=1 => f[v][i]=-1).
    n = 3
    g = _graph_from_bits([e0, e1, e2, e3, e4, e5], n)
    fb = [f0, f1, f2, f3, f4, f5]
    f = [[0] * n for _ in range(n)]
    k = 0
    for i in range(n):
        for j in range(n):
            if i != j:
                if fb[k]:
                    assume(j in g[i])          # flow only on edges
                    assume(f[i][j] == 0)       # not on both directions of a 2-cycle
                    f[i][j] = 1
                    f[j][i] = -1
                k += 1
    for i in range(n):
        for j in g[i]:
            assume(i not in g[j])              # flow networks here are layered DAGs: no 2-cycles
    g0 = [list(r) for r in g]
    f_before = [list(r) for r in f]
    rg, cf = HP.residual_network(g, f)
    if g != g0 or f != f_before:
        return "arguments mutated"
    if len(rg) != n or len(cf) != n:
        return "wrong dimensions"
    for i in range(n):
        for j in range(n):
            if i == j:
                continue
            fwd = (j in g[i]) and f[i][j] != 1        # unused capacity on edge (i,j)
            back = (i in g[j]) and f[j][i] == 1       # flow on edge (j,i) can be cancelled
            want = 1 if (fwd or back) else 0
            if rg[i].count(j) != want:
                return "residual edge (%d,%d) multiplicity %d, expected %d" % (i, j, rg[i].count(j), want)
            if want and (cf[i][j] != 1 or cf[j][i] != -1):
                return "residual capacity of a residual edge is not +1/-1"
    return True
