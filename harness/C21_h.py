"""
C21 — deep traversal visits every reachable object exactly once (path-per-input).

Real code executed: DirectoryNode.deep_traverse / _deep_traverse_dirnode / _deep_traverse_dirnode_children / build_manifest /
start_deep_stats, ManifestWalker, DeepStats (add_node, enter_directory, get_results), Monitor.

The graph is small (<= 3 objects in quick, 4 in thorough) and given by symbolic adjacency bits; node kinds are fixed per case.
Directory objects are instances of the real DirectoryNode class whose list() returns an already-fired Deferred with the
children dict (the mutable-file read and unpacking are C19).
"""
from vlib import hlib
from vlib.hlib import NS, assume
hlib.ensure_shims()
from zope.interface import implementer
from twisted.internet import defer
import _dirfix as F
from allmydata import dirnode as D, deep_stats, monitor as monitor_mod, uri as uri_mod
from allmydata.interfaces import IImmutableFileNode, IMutableFileNode
from allmydata.unknown import UnknownNode

B = hlib.bounds()
NOTES = [
    "directories are real DirectoryNode instances with list() overridden to return defer.succeed(children) (no backing mutable file); get_verify_cap/get_uri/"
    "get_storage_index/get_size return per-object tokens; two node objects may share a verify cap (the same object linked through write cap and read cap)",
    "files are token nodes providing IImmutableFileNode (CHK: has a verify cap; LIT: verify cap None) or IMutableFileNode; unknown children are real UnknownNode instances",
    "fireEventually is never reached (it is used once per 100 files in one directory)",
]
hlib.encoded(D.DirectoryNode.deep_traverse, D.DirectoryNode._deep_traverse_dirnode, D.DirectoryNode._deep_traverse_dirnode_children,
             D.DirectoryNode.build_manifest, D.DirectoryNode.start_deep_stats, D.ManifestWalker, deep_stats.DeepStats.add_node,
             deep_stats.DeepStats.enter_directory, deep_stats.DeepStats.get_results, monitor_mod.Monitor.finish)


class _V(object):
    """verify cap token: hashable, equal by identity of the underlying object"""

    def __init__(self, ident):
        self.ident = ident

    def __eq__(self, other):
        return isinstance(other, _V) and other.ident == self.ident

    def __ne__(self, other):
        return not self.__eq__(other)

    def __hash__(self):
        # a plain concrete int: the builtin hash() is intercepted under CrossHair and may hand back a symbolic value, which
        # C-level set construction ({x}, BUILD_SET) rejects ("__hash__ method should return an integer")
        return 7919 + self.ident

    def to_string(self):
        return b"URI:VERIFY:%d" % self.ident

    def __repr__(self):
        return "<V%d>" % self.ident


class _TDir(D.DirectoryNode):
    def __init__(self, ident, obj, lit=False):
        self.ident, self.obj = ident, obj      # ident: node object, obj: underlying storage object (shared by aliases)
        self.lit = lit                         # a literal (DIR2-LIT) immutable directory: no verify cap, no storage index
        self.kids = {}
        self.list_calls = 0

    def list(self):
        self.list_calls += 1
        return defer.succeed(dict(self.kids))

    def get_verify_cap(self):
        return None if self.lit else _V(self.obj)

    def get_uri(self):
        return (b"URI:DIR2-LIT:node%d-obj%d" if self.lit else b"URI:DIR2:node%d-obj%d") % (self.ident, self.obj)

    def get_storage_index(self):
        return None if self.lit else b"SI-%02d" % self.obj + b"-" * 11

    def get_size(self):
        return 100 + self.obj

    def __repr__(self):
        return "<_TDir %d/%d>" % (self.ident, self.obj)


_CHK = F.CAPS["chk"][1]
_LIT = F.CAPS["lit"][1]


class _TFile(object):
    def __init__(self, ident, obj, lit=False):
        self.ident, self.obj, self.lit = ident, obj, lit

    def get_verify_cap(self):
        return None if self.lit else _V(self.obj)

    def get_uri(self):
        return _LIT if self.lit else _CHK

    def get_storage_index(self):
        return None if self.lit else b"SI-%02d" % self.obj + b"-" * 11

    def get_size(self):
        return 5 if self.lit else 1000 + self.obj

    def __repr__(self):
        return "<_TFile %d/%d>" % (self.ident, self.obj)


@implementer(IImmutableFileNode)
class _ImmFile(_TFile):
    pass


@implementer(IMutableFileNode)
class _MutFile(_TFile):
    pass


class _RecWalker(object):
    def __init__(self):
        self.added = []
        self.entered = []
        self.finished = 0
        self.monitor = None

    def set_monitor(self, m):
        self.monitor = m

    def add_node(self, node, path):
        self.added.append((node, list(path)))

    def enter_directory(self, parent, children):
        self.entered.append((parent, dict(children)))

    def finish(self):
        self.finished += 1
        return "done"


# node kinds: 'D' directory, 'E' literal immutable directory (no verify cap; may only hold immutable files), 'C' immutable CHK file,
# 'M' mutable file, 'L' literal file, 'U' unknown
def _build(kinds, bits, alias_bits):
    """nodes[0] is the root directory. bits[i][j]: directory i links object j under the name 'e<i><j>'.
    alias_bits[i][j]: directory i ALSO links a second node object for object j (same verify cap) under 'a<i><j>'."""
    n = len(kinds)
    nodes = []
    for (i, k) in enumerate(kinds):
        if k == "D":
            nodes.append(_TDir(i, i))
        elif k == "E":
            nodes.append(_TDir(i, i, lit=True))
        elif k == "C":
            nodes.append(_ImmFile(i, i))
        elif k == "M":
            nodes.append(_MutFile(i, i))
        elif k == "L":
            nodes.append(_ImmFile(i, i, lit=True))
        else:
            nodes.append(UnknownNode(None, b"ro.lafs://unknown-%d" % i))
    aliases = {}
    for i in range(n):
        if kinds[i] not in ("D", "E"):
            continue
        for j in range(n):
            if bits[i][j]:
                nodes[i].kids["e%d%d" % (i, j)] = (nodes[j], {})
            if alias_bits[i][j] and kinds[j] in ("D", "C", "M"):
                if j not in aliases:
                    if kinds[j] == "D":
                        al = _TDir(100 + j, j)
                        al.kids = nodes[j].kids       # the same directory: same children
                    elif kinds[j] == "C":
                        al = _ImmFile(100 + j, j)
                    else:
                        al = _MutFile(100 + j, j)
                    aliases[j] = al
                nodes[i].kids["a%d%d" % (i, j)] = (aliases[j], {})
    return nodes, aliases


def _resolve(root, path):
    """follow the names of `path` from the root through the directories' children; None if it does not resolve"""
    cur = root
    for name in path:
        if not isinstance(cur, _TDir) or name not in cur.kids:
            return None
        cur = cur.kids[name][0]
    return cur


def _model_reachable(kinds, bits, alias_bits):
    """objects reachable from object 0 (an alias link reaches the same object), by plain fixpoint iteration"""
    n = len(kinds)
    reach = [False] * n
    reach[0] = True
    changed = True
    while changed:
        changed = False
        for i in range(n):
            if reach[i] and kinds[i] in ("D", "E"):
                for j in range(n):
                    if (bits[i][j] or (alias_bits[i][j] and kinds[j] in ("D", "C", "M"))) and not reach[j]:
                        reach[j] = True
                        changed = True
    return reach


def _visits(kinds, bits, reach):
    """visits[j]: how often object j is walked. Objects with a verify cap: once if reachable. Objects without one (literal files and
    directories, unknown caps) cannot be recognised again: once per link from each visit of a linking directory (literal directories hold
    immutable files only, so this terminates)."""
    n = len(kinds)
    visits = [0] * n
    for j in range(n):
        if reach[j] and kinds[j] in ("D", "C", "M"):
            visits[j] = 1
    # literal directories are only linked from 'D' directories here; then their children
    for j in range(n):
        if kinds[j] == "E":
            visits[j] = sum(1 for i in range(n) if reach[i] and kinds[i] == "D" and bits[i][j])
    for j in range(n):
        if kinds[j] in ("L", "U"):
            visits[j] = sum(visits[i] for i in range(n) if kinds[i] in ("D", "E") and bits[i][j])
    return visits


def _check(kinds, bits, alias_bits, walker_kind):
    n = len(kinds)
    nodes, aliases = _build(kinds, bits, alias_bits)
    root = nodes[0]
    reach = _model_reachable(kinds, bits, alias_bits)
    if walker_kind == 0:
        w = _RecWalker()
        mon = root.deep_traverse(w)
        if not mon.is_finished() or w.finished != 1 or mon.get_status() != "done":
            return "traversal did not finish (cycle?): %r" % (mon.get_status(),)
        added = w.added
    elif walker_kind == 1:
        mon = root.build_manifest()
        if not mon.is_finished():
            return "traversal did not finish (cycle?): %r" % (mon.get_status(),)
        res = mon.get_status()
        if not isinstance(res, dict):
            return "manifest failed: %r" % (res,)
        added = None
    else:
        mon = root.start_deep_stats()
        if not mon.is_finished():
            return "traversal did not finish (cycle?): %r" % (mon.get_status(),)
        res = {"stats": mon.get_status()}
        if not isinstance(res["stats"], dict):
            return "deep-stats failed: %r" % (res["stats"],)
        added = None
    # the model's expectation
    visits = _visits(kinds, bits, reach)
    want_dirs = [j for j in range(n) if reach[j] and kinds[j] == "D"]
    want_ver = [j for j in range(n) if reach[j] and kinds[j] in ("D", "C", "M")]        # objects with a verify cap: exactly once
    want_lit = sum(visits[j] for j in range(n) if kinds[j] == "L")
    want_unk = sum(visits[j] for j in range(n) if kinds[j] == "U")
    want_ldir = sum(visits[j] for j in range(n) if kinds[j] == "E")
    if added is not None:
        seen = {}
        nolink = 0
        for (node, path) in added:
            target = _resolve(root, path)
            if target is None:
                return "reported path %r does not resolve" % (path,)
            if target is not node:
                return "reported path %r leads to %r, not to the reported %r" % (path, target, node)
            if isinstance(node, UnknownNode) or node.get_verify_cap() is None:
                nolink += 1
                continue
            seen[node.obj] = seen.get(node.obj, 0) + 1
        for j in want_ver:
            if seen.get(j, 0) != 1:
                return "object %d (%s) reported %d times" % (j, kinds[j], seen.get(j, 0))
        if sorted(seen.keys()) != want_ver:
            return "unreachable object reported: %r vs %r" % (sorted(seen.keys()), want_ver)
        if nolink != want_lit + want_unk + want_ldir:
            return "literal/unknown children: %d reports for %d links" % (nolink, want_lit + want_unk + want_ldir)
        ent = sorted(p.obj for (p, ch) in w.entered)
        want_ent = sorted(want_dirs + [j for j in range(n) if kinds[j] == "E" for _ in range(visits[j])])
        if ent != want_ent:
            return "enter_directory called for %r, expected %r" % (ent, want_ent)
        for j in range(n):
            if kinds[j] in ("D", "E"):
                lc = nodes[j].list_calls + (aliases[j].list_calls if j in aliases else 0)
                if lc != visits[j]:
                    return "directory %d listed %d times, expected %d" % (j, lc, visits[j])
        if added[0][0] is not root or added[0][1] != []:
            return "root not reported first with the empty path"
        return True
    st = res["stats"]
    if st["count-directories"] != len(want_dirs) + want_ldir:
        return "count-directories %d, expected %d" % (st["count-directories"], len(want_dirs) + want_ldir)
    n_c = len([j for j in want_ver if kinds[j] == "C"])
    n_m = len([j for j in want_ver if kinds[j] == "M"])
    if st["count-immutable-files"] != n_c or st["count-mutable-files"] != n_m or st["count-literal-files"] != want_lit or st["count-unknown"] != want_unk:
        return "file counts differ: %r" % (st,)
    if st["count-files"] != n_c + n_m + want_lit:
        return "count-files"
    if st["size-immutable-files"] != sum(1000 + j for j in want_ver if kinds[j] == "C") or st["size-literal-files"] != 5 * want_lit:
        return "sizes"
    all_dirs = want_dirs + [j for j in range(n) if kinds[j] == "E" for _ in range(visits[j])]
    if st["size-directories"] != sum(100 + j for j in all_dirs):
        return "size-directories"
    if st["largest-directory"] != max(100 + j for j in all_dirs):
        return "largest-directory"
    if st["largest-directory-children"] != max(len(nodes[j].kids) for j in all_dirs):
        return "largest-directory-children"
    if st["largest-immutable-file"] != max([1000 + j for j in want_ver if kinds[j] == "C"] + [0]):
        return "largest-immutable-file"
    if walker_kind == 1:
        man = res["manifest"]
        if len(man) != len(want_ver) + want_lit + want_unk + want_ldir:
            return "manifest has %d entries, expected %d" % (len(man), len(want_ver) + want_lit + want_unk + want_ldir)
        for (path, cap) in man:
            target = _resolve(root, list(path))
            if target is None or target.get_uri() != cap:
                return "manifest path %r does not lead to the cap listed for it" % (path,)
        if len(res["verifycaps"]) != len(want_ver):
            return "verifycaps set"
        if len(res["storage-index"]) != len(want_ver):
            return "storage-index set"
    return True


def _bits_of(x, nbits):
    """binary digits of x (least significant first) by comparison/subtraction only (linear arithmetic for the solver)"""
    out = [False] * nbits
    for k in range(nbits - 1, -1, -1):
        if x >= 2 ** k:
            out[k] = True
            x = x - 2 ** k
    return out


def _ndirs(kinds):
    nd = 0
    for k in kinds:
        if k in ("D", "E"):
            nd += 1
    if any(k not in ("D", "E") for k in kinds[:nd]) or nd == 0 or kinds[0] != "D":
        raise hlib.HarnessError("kinds must list the directories first (root 'D'): %r" % (kinds,))
    return nd


def _alias_positions(kinds):
    """(i, j) pairs where a second node object for object j may be linked from directory i (bounds: alias_pairs)"""
    return [tuple(p) for p in B.get("alias_pairs", [])]


def h_traverse(adj: int, alias: int, walker: int) -> bool:
    """
    pre: 0 <= adj < 2 ** (len(B["kinds"]) * _ndirs(B["kinds"])) and 0 <= alias < 2 ** len(_alias_positions(B["kinds"])) and 0 <= walker <= 2
    pre: B.get("walkers") is None or walker in B["walkers"]
    post: _ == True
    """
    kinds = B["kinds"]
    n = len(kinds)
    nd = _ndirs(kinds)
    bits = [[False] * n for _ in range(n)]
    abits = [[False] * n for _ in range(n)]
    ad = _bits_of(adj, n * nd)
    for i in range(nd):
        for j in range(n):
            bits[i][j] = ad[i * n + j]
            # a literal directory holds immutable files only, and is itself only linked from ordinary directories
            if bits[i][j] and ((kinds[i] == "E" and kinds[j] not in ("C", "L")) or (kinds[i] == "E" and kinds[j] == "E")):
                assume(False)
    pos = _alias_positions(kinds)
    al = _bits_of(alias, len(pos))
    for (t, (i, j)) in enumerate(pos):
        abits[i][j] = al[t]
    return _check(kinds, bits, abits, walker)
