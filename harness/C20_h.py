"""
C20 — directory edits behave like updates to a map  normalized-name -> (child, metadata).

Real code executed: dirnode.update_metadata, Adder/Deleter/MetadataSetter (.__init__, .set_node, .modify),
DirectoryNode.set_node / set_nodes / delete / set_metadata_for / move_child_to / get_child_and_metadata /
_get_with_metadata / _read / _create_readonly_node / _create_and_validate_node / get_write_uri / has_child.

Oracle: an independent map model (python dict name -> (child token, metadata dict)) written from the property
statement, IDirectoryNode's docstrings and docs/frontends/webapi.rst "About the metadata":
  * linkmotime := now on every link set; linkcrtime := now only when there was no link under that name, else kept
    (pre-1.4 'ctime' is used when tahoe:linkcrtime is missing); caller-supplied 'tahoe' keys are ignored;
    metadata given => replaces all user keys, metadata None => user keys kept;
  * overwrite False never replaces, ONLY_FILES never replaces a directory;
  * metadata 'no-write' true => the link is diminished to read-only;
  * names are compared after NFC normalisation (a fixed table of raw names / NFC forms);
  * any failure leaves the directory contents as they were.
"""
from vlib import hlib
from vlib.hlib import NS, assume
hlib.ensure_shims()
from zope.interface import implementer
from twisted.internet import defer
from twisted.python.failure import Failure
from allmydata import dirnode as D
from allmydata.interfaces import (IFilesystemNode, IFileNode, IDirectoryNode, ExistingChildError,
                                  NoSuchChildError, ChildOfWrongTypeError)
from allmydata.mutable.common import NotWriteableError, UncoordinatedWriteError
from allmydata.util.dictutil import AuxValueDict

B = hlib.bounds()
NOTES = [
    "dirnode.time replaced by a harness clock whose time() returns the symbolic argument `now`",
    "directory serialisation replaced by an identity pack/unpack on a fake node (packed form = list of (name, child, metadata "
    "snapshot)); unpack returns an AuxValueDict with fresh metadata copies and the packed entry as aux value, pack reuses a "
    "non-empty aux value exactly like _pack_normalized_children does (real packing is C19)",
    "children are token nodes providing IFileNode / IDirectoryNode / IFilesystemNode (unknown); create_readonly_node / the "
    "nodemaker return a read-only token for the child's read cap",
    "MutableFileNode.modify modelled by its contract: modifier(old_contents, servermap, first_time) is called once; an exception "
    "=> errback and contents unchanged; None => contents unchanged; otherwise contents replaced; optional injected "
    "UncoordinatedWriteError before the modifier runs",
]
hlib.encoded(D.update_metadata, D.Adder.__init__, D.Adder.set_node, D.Adder.modify, D.Deleter.__init__, D.Deleter.modify,
             D.MetadataSetter.__init__, D.MetadataSetter.modify, D.DirectoryNode.set_node, D.DirectoryNode.set_nodes,
             D.DirectoryNode.delete, D.DirectoryNode.set_metadata_for, D.DirectoryNode.move_child_to,
             D.DirectoryNode.get_child_and_metadata, D.DirectoryNode._get_with_metadata, D.DirectoryNode._read,
             D.DirectoryNode._create_readonly_node, D.DirectoryNode._create_and_validate_node,
             D.DirectoryNode.get_write_uri, D.DirectoryNode.has_child, D.DirectoryNode.get_metadata_for,
             D.DirectoryNode.get)


class _Clock(object):
    now = 0

    @classmethod
    def time(cls):
        return cls.now


D.time = _Clock

OW = (True, False, D.ONLY_FILES)

# raw names and their NFC forms (the table is the oracle's notion of "normalized name"; it is not computed
# with the code's normalize()).  U+212B ANGSTROM SIGN and A + U+030A both normalise to U+00C5.
RAW = ("k", "\u00c5", "A\u030a", "\u212b", "z", "\u00e9", "e\u0301")
NFC = ("k", "\u00c5", "\u00c5", "\u00c5", "z", "\u00e9", "\u00e9")
T = "\u00c5"      # the name the symbolic pre-existing entry lives under
BY = "z"          # a bystander entry that is always present


class _Child(object):
    kind = None

    def __init__(self, tag, ro=False, err=None):
        self.tag, self.ro, self.err = tag, ro, err

    def raise_error(self):
        if self.err is not None:
            raise self.err

    def is_unknown(self):
        return False

    def is_readonly(self):
        return self.ro

    def is_mutable(self):
        return True

    def get_readonly_uri(self):
        return b"ro:" + self.tag

    def get_write_uri(self):
        return None if self.ro else b"rw:" + self.tag

    def __repr__(self):
        return "<%s %r ro=%r>" % (type(self).__name__, self.tag, self.ro)


@implementer(IFileNode)
class _File(_Child):
    kind = 0


@implementer(IDirectoryNode)
class _Dir(_Child):
    kind = 1


@implementer(IFilesystemNode)
class _Unknown(_Child):
    kind = 2

    def is_unknown(self):
        return True

    def is_readonly(self):
        raise AssertionError("an UnknownNode might be either read-only or read/write")


_KINDS = (_File, _Dir, _Unknown)


def _mkchild(kind, tag, ro=False):
    return _KINDS[kind](tag, ro)


def _cp(md):
    """copy of a metadata dict (nested dicts copied, leaves shared)"""
    return dict((k, (_cp(v) if isinstance(v, dict) else v)) for (k, v) in md.items())


class _Packed(object):
    """the fake serialised form: entries (name, child, metadata snapshot), sorted by name"""

    def __init__(self, entries):
        self.entries = list(entries)

    def as_map(self):
        return dict((n, (c, md)) for (n, c, md) in self.entries)


class _Codec(object):
    """identity pack/unpack with the aux-value cache semantics of the real codec"""

    def _unpack_contents(self, packed):
        if not isinstance(packed, _Packed):
            raise hlib.HarnessError("unpack of %r" % (packed,))
        children = AuxValueDict()
        for e in packed.entries:
            (n, c, md) = e
            children.set_with_aux(n, (c, _cp(md)), auxilliary=e)
        return children

    def _pack_contents(self, children):
        has_aux = isinstance(children, AuxValueDict)
        out = []
        for name in sorted(children.keys()):
            (child, md) = children[name]
            child.raise_error()
            e = children.get_aux(name) if has_aux else None
            if not e:
                if not isinstance(name, str) or not isinstance(md, dict) or not IFilesystemNode.providedBy(child):
                    raise hlib.HarnessError("pack: bad entry %r" % ((name, child, md),))
                e = (name, child, _cp(md))
            out.append(e)
        return _Packed(out)


def _ro_of(child, name=None):
    """what create_readonly_node / the nodemaker give for a child's read cap: a read-only token of the same kind+tag"""
    return _KINDS[child.kind](child.tag, True)


class _RONode(object):
    """records create_readonly_node(child, name) calls (modifier-level harnesses)"""

    def __init__(self):
        self.calls = []

    def __call__(self, child, name):
        self.calls.append((child, name))
        if not child.is_unknown() and child.is_readonly():
            return child
        return _ro_of(child)


def _same_child(got, want_kind, want_tag, want_ro):
    return got.kind == want_kind and got.tag == want_tag and (got.ro == want_ro)


# ---------------------------------------------------------------------------------------------------
# the metadata model (webapi.rst "About the metadata")
# ---------------------------------------------------------------------------------------------------

def _old_md(has_ctime, ctime, has_tahoe, has_lcr, lcr, lmo, user):
    md = {"user": user}
    if has_ctime:
        md["ctime"] = ctime
    if has_tahoe:
        t = {"linkmotime": lmo, "future": 7}
        if has_lcr:
            t["linkcrtime"] = lcr
        md["tahoe"] = t
    return md


def _new_md(has_new, new_tahoe, nt, no_write, u_new):
    """metadata argument of the caller: None, or a dict (maybe with a forged 'tahoe' sub-dict / 'no-write')"""
    if not has_new:
        return None
    md = {"user2": u_new}
    if new_tahoe:
        md["tahoe"] = {"linkcrtime": nt, "linkmotime": nt, "forged": 1}
    if no_write == 1:
        md["no-write"] = False
    elif no_write == 2:
        md["no-write"] = True
    return md


def _model_md(old, new, now):
    """metadata of a link after it is set at time `now`; old = previous link metadata or None, new = caller's metadata or None"""
    out = {}
    src = new if new is not None else (old if old is not None else {})
    for k in src:
        if k != "tahoe":
            out[k] = src[k]
    sysmd = {}
    if old is not None and "tahoe" in old:
        for k in old["tahoe"]:
            sysmd[k] = old["tahoe"][k]
    if "linkcrtime" not in sysmd:
        if old is not None and "ctime" in old:
            sysmd["linkcrtime"] = old["ctime"]
        else:
            sysmd["linkcrtime"] = now
    sysmd["linkmotime"] = now
    out["tahoe"] = sysmd
    return out


def h_update_metadata(now: int, has_old: bool, has_ctime: bool, ctime: int, has_tahoe: bool, has_lcr: bool, lcr: int,
                      lmo: int, u_old: int, has_new: bool, new_tahoe: bool, nt: int, no_write: int, u_new: int) -> bool:
    """
    pre: 0 <= no_write <= 2
    post: _ == True
    """
    old = _old_md(has_ctime, ctime, has_tahoe, has_lcr, lcr, lmo, u_old) if has_old else None
    old_snapshot = _cp(old) if old is not None else None
    new = _new_md(has_new, new_tahoe, nt, no_write, u_new)
    new_snapshot = _cp(new) if new is not None else None
    r = D.update_metadata(old, new, now)
    t = r.get("tahoe")
    if not isinstance(t, dict):
        return "no tahoe sub-dict"
    # the statement's rules, one by one
    if t.get("linkmotime") != now:
        return "linkmotime is not now"
    if has_old and has_tahoe and has_lcr:
        if t.get("linkcrtime") != lcr:
            return "existing linkcrtime not preserved"
    elif has_old and has_ctime:
        if t.get("linkcrtime") != ctime:
            return "old ctime not used as linkcrtime"
    else:
        if t.get("linkcrtime") != now:
            return "fresh link: linkcrtime is not now"
    if "forged" in t:
        return "caller's tahoe key not ignored"
    if has_old and has_tahoe and t.get("future") != 7:
        return "other tahoe keys of the old link lost"
    if has_new:
        if "user" in r or r.get("user2") != u_new:
            return "user metadata not replaced by the caller's"
        if ("no-write" in r) != (no_write != 0):
            return "no-write key"
    else:
        if has_old and (r.get("user") != u_old or ("ctime" in r) != has_ctime):
            return "metadata=None must keep the user keys"
        if "user2" in r:
            return "unexpected key"
    # and the whole-value model
    if r != _model_md(old_snapshot, new_snapshot, now):
        return "differs from the metadata model"
    if new is not None and new != new_snapshot:
        return "caller's metadata dict was modified"
    return True


# ---------------------------------------------------------------------------------------------------
# modifiers on a fake node
# ---------------------------------------------------------------------------------------------------

def _prestate(a_exists, a_kind, a_ro, md):
    """packed pre-state + the model map {name: (kind, tag, ro, md)}"""
    entries = []
    model = {}
    by_md = {"tahoe": {"linkcrtime": 11, "linkmotime": 12}, "user": 13}
    if a_exists:
        entries.append((T, _mkchild(a_kind, b"old", a_ro), _cp(md)))
        model[T] = (a_kind, b"old", a_ro, _cp(md))
    entries.append((BY, _mkchild(0, b"by"), _cp(by_md)))
    model[BY] = (0, b"by", False, _cp(by_md))
    entries.sort(key=lambda e: e[0])
    return _Packed(entries), model


def _check_map(packed, model):
    """the packed result equals the model map (names, child identity incl. read-only-ness, metadata)"""
    if not isinstance(packed, _Packed):
        return "modifier did not return packed contents"
    names = [e[0] for e in packed.entries]
    if names != sorted(model.keys()):
        return "name set differs from the map model: %r vs %r" % (names, sorted(model.keys()))
    for (n, c, md) in packed.entries:
        (k, tag, ro, wmd) = model[n]
        if not _same_child(c, k, tag, ro):
            return "child under %r differs from the map model" % (n,)
        if md != wmd:
            return "metadata under %r differs from the map model" % (n,)
    return True


def _model_add(model, name, kind, tag, ro, newmd, ow, now, diminish=True):
    """map-model add; returns 'exists' (and leaves the model alone) when the overwrite mode forbids it"""
    oldmd = None
    if name in model:
        if ow == 1:
            return "exists"
        if ow == 2 and model[name][0] == 1:
            return "exists"
        oldmd = model[name][3]
    md = _model_md(oldmd, newmd, now)
    if diminish and md.get("no-write", False):
        ro = True
    model[name] = (kind, tag, ro, md)
    return None


def h_adder(ow: int, raw: int, a_exists: bool, a_kind: int, a_ro: bool, has_ctime: bool, ctime: int, has_tahoe: bool,
            has_lcr: bool, lcr: int, lmo: int, u_old: int, n_kind: int, n_ro: bool, has_new: bool, new_tahoe: bool, nt: int,
            no_write: int, u_new: int, now: int, use_set_node: bool) -> bool:
    """
    pre: 0 <= ow <= 2 and 0 <= raw < len(RAW) and 0 <= a_kind <= 2 and 0 <= n_kind <= 2 and 0 <= no_write <= 2
    pre: B.get("raw") is None or raw in B["raw"]
    post: _ == True
    """
    assume(not (n_kind == 2 and n_ro) and not (a_kind == 2 and a_ro))
    md0 = _old_md(has_ctime, ctime, has_tahoe, has_lcr, lcr, lmo, u_old)
    packed, model = _prestate(a_exists, a_kind, a_ro, md0)
    before = [(n, c, _cp(md)) for (n, c, md) in packed.entries]
    node = _Codec()
    child = _mkchild(n_kind, b"new", n_ro)
    newmd = _new_md(has_new, new_tahoe, nt, no_write, u_new)
    ron = _RONode()
    _Clock.now = now
    if use_set_node:
        a = D.Adder(node, overwrite=OW[ow], create_readonly_node=ron)
        a.set_node(RAW[raw], child, newmd)
    else:
        a = D.Adder(node, {RAW[raw]: (child, newmd)}, overwrite=OW[ow], create_readonly_node=ron)
    want_exc = _model_add(model, NFC[raw], n_kind, b"new", n_ro, _cp(newmd) if newmd is not None else None, ow, now)
    try:
        out = a.modify(packed, None, True)
    except ExistingChildError:
        if want_exc != "exists":
            return "ExistingChildError although the overwrite mode allows the add"
        if [(n, c, md) for (n, c, md) in packed.entries] != before:
            return "contents changed by a refused add"
        return True
    if want_exc is not None:
        return "existing child replaced against the overwrite mode"
    return _check_map(out, model)


def h_adder_two(ow: int, raw1: int, raw2: int, a_exists: bool, a_kind: int, has_lcr: bool, lcr: int,
                k1: int, k2: int, has_new1: bool, has_new2: bool, u1: int, u2: int, now: int) -> bool:
    """
    pre: 0 <= ow <= 2 and 0 <= raw1 < len(RAW) and 0 <= raw2 < len(RAW) and raw1 != raw2
    pre: 0 <= a_kind <= 2 and 0 <= k1 <= 1 and 0 <= k2 <= 1
    pre: B.get("raw") is None or (raw1 in B["raw"] and raw2 in B["raw"])
    post: _ == True
    """
    md0 = _old_md(False, 0, True, has_lcr, lcr, 5, 6)
    packed, model = _prestate(a_exists, a_kind, False, md0)
    before = [(n, c, _cp(md)) for (n, c, md) in packed.entries]
    node = _Codec()
    c1, c2 = _mkchild(k1, b"n1"), _mkchild(k2, b"n2")
    m1 = {"user2": u1} if has_new1 else None
    m2 = {"user2": u2} if has_new2 else None
    _Clock.now = now
    # entries is a plain dict: adds happen in insertion order
    a = D.Adder(node, {RAW[raw1]: (c1, m1), RAW[raw2]: (c2, m2)}, overwrite=OW[ow])
    want_exc = _model_add(model, NFC[raw1], k1, b"n1", False, m1, ow, now, diminish=False)
    if want_exc is None:
        want_exc = _model_add(model, NFC[raw2], k2, b"n2", False, m2, ow, now, diminish=False)
    try:
        out = a.modify(packed, None, True)
    except ExistingChildError:
        if want_exc != "exists":
            return "ExistingChildError although the overwrite mode allows the adds"
        if [(n, c, md) for (n, c, md) in packed.entries] != before:
            return "contents changed by a refused add"
        return True
    if want_exc is not None:
        return "existing child replaced against the overwrite mode"
    return _check_map(out, model)


def h_deleter(raw: int, a_exists: bool, a_kind: int, must_exist: bool, first_time: bool, mbd: bool, mbf: bool) -> bool:
    """
    pre: 0 <= raw < len(RAW) and 0 <= a_kind <= 2
    post: _ == True
    """
    md0 = _old_md(False, 0, True, True, 3, 4, 5)
    packed, model = _prestate(a_exists, a_kind, False, md0)
    before = [(n, c, _cp(md)) for (n, c, md) in packed.entries]
    node = _Codec()
    dl = D.Deleter(node, RAW[raw], must_exist=must_exist, must_be_directory=mbd, must_be_file=mbf)
    name = NFC[raw]
    present = name in model
    try:
        out = dl.modify(packed, None, first_time)
    except NoSuchChildError:
        if present:
            return "NoSuchChildError for a name that is present"
        if not (must_exist and first_time):
            return "NoSuchChildError although must_exist is off (or this is a retry)"
        return True if [(n, c, md) for (n, c, md) in packed.entries] == before else "contents changed by failed delete"
    except ChildOfWrongTypeError:
        if not present:
            return "ChildOfWrongTypeError for a missing name"
        k = model[name][0]
        if not ((mbd and k == 0) or (mbf and k == 1)):
            return "ChildOfWrongTypeError although the child has an acceptable type"
        return True if [(n, c, md) for (n, c, md) in packed.entries] == before else "contents changed by failed delete"
    if not present:
        if must_exist and first_time:
            return "missing child with must_exist did not raise"
        if out is not None or dl.old_child is not None:
            return "delete of a missing name must be a no-op"
        return True
    k = model[name][0]
    if (mbd and k == 0) or (mbf and k == 1):
        return "child of the wrong type was deleted"
    want_child = model[name]
    del model[name]
    if dl.old_child is None or not _same_child(dl.old_child, want_child[0], want_child[1], want_child[2]):
        return "old_child is not the removed child"
    return _check_map(out, model)


def h_mdsetter(raw: int, a_exists: bool, a_kind: int, a_ro: bool, has_ctime: bool, ctime: int, has_tahoe: bool, has_lcr: bool,
               lcr: int, lmo: int, u_old: int, new_tahoe: bool, nt: int, no_write: int, u_new: int, now: int,
               with_ron: bool) -> bool:
    """
    pre: 0 <= raw < len(RAW) and 0 <= a_kind <= 2 and 0 <= no_write <= 2
    post: _ == True
    """
    assume(not (a_kind == 2 and a_ro))
    md0 = _old_md(has_ctime, ctime, has_tahoe, has_lcr, lcr, lmo, u_old)
    packed, model = _prestate(a_exists, a_kind, a_ro, md0)
    before = [(n, c, _cp(md)) for (n, c, md) in packed.entries]
    node = _Codec()
    newmd = _new_md(True, new_tahoe, nt, no_write, u_new)
    ron = _RONode() if with_ron else None
    _Clock.now = now
    ms = D.MetadataSetter(node, RAW[raw], newmd, create_readonly_node=ron)
    name = NFC[raw]
    try:
        out = ms.modify(packed, None, True)
    except NoSuchChildError:
        if name in model:
            return "NoSuchChildError for a name that is present"
        return True if [(n, c, md) for (n, c, md) in packed.entries] == before else "contents changed by failed set-metadata"
    if name not in model:
        return "set-metadata on a missing name did not raise"
    (k, tag, ro, omd) = model[name]
    md = _model_md(omd, _cp(newmd), now)
    if with_ron and md.get("no-write", False):
        ro = True
    model[name] = (k, tag, ro, md)
    return _check_map(out, model)


# ---------------------------------------------------------------------------------------------------
# DirectoryNode level: real set_node / delete / set_metadata_for / move_child_to on a fake backing file
# ---------------------------------------------------------------------------------------------------

class _FakeMutableFile(object):
    def __init__(self, packed, readonly=False, fail_modify=False):
        self.contents = packed
        self.readonly = readonly
        self.fail_modify = fail_modify
        self.modify_calls = 0

    def is_readonly(self):
        return self.readonly

    def is_mutable(self):
        return True

    def get_writekey(self):
        return b"wk"

    def download_best_version(self):
        return defer.succeed(self.contents)

    def modify(self, modifier):
        self.modify_calls += 1
        if self.readonly:
            raise hlib.HarnessError("modify() on a read-only backing file")
        if self.fail_modify:
            return defer.fail(Failure(UncoordinatedWriteError()))
        try:
            new = modifier(self.contents, None, True)
        except Exception:
            return defer.fail(Failure())
        if new is not None:
            self.contents = new
        return defer.succeed(None)


class _NM(object):
    """nodemaker for _create_readonly_node: ro cap b'ro:<tag>' of kind k -> read-only token"""

    def __init__(self):
        self.calls = []
        self.kinds = {}

    def create_from_cap(self, rw_uri, ro_uri, deep_immutable=False, name=None):
        self.calls.append((rw_uri, ro_uri, deep_immutable))
        if rw_uri is not None or not ro_uri.startswith(b"ro:"):
            raise hlib.HarnessError("unexpected create_from_cap(%r, %r)" % (rw_uri, ro_uri))
        tag = ro_uri[3:]
        return _KINDS[self.kinds.get(tag, 0)](tag, True)


class _TDir(_Codec, D.DirectoryNode):
    """the real DirectoryNode with the identity codec mixed in"""
    kind = 1
    ro = False

    def __init__(self, tag, packed, readonly=False, fail_modify=False, nm=None):
        self.tag = tag
        self._node = _FakeMutableFile(packed, readonly, fail_modify)
        self._uri = NS(to_string=lambda: b"URI:DIR2:" + tag,
                       get_readonly=lambda: NS(to_string=lambda: b"URI:DIR2-RO:" + tag))
        self._nodemaker = nm or _NM()
        self._uploader = None

    def __repr__(self):
        return "<_TDir %r>" % (self.tag,)


def _outcome(d):
    out = []
    d.addCallbacks(lambda r: out.append(("ok", r)), lambda f: out.append(("err", f)))
    if not out:
        raise hlib.HarnessError("Deferred did not fire synchronously")
    return out[0]


def _entries_eq(packed, before):
    return [(n, c, md) for (n, c, md) in packed.entries] == before


def _snap(packed):
    return [(n, c, _cp(md)) for (n, c, md) in packed.entries]


def h_move(ow: int, src_raw: int, dst_raw: int, dst_none: bool, same_dir: bool, alias: bool, src_exists: bool, src_kind: int,
           t_exists: bool, t_kind: int, has_lcr: bool, lcr: int, s_lcr: int, s_user: int, src_rdonly: bool, dst_rdonly: bool,
           fail_add: bool, now: int) -> bool:
    """
    pre: 0 <= ow <= 2 and 0 <= src_kind <= 1 and 0 <= t_kind <= 2
    pre: src_raw in (1, 2, 4) and dst_raw in (0, 1, 3, 4)
    post: _ == True
    """
    # source directory S: entry under T (symbolic presence/kind) + bystander;  target directory P: the same shape.
    s_md = {"tahoe": {"linkcrtime": s_lcr, "linkmotime": 21}, "user": s_user}
    t_md = _old_md(False, 0, True, has_lcr, lcr, 31, 32)
    s_packed, s_model = _prestate(src_exists, src_kind, False, s_md)
    nm = _NM()
    S = _TDir(b"S", s_packed, readonly=src_rdonly, nm=nm)
    if same_dir:
        # the same directory, either the same object or a second node object for the same cap
        P = _TDir(b"S", s_packed, readonly=src_rdonly, nm=nm) if alias else S
        if alias:
            P._node = S._node
        p_model = s_model
        assume(not fail_add)
    else:
        p_packed, p_model = _prestate(t_exists, t_kind, False, t_md)
        P = _TDir(b"P", p_packed, readonly=dst_rdonly, fail_modify=fail_add, nm=nm)
    s_before, p_before = _snap(S._node.contents), _snap(P._node.contents)
    _Clock.now = now
    src_name = NFC[src_raw]
    dst_name = src_name if dst_none else NFC[dst_raw]
    res = _outcome(S.move_child_to(RAW[src_raw], P, None if dst_none else RAW[dst_raw], overwrite=OW[ow]))

    def unchanged():
        return _entries_eq(S._node.contents, s_before) and _entries_eq(P._node.contents, p_before)

    s_ro = src_rdonly
    p_ro = src_rdonly if same_dir else dst_rdonly
    if s_ro or p_ro:
        if res[0] != "err" or not res[1].check(NotWriteableError):
            return "move involving a read-only directory did not fail with NotWriteableError"
        if S._node.modify_calls or P._node.modify_calls:
            return "read-only directory's backing file was asked to modify"
        return True if unchanged() else "contents changed"
    if same_dir and dst_name == src_name:
        # rename to itself: nothing happens (in particular the child is not deleted)
        if res[0] != "ok":
            return "rename to the same name failed"
        return True if unchanged() else "rename to the same name changed the directory"
    if src_name not in s_model:
        if res[0] != "err" or not res[1].check(NoSuchChildError):
            return "move of a missing child did not fail with NoSuchChildError"
        return True if unchanged() else "contents changed by a failed move"
    (k, tag, ro, md) = s_model[src_name]
    if fail_add:
        if res[0] != "err" or not res[1].check(UncoordinatedWriteError):
            return "failure of the add was swallowed"
        return True if unchanged() else "failed rename did not leave the child under its old name"
    # the add into P: the source link's metadata is the caller's metadata
    exc = _model_add(p_model, dst_name, k, tag, ro, _cp(md), ow, now)
    if exc == "exists":
        if res[0] != "err" or not res[1].check(ExistingChildError):
            return "move onto an existing child against the overwrite mode did not fail with ExistingChildError"
        return True if unchanged() else "failed rename did not leave the child under its old name"
    if res[0] != "ok":
        return "move failed: %r" % (res[1],)
    del s_model[src_name]
    r = _check_map(S._node.contents, s_model)
    if r is not True:
        return "source: " + r
    r = _check_map(P._node.contents, p_model)
    if r is not True:
        return "target: " + r
    return True


def h_dir_ops(op: int, raw: int, ow: int, a_exists: bool, a_kind: int, a_ro: bool, has_lcr: bool, lcr: int, has_ctime: bool,
              ctime: int, n_kind: int, has_new: bool, no_write: int, u_new: int, rdonly: bool, must_exist: bool, mbd: bool,
              mbf: bool, now: int) -> bool:
    """
    pre: 0 <= op <= 3 and 0 <= raw < len(RAW) and 0 <= ow <= 2 and 0 <= a_kind <= 2 and 0 <= n_kind <= 2 and 0 <= no_write <= 2
    pre: B.get("raw") is None or raw in B["raw"]
    post: _ == True
    """
    assume(not (a_kind == 2 and a_ro))
    md0 = _old_md(has_ctime, ctime, has_lcr, has_lcr, lcr, 41, 42)
    packed, model = _prestate(a_exists, a_kind, a_ro, md0)
    nm = _NM()
    nm.kinds = {b"old": a_kind, b"new": n_kind}
    Dn = _TDir(b"D", packed, readonly=rdonly, nm=nm)
    before = _snap(packed)
    _Clock.now = now
    name = NFC[raw]
    child = _mkchild(n_kind, b"new")
    newmd = _new_md(has_new, False, 0, no_write, u_new)
    want = None      # None = success; else the exception class
    if op == 0:
        res = _outcome(Dn.set_node(RAW[raw], child, newmd, overwrite=OW[ow]))
        if not rdonly:
            if _model_add(model, name, n_kind, b"new", False, _cp(newmd) if newmd is not None else None, ow, now) == "exists":
                want = ExistingChildError
    elif op == 1:
        res = _outcome(Dn.set_nodes({RAW[raw]: (child, newmd)}, overwrite=OW[ow]))
        if not rdonly:
            if _model_add(model, name, n_kind, b"new", False, _cp(newmd) if newmd is not None else None, ow, now) == "exists":
                want = ExistingChildError
    elif op == 2:
        res = _outcome(Dn.delete(RAW[raw], must_exist=must_exist, must_be_directory=mbd, must_be_file=mbf))
        removed = None
        if not rdonly:
            if name not in model:
                if must_exist:
                    want = NoSuchChildError
            else:
                k = model[name][0]
                if (mbd and k == 0) or (mbf and k == 1):
                    want = ChildOfWrongTypeError
                else:
                    removed = model[name]
                    del model[name]
    else:
        assume(has_new)
        res = _outcome(Dn.set_metadata_for(RAW[raw], newmd))
        if not rdonly:
            if name not in model:
                want = NoSuchChildError
            else:
                (k, tag, ro, omd) = model[name]
                md = _model_md(omd, _cp(newmd), now)
                model[name] = (k, tag, ro or bool(md.get("no-write", False)), md)
    if rdonly:
        want = NotWriteableError
        if Dn._node.modify_calls:
            return "read-only directory's backing file was asked to modify"
    if want is not None:
        if res[0] != "err" or not res[1].check(want):
            return "expected %s, got %r" % (want.__name__, res)
        return True if _entries_eq(Dn._node.contents, before) else "contents changed by a failed operation"
    if res[0] != "ok":
        return "operation failed: %r" % (res[1],)
    if op == 0 and res[1] is not child:
        return "set_node does not fire with the child"
    if op in (1, 3) and res[1] is not Dn:
        return "operation does not fire with the dirnode"
    if op == 2:
        if removed is None:
            if res[1] is not None:
                return "delete of a missing child fired with a node"
        elif res[1] is None or not _same_child(res[1], removed[0], removed[1], removed[2]):
            return "delete does not fire with the removed child"
    r = _check_map(Dn._node.contents, model)
    if r is not True:
        return r
    # observation through the read API agrees with the map
    got = _outcome(Dn.has_child(RAW[raw]))
    if got != ("ok", name in model):
        return "has_child disagrees with the map"
    return True
