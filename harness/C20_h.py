"""
C20 — directory edits behave like updates to a map  normalized-name -> (child, metadata).

Real code executed: dirnode.update_metadata, Adder/Deleter/MetadataSetter (.__init__, .set_node, .modify),
DirectoryNode.set_node / set_nodes / delete / set_metadata_for / move_child_to / get_child_and_metadata /
_get_with_metadata / _read / _create_readonly_node / _create_and_validate_node / get_write_uri / has_child.

Oracle: an independent map model (python dict name -> (child token, metadata dict)) written from the property
statement, IDirectoryNode's docstrings and docs/frontends/webapi.rst "About the metadata":
  * linkmotime := now on every link set; linkcrtime := now only when there was no link under that name, else kept
    (pre-1.4 'ctime' is used when tahoe:linkcrtime is missing); caller-supplied 'tahoe' keys are ignored;
    metadata given => replaces all user keys, metadata None => user keys kept;
  * overwrite False never replaces, ONLY_FILES never replaces a directory;
  * metadata 'no-write' true => the link is diminished to read-only;
  * names are compared after NFC normalisation (a fixed table of raw names / NFC forms);
  * any failure leaves the directory contents as they were.
"""
from vlib import hlib
from vlib.hlib import NS, assume
hlib.ensure_shims()
from zope.interface import implementer
from twisted.internet import defer
from twisted.python.failure import Failure
from allmydata import dirnode as D
from allmydata.interfaces import (IFilesystemNode, IFileNode, IDirectoryNode, ExistingChildError,
                                  NoSuchChildError, ChildOfWrongTypeError)
from allmydata.mutable.common import NotWriteableError, UncoordinatedWriteError
from allmydata.util.dictutil import AuxValueDict

B = hlib.bounds()
NOTES = [
    "dirnode.time replaced by a harness clock whose time() returns the symbolic argument `now`",
    "directory serialisation replaced by an identity pack/unpack on a fake node (packed form = list of (name, child, metadata "
    "snapshot)); unpack returns an AuxValueDict with fresh metadata copies and the packed entry as aux value, pack reuses a "
    "non-empty aux value exactly like _pack_normalized_children does (real packing is C19)",
    "children are token nodes providing IFileNode / IDirectoryNode / IFilesystemNode (unknown); create_readonly_node / the "
    "nodemaker return a read-only token for the child's read cap",
    "MutableFileNode.modify modelled by its contract: modifier(old_contents, servermap, first_time) is called once; an exception "
    "=> errback and contents unchanged; None => contents unchanged; otherwise contents replaced; optional injected "
    "UncoordinatedWriteError before the modifier runs",
]
hlib.encoded(D.update_metadata, D.Adder.__init__, D.Adder.set_node, D.Adder.modify, D.Deleter.__init__, D.Deleter.modify,
             D.MetadataSetter.__init__, D.MetadataSetter.modify, D.DirectoryNode.set_node, D.DirectoryNode.set_nodes,
             D.DirectoryNode.delete, D.DirectoryNode.set_metadata_for, D.DirectoryNode.move_child_to,
             D.DirectoryNode.get_child_and_metadata, D.DirectoryNode._get_with_metadata, D.DirectoryNode._read,
             D.DirectoryNode._create_readonly_node, D.DirectoryNode._create_and_validate_node,
             D.DirectoryNode.get_write_uri, D.DirectoryNode.has_child, D.DirectoryNode.get_metadata_for,
             D.DirectoryNode.get)


class _Clock(object):
    now = 0

    @classmethod
    def time(cls):
        return cls.now


D.time = _Clock

OW = (True, False, D.ONLY_FILES)

# raw names and their NFC forms (the table is the oracle's notion of "normalized name"; it is not computed
# with the code's normalize()).  U+212B ANGSTROM SIGN and A + U+030A both normalise to U+00C5.
RAW = ("k", "\u00c5", "A\u030a", "\u212b", "z", "\u00e9", "e\u0301")
NFC = ("k", "\u00c5", "\u00c5", "\u00c5", "z", "\u00e9", "\u00e9")
T = "\u00c5"      # the name the symbolic pre-existing entry lives under
BY = "z"          # a bystander entry that is always present


class _Child(object):
    kind = None

    def __init__(self, tag, ro=False, err=None):
        self.tag, self.ro, self.err = tag, ro, err

    def raise_error(self):
        if self.err is not None:
            raise self.err

    def is_unknown(self):
        return False

    def is_readonly(self):
        return self.ro

    def is_mutable(self):
        return True

    def get_readonly_uri(self):
        return b"ro:" + self.tag

    def get_write_uri(self):
        return None if self.ro else b"rw:" + self.tag

    def __repr__(self):
        return "<%s %r ro=%r>" % (type(self).__name__, self.tag, self.ro)


@implementer(IFileNode)
class _File(_Child):
    kind = 0


@implementer(IDirectoryNode)
class _Dir(_Child):
    kind = 1


@implementer(IFilesystemNode)
class _Unknown(_Child):
    kind = 2

    def is_unknown(self):
        return True

    def is_readonly(self):
        raise AssertionError("an UnknownNode might be either read-only or read/write")


_KINDS = (_File, _Dir, _Unknown)


def _pick(seq, i):
    """seq[i] by comparison (indexing a tuple with a symbolic int hands back a proxy that does not discharge)"""
    for j in range(len(seq)):
        if i == j:
            return seq[j]
    raise hlib.HarnessError("index out of range")


def _mkchild(kind, tag, ro=False):
    return _pick(_KINDS, kind)(tag, ro)


def _cp(md):
    """copy of a metadata dict (nested dicts copied, leaves shared)"""
    return dict((k, (_cp(v) if isinstance(v, dict) else v)) for (k, v) in md.items())


class _Packed(object):
    """the fake serialised form: entries (name, child, metadata snapshot), sorted by name"""

    def __init__(self, entries):
        self.entries = list(entries)

    def as_map(self):
        return dict((n, (c, md)) for (n, c, md) in self.entries)


class _Codec(object):
    """identity pack/unpack with the aux-value cache semantics of the real codec"""

    def _unpack_contents(self, packed):
        if not isinstance(packed, _Packed):
            raise hlib.HarnessError("unpack of %r" % (packed,))
        children = AuxValueDict()
        for e in packed.entries:
            (n, c, md) = e
            children.set_with_aux(n, (c, _cp(md)), auxilliary=e)
        return children

    def _pack_contents(self, children):
        has_aux = isinstance(children, AuxValueDict)
        out = []
        for name in sorted(children.keys()):
            (child, md) = children[name]
            child.raise_error()
            e = children.get_aux(name) if has_aux else None
            if not e:
                if not isinstance(name, str) or not isinstance(md, dict) or not IFilesystemNode.providedBy(child):
                    raise hlib.HarnessError("pack: bad entry %r" % ((name, child, md),))
                e = (name, child, _cp(md))
            out.append(e)
        return _Packed(out)


def _ro_of(child, name=None):
    """what create_readonly_node / the nodemaker give for a child's read cap: a read-only token of the same kind+tag"""
    return _pick(_KINDS, child.kind)(child.tag, True)


class _RONode(object):
    """records create_readonly_node(child, name) calls (modifier-level harnesses)"""

    def __init__(self):
        self.calls = []

    def __call__(self, child, name):
        self.calls.append((child, name))
        if not child.is_unknown() and child.is_readonly():
            return child
        return _ro_of(child)


def _same_child(got, want_kind, want_tag, want_ro):
    return got.kind == want_kind and got.tag == want_tag and (got.ro == want_ro)


# ---------------------------------------------------------------------------------------------------
# the metadata model (webapi.rst "About the metadata")
# ---------------------------------------------------------------------------------------------------

def _old_md(has_ctime, ctime, has_tahoe, has_lcr, lcr, lmo, user):
    md = {"user": user}
    if has_ctime:
        md["ctime"] = ctime
    if has_tahoe:
        t = {"linkmotime": lmo, "future": 7}
        if has_lcr:
            t["linkcrtime"] = lcr
        md["tahoe"] = t
    return md


def _new_md(has_new, new_tahoe, nt, no_write, u_new):
    """metadata argument of the caller: None, or a dict (maybe with a forged 'tahoe' sub-dict / 'no-write')"""
    if not has_new:
        return None
    md = {"user2": u_new}
    if new_tahoe:
        md["tahoe"] = {"linkcrtime": nt, "linkmotime": nt, "forged": 1}
    if no_write == 1:
        md["no-write"] = False
    elif no_write == 2:
        md["no-write"] = True
    return md


def _model_md(old, new, now):
    """metadata of a link after it is set at time `now`; old = previous link metadata or None, new = caller's metadata or None"""
    out = {}
    src = new if new is not None else (old if old is not None else {})
    for k in src:
        if k != "tahoe":
            out[k] = src[k]
    sysmd = {}
    if old is not None and "tahoe" in old:
        for k in old["tahoe"]:
            sysmd[k] = old["tahoe"][k]
    if "linkcrtime" not in sysmd:
        if old is not None and "ctime" in old:
            sysmd["linkcrtime"] = old["ctime"]
        else:
            sysmd["linkcrtime"] = now
    sysmd["linkmotime"] = now
    out["tahoe"] = sysmd
    return out


def h_update_metadata(now: int, has_old: bool, has_ctime: bool, ctime: int, has_tahoe: bool, has_lcr: bool, lcr: int,
                      lmo: int, u_old: int, has_new: bool, new_tahoe: bool, nt: int, no_write: int, u_new: int, new_empty: bool) -> bool:
    """
    pre: 0 <= no_write <= 2
    pre: not new_empty or (has_new and not new_tahoe and no_write == 0)
    post: _ == True
    """
    old = _old_md(has_ctime, ctime, has_tahoe, has_lcr, lcr, lmo, u_old) if has_old else None
    old_snapshot = _cp(old) if old is not None else None
    new = {} if new_empty else _new_md(has_new, new_tahoe, nt, no_write, u_new)
    new_snapshot = _cp(new) if new is not None else None
    r = D.update_metadata(old, new, now)
    t = r.get("tahoe")
    if not isinstance(t, dict):
        return "no tahoe sub-dict"
    # the statement's rules, one by one
    if t.get("linkmotime") != now:
        return "linkmotime is not now"
    if has_old and has_tahoe and has_lcr:
        if t.get("linkcrtime") != lcr:
            return "existing linkcrtime not preserved"
    elif has_old and has_ctime:
        if t.get("linkcrtime") != ctime:
            return "old ctime not used as linkcrtime"
    else:
        if t.get("linkcrtime") != now:
            return "fresh link: linkcrtime is not now"
    if "forged" in t:
        return "caller's tahoe key not ignored"
    if has_old and has_tahoe and t.get("future") != 7:
        return "other tahoe keys of the old link lost"
    if new_empty:
        if sorted(r.keys()) != ["tahoe"]:
            return "an empty metadata dict must replace (clear) the user metadata"
    elif has_new:
        if "user" in r or r.get("user2") != u_new:
            return "user metadata not replaced by the caller's"
        if ("no-write" in r) != (no_write != 0):
            return "no-write key"
    else:
        if has_old and (r.get("user") != u_old or ("ctime" in r) != has_ctime):
            return "metadata=None must keep the user keys"
        if "user2" in r:
            return "unexpected key"
    # and the whole-value model
    if r != _model_md(old_snapshot, new_snapshot, now):
        return "differs from the metadata model"
    if new is not None and new != new_snapshot:
        return "caller's metadata dict was modified"
    return True


# ---------------------------------------------------------------------------------------------------
# selectors (small symbolic ints; the allowed values per case come from the bounds)
# ---------------------------------------------------------------------------------------------------

def _ok(key, v):
    """v is allowed by the bounds list B[key] (absent = everything)"""
    lst = B.get(key)
    if lst is None:
        return True
    for x in lst:
        if v == x:
            return True
    return False


A_SEL = 5      # existing entry: 0 absent, 1 file, 2 directory, 3 unknown, 4 read-only file
N_SEL = 5      # new child: 0 file, 1 directory, 2 unknown, 3 read-only file, 4 read-only directory
SHAPES = 4     # old metadata: 0 tahoe{linkcrtime,linkmotime}+ctime, 1 ctime only, 2 tahoe{linkmotime}+ctime, 3 neither
NM_SEL = 8     # caller's metadata: 0 None, 1 {user2}, 2 +forged tahoe, 3 +no-write False, 4 +no-write True, 5 +no-write True +forged tahoe, 6 {} (empty dict),
               # 7 a copy of the user metadata the entry under U+00C5 has right now (a 'no change' request; {} when there is no such entry)


def _a_kind_ro(a):
    if a == 1:
        return (0, False)
    if a == 2:
        return (1, False)
    if a == 3:
        return (2, False)
    return (0, True)


def _n_kind_ro(n):
    if n == 0:
        return (0, False)
    if n == 1:
        return (1, False)
    if n == 2:
        return (2, False)
    if n == 3:
        return (0, True)
    return (1, True)


def _shape_md(shape, ctime, lcr, lmo, user):
    if shape == 0:
        return _old_md(True, ctime, True, True, lcr, lmo, user)
    if shape == 1:
        return _old_md(True, ctime, False, False, lcr, lmo, user)
    if shape == 2:
        return _old_md(True, ctime, True, False, lcr, lmo, user)
    return _old_md(False, ctime, False, False, lcr, lmo, user)


def _sel_new_md(nm, nt, u_new, model=None):
    if nm == 7:
        out = {}
        if model is not None and T in model:
            for k in model[T][3]:
                if k != "tahoe":
                    out[k] = model[T][3][k]
        return out
    if nm == 0:
        return None
    if nm == 1:
        return _new_md(True, False, nt, 0, u_new)
    if nm == 2:
        return _new_md(True, True, nt, 0, u_new)
    if nm == 3:
        return _new_md(True, False, nt, 1, u_new)
    if nm == 4:
        return _new_md(True, False, nt, 2, u_new)
    if nm == 6:
        return {}
    return _new_md(True, True, nt, 2, u_new)


# ---------------------------------------------------------------------------------------------------
# modifiers on a fake node
# ---------------------------------------------------------------------------------------------------

def _prestate(a, md):
    """packed pre-state + the model map {name: (kind, tag, ro, md)}: optional entry under T, bystander under BY"""
    entries = []
    model = {}
    by_md = {"tahoe": {"linkcrtime": 11, "linkmotime": 12}, "user": 13}
    if a != 0:
        (k, ro) = _a_kind_ro(a)
        entries.append((T, _mkchild(k, b"old", ro), _cp(md)))
        model[T] = (k, b"old", ro, _cp(md))
    entries.append((BY, _mkchild(0, b"by"), _cp(by_md)))
    model[BY] = (0, b"by", False, _cp(by_md))
    entries.sort(key=lambda e: e[0])
    return _Packed(entries), model


def _check_map(packed, model):
    """the packed result equals the model map (names, child identity incl. read-only-ness, metadata)"""
    if not isinstance(packed, _Packed):
        return "modifier did not return packed contents"
    names = [e[0] for e in packed.entries]
    if names != sorted(model.keys()):
        return "name set differs from the map model: %r vs %r" % (names, sorted(model.keys()))
    for (n, c, md) in packed.entries:
        (k, tag, ro, wmd) = model[n]
        if not _same_child(c, k, tag, ro):
            return "child under %r differs from the map model" % (n,)
        if md != wmd:
            return "metadata under %r differs from the map model" % (n,)
    return True


def _model_add(model, name, kind, tag, ro, newmd, ow, now, diminish=True):
    """map-model add; returns 'exists' (and leaves the model alone) when the overwrite mode forbids it"""
    oldmd = None
    if name in model:
        if ow == 1:
            return "exists"
        if ow == 2 and model[name][0] == 1:
            return "exists"
        oldmd = model[name][3]
    md = _model_md(oldmd, newmd, now)
    if diminish and md.get("no-write", False):
        ro = True
    model[name] = (kind, tag, ro, md)
    return None


def _snap(packed):
    return [(n, c, _cp(md)) for (n, c, md) in packed.entries]


def _entries_eq(packed, before):
    return [(n, c, md) for (n, c, md) in packed.entries] == before


def h_adder(ow: int, raw: int, a: int, shape: int, n: int, nm: int, use_set_node: bool, first_time: bool,
            ctime: int, lcr: int, lmo: int, u_old: int, nt: int, u_new: int, now: int) -> bool:
    """
    pre: 0 <= ow <= 2 and 0 <= raw < len(RAW) and 0 <= a < A_SEL and 0 <= shape < SHAPES and 0 <= n < N_SEL and 0 <= nm < NM_SEL
    pre: _ok("ow", ow) and _ok("raw", raw) and _ok("a", a) and _ok("shape", shape) and _ok("n", n) and _ok("nm", nm)
    post: _ == True
    """
    assume(a != 0 or shape == 0)
    packed, model = _prestate(a, _shape_md(shape, ctime, lcr, lmo, u_old))
    before = _snap(packed)
    node = _Codec()
    (n_kind, n_ro) = _n_kind_ro(n)
    child = _mkchild(n_kind, b"new", n_ro)
    newmd = _sel_new_md(nm, nt, u_new, model)
    ron = _RONode()
    _Clock.now = now
    if use_set_node:
        ad = D.Adder(node, overwrite=_pick(OW, ow), create_readonly_node=ron)
        ad.set_node(_pick(RAW, raw), child, newmd)
    else:
        ad = D.Adder(node, {_pick(RAW, raw): (child, newmd)}, overwrite=_pick(OW, ow), create_readonly_node=ron)
    want_exc = _model_add(model, _pick(NFC, raw), n_kind, b"new", n_ro, _cp(newmd) if newmd is not None else None, ow, now)
    try:
        # first_time=False is a retry after an uncoordinated write: the overwrite rules are the same
        out = ad.modify(packed, None, first_time)
    except ExistingChildError:
        if want_exc != "exists":
            return "ExistingChildError although the overwrite mode allows the add"
        if not _entries_eq(packed, before):
            return "contents changed by a refused add"
        return True
    if want_exc is not None:
        return "existing child replaced against the overwrite mode"
    return _check_map(out, model)


def h_adder_two(ow: int, raw1: int, raw2: int, a: int, has_lcr: bool, lcr: int,
                k1: int, k2: int, has_new1: bool, has_new2: bool, u1: int, u2: int, now: int) -> bool:
    """
    pre: 0 <= ow <= 2 and 0 <= raw1 < len(RAW) and 0 <= raw2 < len(RAW) and raw1 != raw2
    pre: 0 <= a <= 3 and 0 <= k1 <= 1 and 0 <= k2 <= 1
    pre: _ok("ow", ow) and _ok("raw", raw1) and _ok("raw", raw2) and _ok("a", a) and _ok("k", k1) and _ok("k", k2)
    post: _ == True
    """
    packed, model = _prestate(a, _old_md(False, 0, True, has_lcr, lcr, 5, 6))
    before = _snap(packed)
    node = _Codec()
    c1, c2 = _mkchild(k1, b"n1"), _mkchild(k2, b"n2")
    m1 = {"user2": u1} if has_new1 else None
    m2 = {"user2": u2} if has_new2 else None
    _Clock.now = now
    # entries is a plain dict: adds happen in insertion order
    ad = D.Adder(node, {_pick(RAW, raw1): (c1, m1), _pick(RAW, raw2): (c2, m2)}, overwrite=_pick(OW, ow))
    want_exc = _model_add(model, _pick(NFC, raw1), k1, b"n1", False, m1, ow, now, diminish=False)
    if want_exc is None:
        want_exc = _model_add(model, _pick(NFC, raw2), k2, b"n2", False, m2, ow, now, diminish=False)
    try:
        out = ad.modify(packed, None, True)
    except ExistingChildError:
        if want_exc != "exists":
            return "ExistingChildError although the overwrite mode allows the adds"
        if not _entries_eq(packed, before):
            return "contents changed by a refused add"
        return True
    if want_exc is not None:
        return "existing child replaced against the overwrite mode"
    return _check_map(out, model)


def h_deleter(raw: int, a: int, must_exist: bool, first_time: bool, mbd: bool, mbf: bool) -> bool:
    """
    pre: 0 <= raw < len(RAW) and 0 <= a < A_SEL
    pre: _ok("raw", raw) and _ok("a", a)
    post: _ == True
    """
    packed, model = _prestate(a, _old_md(False, 0, True, True, 3, 4, 5))
    before = _snap(packed)
    node = _Codec()
    dl = D.Deleter(node, _pick(RAW, raw), must_exist=must_exist, must_be_directory=mbd, must_be_file=mbf)
    name = _pick(NFC, raw)
    present = name in model
    try:
        out = dl.modify(packed, None, first_time)
    except NoSuchChildError:
        if present:
            return "NoSuchChildError for a name that is present"
        if not (must_exist and first_time):
            return "NoSuchChildError although must_exist is off (or this is a retry)"
        return True if _entries_eq(packed, before) else "contents changed by failed delete"
    except ChildOfWrongTypeError:
        if not present:
            return "ChildOfWrongTypeError for a missing name"
        k = model[name][0]
        if not ((mbd and k == 0) or (mbf and k == 1)):
            return "ChildOfWrongTypeError although the child has an acceptable type"
        return True if _entries_eq(packed, before) else "contents changed by failed delete"
    if not present:
        if must_exist and first_time:
            return "missing child with must_exist did not raise"
        if out is not None or dl.old_child is not None:
            return "delete of a missing name must be a no-op"
        return True
    k = model[name][0]
    if (mbd and k == 0) or (mbf and k == 1):
        return "child of the wrong type was deleted"
    want_child = model[name]
    del model[name]
    if dl.old_child is None or not _same_child(dl.old_child, want_child[0], want_child[1], want_child[2]):
        return "old_child is not the removed child"
    return _check_map(out, model)


def h_mdsetter(raw: int, a: int, shape: int, nm: int, with_ron: bool, first_time: bool,
               ctime: int, lcr: int, lmo: int, u_old: int, nt: int, u_new: int, now: int) -> bool:
    """
    pre: 0 <= raw < len(RAW) and 0 <= a < A_SEL and 0 <= shape < SHAPES and 1 <= nm < NM_SEL
    pre: _ok("raw", raw) and _ok("a", a) and _ok("shape", shape) and _ok("nm", nm)
    post: _ == True
    """
    assume(a != 0 or shape == 0)
    packed, model = _prestate(a, _shape_md(shape, ctime, lcr, lmo, u_old))
    before = _snap(packed)
    node = _Codec()
    newmd = _sel_new_md(nm, nt, u_new, model)
    ron = _RONode() if with_ron else None
    _Clock.now = now
    ms = D.MetadataSetter(node, _pick(RAW, raw), newmd, create_readonly_node=ron)
    name = _pick(NFC, raw)
    try:
        out = ms.modify(packed, None, first_time)
    except NoSuchChildError:
        if name in model:
            return "NoSuchChildError for a name that is present"
        return True if _entries_eq(packed, before) else "contents changed by failed set-metadata"
    if name not in model:
        return "set-metadata on a missing name did not raise"
    (k, tag, ro, omd) = model[name]
    md = _model_md(omd, _cp(newmd), now)
    if with_ron and md.get("no-write", False):
        ro = True
    model[name] = (k, tag, ro, md)
    return _check_map(out, model)


# ---------------------------------------------------------------------------------------------------
# DirectoryNode level: real set_node / delete / set_metadata_for / move_child_to on a fake backing file
# ---------------------------------------------------------------------------------------------------

class _FakeMutableFile(object):
    def __init__(self, packed, readonly=False, fail_modify=False):
        self.contents = packed
        self.readonly = readonly
        self.fail_modify = fail_modify
        self.modify_calls = 0

    def is_readonly(self):
        return self.readonly

    def is_mutable(self):
        return True

    def get_writekey(self):
        return b"wk"

    def download_best_version(self):
        return defer.succeed(self.contents)

    def modify(self, modifier):
        self.modify_calls += 1      # (a read-only backing file still applies the change: worst case for the oracle)
        if self.fail_modify:
            return defer.fail(Failure(UncoordinatedWriteError()))
        try:
            new = modifier(self.contents, None, True)
        except Exception:
            return defer.fail(Failure())
        if new is not None:
            self.contents = new
        return defer.succeed(None)


class _NM(object):
    """nodemaker for _create_readonly_node: ro cap b'ro:<tag>' of kind k -> read-only token"""

    def __init__(self):
        self.calls = []
        self.kinds = {}

    def create_from_cap(self, rw_uri, ro_uri, deep_immutable=False, name=None):
        self.calls.append((rw_uri, ro_uri, deep_immutable))
        if rw_uri is not None or not ro_uri.startswith(b"ro:"):
            raise hlib.HarnessError("unexpected create_from_cap(%r, %r)" % (rw_uri, ro_uri))
        tag = ro_uri[3:]
        return _pick(_KINDS, self.kinds.get(tag, 0))(tag, True)


class _TDir(_Codec, D.DirectoryNode):
    """the real DirectoryNode with the identity codec mixed in"""
    kind = 1
    ro = False

    def __init__(self, tag, packed, readonly=False, fail_modify=False, nm=None):
        self.tag = tag
        self._node = _FakeMutableFile(packed, readonly, fail_modify)
        self._uri = NS(to_string=lambda: b"URI:DIR2:" + tag,
                       get_readonly=lambda: NS(to_string=lambda: b"URI:DIR2-RO:" + tag))
        self._nodemaker = nm or _NM()
        self._uploader = None

    def __repr__(self):
        return "<_TDir %r>" % (self.tag,)


def _outcome(d):
    out = []
    d.addCallbacks(lambda r: out.append(("ok", r)), lambda f: out.append(("err", f)))
    if not out:
        raise hlib.HarnessError("Deferred did not fire synchronously")
    return out[0]


def h_move(ow: int, src_raw: int, dst_raw: int, dst_none: bool, where: int, sa: int, ta: int, has_lcr: bool,
           src_rdonly: bool, dst_rdonly: bool, fail_add: bool, lcr: int, s_lcr: int, s_user: int, now: int) -> bool:
    """
    pre: 0 <= ow <= 2 and 0 <= where <= 2 and 0 <= sa <= 2 and 0 <= ta <= 3
    pre: src_raw in (1, 2, 4) and dst_raw in (0, 1, 3, 4)
    pre: _ok("ow", ow) and _ok("src_raw", src_raw) and _ok("dst_raw", dst_raw) and _ok("where", where) and _ok("sa", sa) and _ok("ta", ta)
    pre: _ok("dst_none", dst_none) and _ok("src_rdonly", src_rdonly) and _ok("dst_rdonly", dst_rdonly) and _ok("fail_add", fail_add)
    post: _ == True
    """
    # where: 0 = another directory P, 1 = the same node object, 2 = a second node object for the same directory
    # source directory S: entry under T (sa: absent/file/dir) + bystander;  target directory P: entry under T (ta) + bystander.
    same_dir = where != 0
    s_md = {"tahoe": {"linkcrtime": s_lcr, "linkmotime": 21}, "user": s_user}
    t_md = _old_md(False, 0, True, has_lcr, lcr, 31, 32)
    s_packed, s_model = _prestate(sa, s_md)
    nm = _NM()
    S = _TDir(b"S", s_packed, readonly=src_rdonly, nm=nm)
    if same_dir:
        assume(not fail_add and not dst_rdonly and ta == 0 and not has_lcr)
        if where == 2:
            P = _TDir(b"S", s_packed, readonly=src_rdonly, nm=nm)
            P._node = S._node
        else:
            P = S
        p_model = s_model
    else:
        p_packed, p_model = _prestate(ta, t_md)
        P = _TDir(b"P", p_packed, readonly=dst_rdonly, fail_modify=fail_add, nm=nm)
    s_before, p_before = _snap(S._node.contents), _snap(P._node.contents)
    _Clock.now = now
    src_name = _pick(NFC, src_raw)
    dst_name = src_name if dst_none else _pick(NFC, dst_raw)
    res = _outcome(S.move_child_to(_pick(RAW, src_raw), P, None if dst_none else _pick(RAW, dst_raw), overwrite=_pick(OW, ow)))

    def unchanged():
        return _entries_eq(S._node.contents, s_before) and _entries_eq(P._node.contents, p_before)

    s_ro = src_rdonly
    p_ro = src_rdonly if same_dir else dst_rdonly
    if s_ro or p_ro:
        if res[0] != "err" or not res[1].check(NotWriteableError):
            return "move involving a read-only directory did not fail with NotWriteableError"
        if S._node.modify_calls or P._node.modify_calls:
            return "read-only directory's backing file was asked to modify"
        return True if unchanged() else "contents changed"
    if same_dir and dst_name == src_name:
        # rename to itself: nothing happens (in particular the child is not deleted)
        if res[0] != "ok":
            return "rename to the same name failed"
        return True if unchanged() else "rename to the same name changed the directory"
    if src_name not in s_model:
        if res[0] != "err" or not res[1].check(NoSuchChildError):
            return "move of a missing child did not fail with NoSuchChildError"
        return True if unchanged() else "contents changed by a failed move"
    (k, tag, ro, md) = s_model[src_name]
    if fail_add:
        if res[0] != "err" or not res[1].check(UncoordinatedWriteError):
            return "failure of the add was swallowed"
        return True if unchanged() else "failed rename did not leave the child under its old name"
    # the add into P: the source link's metadata is the caller's metadata
    exc = _model_add(p_model, dst_name, k, tag, ro, _cp(md), ow, now)
    if exc == "exists":
        if res[0] != "err" or not res[1].check(ExistingChildError):
            return "move onto an existing child against the overwrite mode did not fail with ExistingChildError"
        return True if unchanged() else "failed rename did not leave the child under its old name"
    if res[0] != "ok":
        return "move failed: %r" % (res[1],)
    del s_model[src_name]
    r = _check_map(S._node.contents, s_model)
    if r is not True:
        return "source: " + r
    r = _check_map(P._node.contents, p_model)
    if r is not True:
        return "target: " + r
    return True


def h_dir_ops(op: int, raw: int, ow: int, a: int, shape: int, n: int, nm: int, rdonly: bool, must_exist: bool, mbd: bool,
              mbf: bool, ctime: int, lcr: int, u_new: int, now: int) -> bool:
    """
    pre: 0 <= op <= 3 and 0 <= raw < len(RAW) and 0 <= ow <= 2 and 0 <= a < A_SEL and 0 <= shape < SHAPES and 0 <= n <= 2 and 0 <= nm < NM_SEL
    pre: _ok("op", op) and _ok("raw", raw) and _ok("ow", ow) and _ok("a", a) and _ok("shape", shape) and _ok("n", n) and _ok("nm", nm)
    pre: _ok("rdonly", rdonly)
    post: _ == True
    """
    assume(a != 0 or shape == 0)
    if op <= 1:
        assume(must_exist and not mbd and not mbf)
    elif op == 2:
        assume(ow == 0 and n == 0 and nm == 0)
    else:
        assume(ow == 0 and n == 0 and nm != 0 and must_exist and not mbd and not mbf)
    packed, model = _prestate(a, _shape_md(shape, ctime, lcr, 41, 42))
    nmk = _NM()
    (n_kind, _nro) = _n_kind_ro(n)
    nmk.kinds = {b"old": (_a_kind_ro(a)[0] if a != 0 else 0), b"new": n_kind, b"by": 0}
    Dn = _TDir(b"D", packed, readonly=rdonly, nm=nmk)
    before = _snap(packed)
    _Clock.now = now
    name = _pick(NFC, raw)
    rawname = _pick(RAW, raw)
    child = _mkchild(n_kind, b"new")
    newmd = _sel_new_md(nm, 0, u_new, model)
    want = None      # None = success; else the exception class
    removed = None
    if op == 0:
        res = _outcome(Dn.set_node(rawname, child, newmd, overwrite=_pick(OW, ow)))
        if not rdonly:
            if _model_add(model, name, n_kind, b"new", False, _cp(newmd) if newmd is not None else None, ow, now) == "exists":
                want = ExistingChildError
    elif op == 1:
        res = _outcome(Dn.set_nodes({rawname: (child, newmd)}, overwrite=_pick(OW, ow)))
        if not rdonly:
            if _model_add(model, name, n_kind, b"new", False, _cp(newmd) if newmd is not None else None, ow, now) == "exists":
                want = ExistingChildError
    elif op == 2:
        res = _outcome(Dn.delete(rawname, must_exist=must_exist, must_be_directory=mbd, must_be_file=mbf))
        if not rdonly:
            if name not in model:
                if must_exist:
                    want = NoSuchChildError
            else:
                k = model[name][0]
                if (mbd and k == 0) or (mbf and k == 1):
                    want = ChildOfWrongTypeError
                else:
                    removed = model[name]
                    del model[name]
    else:
        res = _outcome(Dn.set_metadata_for(rawname, newmd))
        if not rdonly:
            if name not in model:
                want = NoSuchChildError
            else:
                (k, tag, ro, omd) = model[name]
                md = _model_md(omd, _cp(newmd), now)
                model[name] = (k, tag, ro or bool(md.get("no-write", False)), md)
    if rdonly:
        want = NotWriteableError
        if Dn._node.modify_calls:
            return "read-only directory's backing file was asked to modify"
    if want is not None:
        if res[0] != "err" or not res[1].check(want):
            return "expected %s, got %r" % (want.__name__, res)
        return True if _entries_eq(Dn._node.contents, before) else "contents changed by a failed operation"
    if res[0] != "ok":
        return "operation failed: %r" % (res[1],)
    if op == 0 and res[1] is not child:
        return "set_node does not fire with the child"
    if op in (1, 3) and res[1] is not Dn:
        return "operation does not fire with the dirnode"
    if op == 2:
        if removed is None:
            if res[1] is not None:
                return "delete of a missing child fired with a node"
        elif res[1] is None or not _same_child(res[1], removed[0], removed[1], removed[2]):
            return "delete does not fire with the removed child"
    r = _check_map(Dn._node.contents, model)
    if r is not True:
        return r
    # observation through the read API agrees with the map
    got = _outcome(Dn.has_child(rawname))
    if got != ("ok", name in model):
        return "has_child disagrees with the map"
    return True


# ---------------------------------------------------------------------------------------------------
# two-operation histories over two directories (the per-operation obligations are the inductive step; this runs
# real operation pairs so that link-creation time / modification time are followed across updates)
# ---------------------------------------------------------------------------------------------------

def _model_apply(models, op, raw, dst, ow, nm, now, tag):
    """apply one operation to the map models {'S': {...}, 'P': {...}}; returns the expected exception class or None"""
    S, P = models["S"], models["P"]
    name = _pick(NFC, raw)
    if op == 0:        # S.set_node(name, new file, metadata)
        newmd = {"user2": 7} if nm else None
        if _model_add(S, name, 0, tag, False, newmd, ow, now) == "exists":
            return ExistingChildError
        return None
    if op == 1:        # S.delete(name)
        if name not in S:
            return NoSuchChildError
        del S[name]
        return None
    if op == 2:        # S.set_metadata_for(name, {...})
        if name not in S:
            return NoSuchChildError
        (k, t, ro, omd) = S[name]
        S[name] = (k, t, ro, _model_md(omd, {"user2": 8}, now))
        return None
    # move: 3 = S -> P, 4 = within S
    T_ = P if op == 3 else S
    dname = _pick(NFC, dst)
    if op == 4 and dname == name:
        return None
    if name not in S:
        return NoSuchChildError
    (k, t, ro, md) = S[name]
    if _model_add(T_, dname, k, t, ro, _cp(md), ow, now) == "exists":
        return ExistingChildError
    del S[name]
    return None


def _real_apply(dirs, op, raw, dst, ow, nm, tag):
    S, P = dirs["S"], dirs["P"]
    rawname = _pick(RAW, raw)
    if op == 0:
        return _outcome(S.set_node(rawname, _File(tag), {"user2": 7} if nm else None, overwrite=_pick(OW, ow)))
    if op == 1:
        return _outcome(S.delete(rawname))
    if op == 2:
        return _outcome(S.set_metadata_for(rawname, {"user2": 8}))
    return _outcome(S.move_child_to(rawname, P if op == 3 else S, _pick(RAW, dst), overwrite=_pick(OW, ow)))


def _step_table(which):
    """all parameter tuples (op, raw, dst, ow, nm) a step may take under the bounds; parameters only vary where the operation uses them"""
    ops = B.get(which, [0, 1, 2, 3, 4])
    raws = B.get("raws", [1, 2, 4])
    dsts = B.get("dsts", [0, 2, 4])
    ows = B.get("ow", [0, 1, 2])
    nms = B.get("nm", [False, True])
    out = []
    for op in ops:
        for raw in raws:
            if op == 0:
                for ow in ows:
                    for nm in nms:
                        out.append((0, raw, 0, ow, nm))
            elif op in (1, 2):
                out.append((op, raw, 0, 0, False))
            else:
                for dst in dsts:
                    for ow in ows:
                        out.append((op, raw, dst, ow, False))
    return out


STEP1, STEP2 = _step_table("op1"), _step_table("op2")


def h_history2(sa: int, pa: int, i1: int, i2: int, lcr: int, now1: int, now2: int) -> bool:
    """
    pre: 0 <= sa <= 2 and 0 <= pa <= 2 and 0 <= i1 < len(STEP1) and 0 <= i2 < len(STEP2)
    pre: _ok("sa", sa) and _ok("pa", pa)
    post: _ == True
    """
    (op1, raw1, dst1, ow1, nm1) = _pick(STEP1, i1)
    (op2, raw2, dst2, ow2, nm2) = _pick(STEP2, i2)
    md = {"tahoe": {"linkcrtime": lcr, "linkmotime": lcr}, "user": 1}
    s_packed, s_model = _prestate(sa, md)
    p_packed, p_model = _prestate(pa, md)
    nmk = _NM()
    dirs = {"S": _TDir(b"S", s_packed, nm=nmk), "P": _TDir(b"P", p_packed, nm=nmk)}
    models = {"S": s_model, "P": p_model}
    steps = ((op1, raw1, dst1, ow1, nm1, now1, b"new1"), (op2, raw2, dst2, ow2, nm2, now2, b"new2"))
    for (op, raw, dst, ow, nm, now, tag) in steps:
        _Clock.now = now
        before = (_snap(dirs["S"]._node.contents), _snap(dirs["P"]._node.contents))
        want = _model_apply(models, op, raw, dst, ow, nm, now, tag)
        res = _real_apply(dirs, op, raw, dst, ow, nm, tag)
        if want is not None:
            if res[0] != "err" or not res[1].check(want):
                return "operation %d: expected %s, got %r" % (op, want.__name__, res)
            if not (_entries_eq(dirs["S"]._node.contents, before[0]) and _entries_eq(dirs["P"]._node.contents, before[1])):
                return "failed operation %d changed a directory" % op
        elif res[0] != "ok":
            return "operation %d failed: %r" % (op, res[1])
        for key in ("S", "P"):
            r = _check_map(dirs[key]._node.contents, models[key])
            if r is not True:
                return "after operation %d, directory %s: %s" % (op, key, r)
    return True
