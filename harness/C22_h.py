"""
C22 — immutable share storage semantics.

Real BucketWriter / ShareFile / BucketReader / StorageServer.get_shares/get_buckets/allocate_buckets/
bucket_writer_closed on the in-memory filesystem (_fakefile.py) with the RangeMap stand-in.  Upload data
is provenance (source tag, source offset): two writes "agree" on a position iff they put the same source
byte there.
"""
from vlib import hlib
from vlib.hlib import ProvBuf, assume
import _sharefix as X
from _sharefix import FS, FStruct, SF, ILEASE, Garbage
from allmydata.storage import immutable as imm, server as server_mod
from allmydata.storage.lease import LeaseInfo
from allmydata.interfaces import ConflictingWriteError, DataTooLargeError

B = hlib.bounds()
NOTES = X.NOTES + [
    "time.time in storage/immutable.py (latency statistics of BucketReader.read) replaced by a constant clock",
    "BucketWriter timers: recording clock (callLater/reset/cancel/active), fired by the harness",
    "BucketWriter.write: the message literal of ConflictingWriteError is not formatted with the (symbolic) chunk offsets",
]


class _T(object):
    @staticmethod
    def time():
        return 0.0


imm.time = _T


class _Msg(object):
    """stand-in for the message literal of ConflictingWriteError: .format() of symbolic offsets would realise them"""

    def format(self, *a, **kw):
        return "Chunk doesn't match already written data."


hlib.strip_method(imm.BucketWriter, "write", consts={"Chunk {}-{} doesn't match already written data.": _Msg()})
hlib.strip_method(imm.BucketWriter, "abort")
hlib.strip_method(imm.BucketWriter, "_abort_due_to_timeout")
hlib.strip_method(X.SS, "allocate_buckets")
hlib.strip_method(X.SS, "get_buckets")
hlib.encoded(imm.BucketWriter.__init__, imm.BucketWriter._is_finished, imm.BucketWriter.required_ranges,
             imm.BucketWriter.close, imm.BucketWriter.disconnected, imm.BucketWriter.allocated_size,
             imm.BucketReader.__init__, imm.BucketReader.read, imm.BucketReader.get_length,
             SF.__init__, SF.read_share_data, SF.write_share_data, SF.add_lease, SF.get_length,
             X.SS.get_shares, X.SS.bucket_writer_closed, X.SS.allocated_size, X.SS.get_available_space)

PATH = X.share_path(0)
INC = X.incoming_path(0)
LI = LeaseInfo(1, X.tok("R", 9), X.tok("C", 9), 5000, X.NODEID)


class _SSRec(object):
    def __init__(self):
        self.closed = []

    def add_latency(self, *a):
        pass

    def count(self, *a):
        pass

    def bucket_writer_closed(self, bw, size):
        self.closed.append((bw, size))


def _new_writer(size):
    X.reset()
    FS.split_hint = 0xc
    ss = _SSRec()
    clock = X.Clock()
    bw = imm.BucketWriter(ss, INC, PATH, size, LI, clock)
    return bw, ss, clock


def _union_len(ivs):
    """total length of the union of half-open intervals (independent little sweep)."""
    ivs = [(a, b) for (a, b) in ivs if a < b]
    ivs.sort(key=lambda iv: iv[0])
    total = 0
    cur_a = cur_b = None
    for (a, b) in ivs:
        if cur_a is None:
            cur_a, cur_b = a, b
        elif a <= cur_b:
            if b > cur_b:
                cur_b = b
        else:
            total = total + (cur_b - cur_a)
            cur_a, cur_b = a, b
    if cur_a is not None:
        total = total + (cur_b - cur_a)
    return total


def _writes(size, ws, p, nw):
    """Apply nw writes ws[i] = (off, ln, tagB, d) through the real BucketWriter.write; check each against the model."""
    bw, ss, clock = _new_writer(size)
    st = FS.get(INC)
    accepted = []                      # model: accepted writes (off, ln, tag, d)
    for i in range(nw):
        (off, ln, tag_b, d) = ws[i]
        tag = "B" if tag_b else "A"
        data = ProvBuf.src(tag, ln, off + d)
        conflict = False
        for (o2, l2, t2, d2) in accepted:
            lo = off if off > o2 else o2
            hi = off + ln if off + ln < o2 + l2 else o2 + l2
            if lo < hi and (t2 != tag or d2 != d):
                conflict = True
        too_large = off + ln > size
        nops = FS.nops
        ranges_before = [tuple(r) for r in bw._already_written.ranges()]
        before_p = st.at(0xc + p)
        try:
            finished = bw.write(off, data)
        except ConflictingWriteError:
            if not conflict:
                return "ConflictingWriteError although the write agrees with everything stored (write %d)" % i
            if FS.nops != nops or [tuple(r) for r in bw._already_written.ranges()] != ranges_before:
                return "rejected write changed stored data / written ranges"
            continue
        except DataTooLargeError:
            if not too_large:
                return "DataTooLargeError for a write inside the allocated size"
            if FS.nops != nops or [tuple(r) for r in bw._already_written.ranges()] != ranges_before:
                return "rejected write changed stored data / written ranges"
            continue
        if conflict:
            return "conflicting write accepted (write %d)" % i
        if too_large:
            return "write beyond the allocated size accepted"
        accepted.append((off, ln, tag, d))
        if off <= p < off + ln:
            if st.at(0xc + p) != (tag, p + d):
                return "stored byte is not the written byte"
        elif st.at(0xc + p) != before_p:
            return "write changed a byte outside its range"
        want_finished = _union_len([(o, o + l) for (o, l, _t, _d) in accepted]) == size
        if finished != want_finished:
            return "write() return value: finished must mean the written ranges cover [0, allocated size)"
    # what is still required
    covered = False
    for (o, l, _t, _d) in accepted:
        if o <= p < o + l:
            covered = True
    req = bw.required_ranges()
    if (req.get(p) is not None) != (p < size and not covered):
        return "required_ranges is not the complement of the written ranges"
    # the lease written at creation is untouched by data writes
    (owner, r, c, e) = X.rec_values(st, 0xc + size, ">L32s32sL")
    if owner != 1 or r != X.hashed(2, LI.renew_secret) or e != 5000:
        return "data writes damaged the lease record"
    if st.size != 0xc + size + ILEASE:
        return "container size changed by data writes"
    return True


def h_write2(size: int, o1: int, l1: int, b1: bool, d1: int, o2: int, l2: int, b2: bool, d2: int, p: int) -> bool:
    """
    pre: 1 <= size <= B["size_max"] and 0 <= p
    pre: 0 <= o1 and 0 <= l1 and 0 <= d1 <= 1 and 0 <= o2 and 0 <= l2 and 0 <= d2 <= 1
    pre: b1 == False and d1 == 0
    post: _ == True
    """
    return X.guard(_h_write2, size, o1, l1, b1, d1, o2, l2, b2, d2, p)


def _h_write2(size, o1, l1, b1, d1, o2, l2, b2, d2, p):
    # from a freshly created writer: first write (source A), then an arbitrary second one
    return _writes(size, [(o1, l1, b1, d1), (o2, l2, b2, d2)], p, 2)


def _prestate(size, n, g0, l0, g1, l1):
    """
    A BucketWriter in the middle of an upload: n (0..2) disjoint, non-adjacent written ranges
    [a_i, b_i) holding bytes of source "A" (position q holds A[q]), holes elsewhere; container with
    its creation-time lease.  (What any sequence of agreeing writes produces: RangeMap merges
    overlapping / adjacent ranges.)
    """
    X.reset()
    ranges = []
    tail = []
    pos = 0
    for (g, l) in ((g0, l0), (g1, l1))[:n]:
        a = pos + g
        ranges.append((a, a + l))
        tail.append((ProvBuf.ZERO, 0, g))
        tail.append(("A", a, l))
        pos = a + l
    tail.append((ProvBuf.ZERO, 0, size - pos))
    lease = X.ilease_rec(1, X.hashed(2, LI.renew_secret), X.hashed(2, LI.cancel_secret), 5000)
    tail.append((lease, 0, ILEASE))
    head = [(FStruct.pack(">LLL", 2, size if size < X.U32 - 1 else X.U32 - 1, 1), 0, 0xc)]
    st = FS.put(INC, head, tail, size + ILEASE, split=0xc)
    ss = _SSRec()
    clock = X.Clock()
    bw = imm.BucketWriter.__new__(imm.BucketWriter)
    bw.ss, bw.incominghome, bw.finalhome, bw._max_size = ss, INC, PATH, size
    bw.closed = False
    bw.throw_out_all_data = False
    sf = SF(INC)
    sf._max_size = size
    bw._sharefile = sf
    bw._already_written = imm.RangeMap()
    for (a, b) in ranges:
        bw._already_written.set(True, a, b)
    bw._clock = clock
    bw._timeout = clock.callLater(30 * 60, bw._abort_due_to_timeout)
    return bw, st, ranges


def _valid_pre(size, n, g0, l0, g1, l1):
    if not (0 <= n <= 2):
        return False
    end = 0
    if n >= 1:
        if g0 < 0 or l0 < 1:
            return False
        end = g0 + l0
    if n >= 2:
        if g1 < 1 or l1 < 1:
            return False
        end = end + g1 + l1
    return end <= size


def _step(size, n, g0, l0, g1, l1, off, ln, tag_b, d):
    """one arbitrary write on the pre-state -> (verdict string or None, bw, st, ranges, finished, overlap)"""
    bw, st, ranges = _prestate(size, n, g0, l0, g1, l1)
    tag = "B" if tag_b else "A"
    data = ProvBuf.src(tag, ln, off + d)          # file position q gets tag[q + d]
    overlap = 0
    for (a, b) in ranges:
        lo = off if off > a else a
        hi = off + ln if off + ln < b else b
        if lo < hi:
            overlap = overlap + (hi - lo)
    conflict = overlap > 0 and (tag_b or d != 0)
    too_large = off + ln > size
    try:
        finished = bw.write(off, data)
    except (ConflictingWriteError, DataTooLargeError) as e:
        if isinstance(e, ConflictingWriteError) and not conflict:
            return "ConflictingWriteError although the write agrees with everything stored", None
        if isinstance(e, DataTooLargeError) and not too_large:
            return "DataTooLargeError for a write inside the allocated size", None
        if FS.nops != 0 or [tuple(r)[:2] for r in bw._already_written.ranges()] != ranges:
            return "rejected write changed stored data / written ranges", None
        return "rejected", None
    if conflict:
        return "write that differs from already stored bytes was accepted", None
    if too_large:
        return "write beyond the allocated size accepted", None
    return None, (bw, st, ranges, finished, overlap, data)


def h_write_step(size: int, n: int, g0: int, l0: int, g1: int, l1: int, off: int, ln: int, tag_b: bool, d: int) -> bool:
    """
    pre: 1 <= size <= B["size_max"] and n == B["n"] and _valid_pre(size, n, g0, l0, g1, l1)
    pre: 0 <= off and 0 <= ln and 0 <= d <= 1
    post: _ == True
    """
    return X.guard(_h_write_step, size, n, g0, l0, g1, l1, off, ln, tag_b, d)


def _h_write_step(size, n, g0, l0, g1, l1, off, ln, tag_b, d):
    verdict, r = _step(size, n, g0, l0, g1, l1, off, ln, tag_b, d)
    if verdict == "rejected":
        return True
    if verdict is not None:
        return verdict
    (bw, st, ranges, finished, overlap, data) = r
    # effect on the container: exactly one low-level write, of exactly the client's bytes, at data offset + off
    # (so bytes inside [off, off+ln) are the new data and every other byte of the file is untouched);
    # the resulting bytes are additionally probed position by position in the `write2` history obligation
    if len(FS.log) != 1:
        return "an accepted write must be one write to the container (got %d low-level calls)" % len(FS.log)
    (op, path, payload, pos) = FS.log[0]
    if op != "write" or path != INC or payload is not data or pos != 0xc + off:
        return "the client's bytes were not written at data offset + off"
    written = ln - overlap
    for (a, b) in ranges:
        written = written + (b - a)
    if finished != (written == size):
        return "write() return value: finished must mean the written ranges cover [0, allocated size)"
    (owner, r, c, e) = X.rec_values(st, 0xc + size, ">L32s32sL")
    if owner != 1 or r != X.hashed(2, LI.renew_secret) or e != 5000 or st.size != 0xc + size + ILEASE:
        return "data write damaged the lease record / container size"
    if bw._timeout.resets != [30 * 60]:
        return "write did not push back the upload timeout"
    return True


def h_required_ranges(size: int, n: int, g0: int, l0: int, g1: int, l1: int, p: int) -> bool:
    """
    pre: 1 <= size <= B["size_max"] and _valid_pre(size, n, g0, l0, g1, l1) and 0 <= p
    post: _ == True
    """
    return X.guard(_h_required_ranges, size, n, g0, l0, g1, l1, p)


def _h_required_ranges(size, n, g0, l0, g1, l1, p):
    bw, st, ranges = _prestate(size, n, g0, l0, g1, l1)
    covered = False
    total = 0
    for (a, b) in ranges:
        total = total + (b - a)
        if a <= p < b:
            covered = True
    if (bw.required_ranges().get(p) is not None) != (p < size and not covered):
        return "required_ranges is not the complement of the written ranges within [0, allocated size)"
    if bw._is_finished() != (total == size):
        return "_is_finished must mean the written ranges cover [0, allocated size)"
    if bw.allocated_size() != size:
        return "allocated_size"
    return True


def h_share_read(dlen: int, n: int, off: int, ln: int, p: int) -> bool:
    """
    pre: 0 <= dlen <= B["size_max"] and 0 <= n <= 2 and 0 <= off and 0 <= p
    post: _ == True
    """
    return X.guard(_h_share_read, dlen, n, off, ln, p)


def _h_share_read(dlen, n, off, ln, p):
    X.reset()
    leases = [X.ilease_rec(1, X.tok("r", i), X.tok("c", i), 1000 + i) for i in range(n)]
    X.mk_immutable(PATH, dlen, leases)
    ss = _SSRec()
    br = imm.BucketReader(ss, PATH, X.SI, 0)
    if br.get_length() != dlen:
        return "get_length is not the number of data bytes"
    got = br.read(off, ln)
    end = off + ln if off + ln < dlen else dlen
    want = end - off if end > off else 0
    if len(got) != want:
        return "read is not clipped at the end of the share data (lease bytes / nothing must leak)"
    if p < want and got.at(p) != ("old", off + p):
        return "read returned wrong bytes"
    if FS.nops != 0:
        return "read modified the file"
    return True


# ---- visibility and release: allocate / close / abort / timeout / disconnect ---------------------------------

def _visible(ss):
    return sorted(ss.get_buckets(X.SI).keys())


def h_lifecycle(size: int, wlen: int, ev1: int, ev2: int, other: bool, p: int) -> bool:
    """
    pre: 1 <= size <= B["size_max"] and 0 <= wlen <= size and ev1 == B["ev1"] and 0 <= ev2 <= 3
    pre: B.get("other") is None or other == B["other"]
    pre: 0 <= p
    post: _ == True
    """
    return X.guard(_h_lifecycle, size, wlen, ev1, ev2, other, p)


def _h_lifecycle(size, wlen, ev1, ev2, other, p):
    X.reset()
    FS.split_hint = 0xc
    clock = X.Clock()
    ss = X.mk_server(clock=clock)
    handled = []
    ss.register_bucket_writer_close_handler(handled.append)
    want_nums = set([0, 1]) if other else set([0])
    already, writers = ss.allocate_buckets(X.SI, LI.renew_secret, LI.cancel_secret, want_nums, size)
    if already != set() or sorted(writers.keys()) != sorted(want_nums):
        return "allocation on an empty server"
    bw = writers[0]
    if _visible(ss) != []:
        return "share visible to readers before the upload completed"
    if ss.allocated_size() != size * len(want_nums):
        return "reservation is not the allocated size"
    bw.write(0, ProvBuf.src("up", wlen, 0))
    if _visible(ss) != []:
        return "share visible to readers before the upload completed"
    timer = clock.timers[0]
    # ev: 0 close, 1 abort, 2 timeout fires, 3 client disconnects
    for (k, ev) in enumerate((ev1, ev2)):
        if ev == 0:
            if bw.closed:
                continue                  # close() after the end is a client bug (precondition)
            bw.close()
        elif ev == 1:
            bw.abort()
        elif ev == 2:
            if not timer.active():
                continue                  # a cancelled timer cannot fire
            timer.fire()
        else:
            bw.disconnected()
        if k == 0:
            done_by_close = (ev == 0)
    if handled != [bw]:
        return "bucket_writer_closed handlers must run exactly once for the writer (got %d)" % len(handled)
    if ss.allocated_size() != (size if other else 0):
        return "space reservation not released"
    if timer.active():
        return "timeout timer still pending after the upload ended"
    if FS.os.path.exists(INC):
        return "incoming file left behind"
    if other:
        if not FS.os.path.exists(X.incoming_path(1)):
            return "ending one upload removed another upload's incoming file"
    elif FS.os.path.exists(X.INBUCKET):
        return "empty incoming bucket directory left behind"
    if done_by_close:
        if _visible(ss) != [0]:
            return "closed share is not visible"
        br = ss.get_buckets(X.SI)[0]
        if br.get_length() != size:
            return "closed share has the wrong length"
        got = br.read(p, 1)
        if p < size:
            if len(got) != 1 or (p < wlen and got.at(0) != ("up", p)):
                return "read of the closed share returned wrong bytes"
        elif len(got) != 0:
            return "read of the closed share is not clipped at the allocated size"
    else:
        if _visible(ss) != [] or FS.os.path.exists(PATH):
            return "aborted / timed-out / disconnected upload left a share behind"
    return True


# ---- client disconnect through the Foolscap front end: every writer of the call is aborted -----------------

class _Canary(object):
    """recording canary: notifyOnDisconnect registrations, fired by the harness"""

    def __init__(self):
        self.registered = []          # [marker, callback, args, kwargs, active]

    def notifyOnDisconnect(self, cb, *a, **kw):
        marker = len(self.registered)
        self.registered.append([marker, cb, a, kw, True])
        return marker

    def dontNotifyOnDisconnect(self, marker):
        self.registered[marker][4] = False

    def disconnect(self):
        for r in self.registered:
            if r[4]:
                r[4] = False
                r[1](*r[2], **r[3])


hlib.encoded(server_mod.FoolscapStorageServer.__init__, server_mod.FoolscapStorageServer.remote_allocate_buckets,
             server_mod.FoolscapStorageServer._bucket_writer_closed, imm.FoolscapBucketWriter.remote_write,
             imm.FoolscapBucketWriter.remote_close, imm.FoolscapBucketWriter.remote_abort)


def h_foolscap_disconnect(size: int, three: bool, wlen: int, first: int, which: int) -> bool:
    """
    pre: 1 <= size <= B["size_max"] and 0 <= wlen <= size and 0 <= first <= 2 and 0 <= which <= 2
    post: _ == True
    """
    return X.guard(_h_foolscap_disconnect, size, three, wlen, first, which)


def _h_foolscap_disconnect(size, three, wlen, first, which):
    X.reset()
    FS.split_hint = 0xc
    clock = X.Clock()
    ss = X.mk_server(clock=clock)
    fss = server_mod.FoolscapStorageServer(ss)
    canary = _Canary()
    nums = [0, 1, 2] if three else [0, 1]
    assume(which < len(nums))
    already, writers = fss.remote_allocate_buckets(X.SI, LI.renew_secret, LI.cancel_secret, set(nums), size, canary)
    if sorted(writers.keys()) != nums or ss.allocated_size() != size * len(nums):
        return "allocation of several shares in one call"
    writers[which].remote_write(0, ProvBuf.src("up", wlen, 0))
    # before the connection drops one upload may already have ended: 0 nothing, 1 closed, 2 aborted by the client
    if first == 1:
        writers[which].remote_close()
    elif first == 2:
        writers[which].remote_abort()
    canary.disconnect()
    # every upload of the lost connection that was still in progress is gone; only a closed one is kept
    if ss.allocated_size() != 0 or len(ss._bucket_writers) != 0:
        return "client disconnect left a space reservation / an in-progress writer behind"
    for n in nums:
        if FS.os.path.exists(X.incoming_path(n)):
            return "client disconnect left an incoming file behind"
        kept = (first == 1 and n == which)
        if FS.os.path.exists(X.share_path(n)) != kept:
            return "after a disconnect exactly the shares closed before it must exist"
    if sorted(ss.get_buckets(X.SI).keys()) != ([which] if first == 1 else []):
        return "visible shares after the disconnect"
    for t in clock.timers:
        if t.active():
            return "an upload timeout is still pending after the disconnect"
    return True
