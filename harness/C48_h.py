"""
C48 — configuration values parse to their documented meaning.  Direct z3 string/regex/integer queries over
models generated at run time from the live functions:

* `parse_duration`: the pattern, flags and method are captured from the call the function really makes (its
  module-level `re` is wrapped for one call); `time_map` is evaluated from the function's AST;
* `parse_abbreviated_size`: pattern/method captured the same way, `.upper()` on the subject is modelled by the
  preimage of every atom under the real `str.upper` (MappedRx); the multiplier dict is evaluated from the AST;
* `abbreviate_space`: print language built from the live format-string constants in its AST;
* `parse_date`/`iso_utc_time_to_seconds`: the compiled default-argument regex object.

Everything extracted is compared with the real functions on a concrete corpus each run (HarnessError on mismatch).
The documented grammars/values (SPEC_*) are written here from docs/garbage-collection.rst and docs/configuration.rst.
"""
import ast
import inspect
import re
import sys
import textwrap
import time
import unicodedata

import z3

from vlib import hlib
import _rx
from _rx import Rx, MappedRx, cat, alt, eps, lit_re, chars_re, z2py

from allmydata.util import time_format, abbreviate

NOTES = [
    "parse_duration / parse_abbreviated_size: pattern, flags, method and subject captured from the real call (module-level `re` wrapped for one call)",
    "time_map / multiplier dicts evaluated from the functions' ASTs; group->number / group->unit wiring and .lower()/.upper()/strip-'B' are hand models validated on the corpus",
    "calendar.timegm: arithmetic model (proleptic Gregorian day count) validated against the real function on a grid of dates",
    "int() on a \\d+ group: decimal value (checked per character of the live \\d class against unicodedata.decimal)",
]

# ---- specification side -------------------------------------------------------------------------------------------
DAY = 24 * 60 * 60
SPEC_DURATION = {"day": DAY, "days": DAY, "mo": 31 * DAY, "month": 31 * DAY, "months": 31 * DAY, "year": 365 * DAY, "years": 365 * DAY}
SPEC_SECONDS = {"s": 1, "second": 1, "seconds": 1}       # accepted but undocumented: natural reading
ASCII_DIGIT = [(0x30, 0x39)]


def D():
    return chars_re(ASCII_DIGIT)


def ci(text):
    """ASCII case-insensitive literal (specification side)"""
    parts = []
    for ch in text:
        if ch.isalpha():
            parts.append(chars_re(sorted([(ord(ch.lower()), ord(ch.lower())), (ord(ch.upper()), ord(ch.upper()))])))
        else:
            parts.append(lit_re(ch))
    return cat(*parts)


def spec_duration_lang():
    """number, optional single space, documented unit (docs/garbage-collection.rst)"""
    return cat(z3.Plus(D()), z3.Option(lit_re(" ")), alt(*[lit_re(u) for u in SPEC_DURATION]))


SCALES = "KMGTPE"


def spec_size_lang():
    """number, optional space, optional case-insensitive scale K..E optionally followed by i, optional B
    (docs/configuration.rst reserved_space: "100MB", "100 M", "100000000B", "100000000", "100000kb", "1MiB", "1024KiB",
    "1024 Ki", "1048576 B")"""
    scale = alt(*[ci(c) for c in SCALES])
    return cat(z3.Plus(D()), z3.Option(lit_re(" ")), z3.Option(cat(scale, z3.Option(ci("i")))), z3.Option(ci("b")))


def spec_size_multiplier(suffix_upper):
    """documented value of an (upper-cased) suffix; None if the documentation gives it no meaning"""
    s = suffix_upper
    if s.endswith("B"):
        s = s[:-1]
    if s == "":
        return 1
    if s[0] in SCALES:
        n = SCALES.index(s[0]) + 1
        if s[1:] == "":
            return 1000 ** n
        if s[1:] == "I":
            return 1024 ** n
    return None


def spec_date_lang():
    return cat(z3.Loop(D(), 4, 4), lit_re("-"), z3.Loop(D(), 2, 2), lit_re("-"), z3.Loop(D(), 2, 2))


# ---- capturing what the real functions do ---------------------------------------------------------------------------

class Unrecognised(Exception):
    """the way the function builds / applies its regex (or its lookup table) is outside what the model extraction recognises:
    the obligation falls back to solver-generated probes confirmed on the real function (never a silent pass)"""

    def __init__(self, kind, why):
        Exception.__init__(self, why)
        self.kind, self.why = kind, why


class _PatProxy(object):
    """stands in for a compiled pattern (module-level global, or the result of re.compile inside the function)"""

    def __init__(self, pat, log):
        self._pat, self._log = pat, log

    def __getattr__(self, name):
        return getattr(self._pat, name)

    def _rec(self, meth, string, *a):
        self._log.append((meth, self._pat.pattern, string, self._pat.flags, bool(a)))
        return getattr(self._pat, meth)(string, *a)

    def match(self, string, *a):
        return self._rec("match", string, *a)

    def search(self, string, *a):
        return self._rec("search", string, *a)

    def fullmatch(self, string, *a):
        return self._rec("fullmatch", string, *a)


class _ReProxy(object):
    """stands in for the module-level name `re` of the module under test"""

    def __init__(self, real, log):
        self._real, self._log = real, log

    def __getattr__(self, name):
        return getattr(self._real, name)

    def _rec(self, meth, pattern, string, flags=0):
        if isinstance(pattern, _PatProxy):
            return getattr(pattern, meth)(string)
        if isinstance(pattern, re.Pattern):
            self._log.append((meth, pattern.pattern, string, pattern.flags, False))
            return getattr(pattern, meth)(string)
        cp = self._real.compile(pattern, flags)
        self._log.append((meth, cp.pattern, string, cp.flags, False))
        return getattr(cp, meth)(string)

    def match(self, pattern, string, flags=0):
        return self._rec("match", pattern, string, flags)

    def search(self, pattern, string, flags=0):
        return self._rec("search", pattern, string, flags)

    def fullmatch(self, pattern, string, flags=0):
        return self._rec("fullmatch", pattern, string, flags)

    def compile(self, pattern, flags=0):
        return _PatProxy(self._real.compile(pattern, flags), self._log)


def capture(module, fn, arg, kind):
    """Run fn(arg) once with the module's `re` name and every module-level compiled pattern wrapped; -> the single
    (method, pattern text, subject, flags) the function applied.  Inline re.match(...) on a literal or built string, re.compile inside
    the function, and module-level / global compiled patterns referenced by name are all seen here."""
    log = []
    saved = {}
    for name, val in list(vars(module).items()):
        if isinstance(val, re.Pattern):
            saved[name] = val
            setattr(module, name, _PatProxy(val, log))
    if hasattr(module, "re"):
        saved["re"] = module.re
        module.re = _ReProxy(module.re, log)
    try:
        try:
            fn(arg)
        except Exception:
            pass
    finally:
        for name, val in saved.items():
            setattr(module, name, val)
    if len(log) != 1:
        raise Unrecognised(kind, "%s made %d regex calls on %r (patterns held in default arguments / closures are not seen)" % (fn.__name__, len(log), arg))
    (meth, pattern, subject, flags, extra) = log[0]
    if extra:
        raise Unrecognised(kind, "%s passes pos/endpos to the pattern method" % fn.__name__)
    return (meth, pattern, subject, flags)


TRANSFORMS = [
    ("identity", None, False), ("strip", None, True), ("lower", "lower", False), ("upper", "upper", False),
    ("strip+lower", "lower", True), ("strip+upper", "upper", True),
]


def _apply(tr, text):
    (name, cmap, strip) = tr
    if strip:
        text = text.strip()
    if cmap:
        text = getattr(text, cmap)()
    return text


def probe_subject(module, fn, probes, kind):
    """what the function feeds its regex, as a function of its argument: one of TRANSFORMS (found by probing the real function)"""
    seen = [capture(module, fn, p, kind) for p in probes]
    first = seen[0]
    for c in seen[1:]:
        if (c[0], c[1], c[3]) != (first[0], first[1], first[3]):
            raise Unrecognised(kind, "%s uses different patterns / methods for different inputs" % fn.__name__)
    for tr in TRANSFORMS:
        if all(_apply(tr, p) == c[2] for p, c in zip(probes, seen)):
            return first[0], first[1], first[3], tr
    raise Unrecognised(kind, "%s preprocesses its argument in an unrecognised way (%r -> %r)" % (fn.__name__, probes[0], seen[0][2]))


_STRIP_WS = None


def strip_ws_ranges():
    """code points removed by str.strip() (calibrated on the real method)"""
    global _STRIP_WS
    if _STRIP_WS is None:
        out = []
        for c in range(_rx.Z3_MAXCHAR + 1):
            if (chr(c) + "x").strip() == "x":
                if out and out[-1][1] == c - 1:
                    out[-1][1] = c
                else:
                    out.append([c, c])
        _STRIP_WS = [tuple(r) for r in out]
    return _STRIP_WS


def subject_language(rx, method, tr):
    """regex of all ARGUMENTS whose transformed form (tr) the pattern <method>es; rx: Rx over the transformed subject, or a MappedRx
    when tr maps characters"""
    L = rx.lang(method)
    if not tr[2]:
        return L
    ws = chars_re(strip_ws_ranges())
    S = _rx.sigma_star(False)
    core = z3.Intersect(L, z3.Complement(cat(ws, S)), z3.Complement(cat(S, ws)))
    return cat(z3.Star(ws), core, z3.Star(ws))


def _fn_ast(fn):
    hlib.encoded(fn)
    return ast.parse(textwrap.dedent(inspect.getsource(fn))).body[0]


def _local_dict(fn, target=None, subscript=False):
    """evaluate a dict literal of fn: `target = {...}` or the `{...}[x]` subscript; earlier simple assignments are executed"""
    f = _fn_ast(fn)
    ns = dict(fn.__globals__)
    for st in f.body:
        if isinstance(st, ast.Assign) and len(st.targets) == 1 and isinstance(st.targets[0], ast.Name):
            if target is not None and st.targets[0].id == target and isinstance(st.value, ast.Dict):
                return eval(compile(ast.Expression(st.value), "<ast>", "eval"), ns)
            try:
                ns[st.targets[0].id] = eval(compile(ast.Expression(st.value), "<ast>", "eval"), ns)
            except Exception:
                pass
        if subscript:
            for n in ast.walk(st):
                if isinstance(n, ast.Subscript) and isinstance(n.value, ast.Dict):
                    return eval(compile(ast.Expression(n.value), "<ast>", "eval"), ns)
    raise hlib.HarnessError("dict literal not found in %s" % fn.__name__)


class RealCodeViolation(Exception):
    """while comparing the model with the real function on the corpus, the real function did something the property forbids
    outright (an exception other than ValueError escaping): reported as a violation with a replay, not as a modelling error"""

    def __init__(self, fn, w, what, tz=None, body=None, cls="exception-escapes"):
        Exception.__init__(self, what)
        self.fn, self.w, self.what, self.tz, self.body, self.cls = fn, w, what, tz, body, cls


class DurationModel(object):
    def __init__(self):
        K = "duration"
        (meth, pattern, flags, tr) = probe_subject(time_format, time_format.parse_duration, [" 1 Day ", "\t2 MO\n", "3years", "4 dayS  "], K)
        self.method, self.pattern, self.flags, self.tr = meth, pattern, flags, tr
        try:
            self.rx_t = Rx(pattern, flags)                                        # over the transformed subject
            self.rx = MappedRx(pattern, flags, tr[1]) if tr[1] else self.rx_t     # over the argument (before strip handling)
        except hlib.HarnessError as e:
            raise Unrecognised(K, "pattern %r: %s" % (pattern, e))
        try:
            tm = _local_dict(time_format.parse_duration, "time_map")
        except hlib.HarnessError:
            tm = None
        if tm is None:
            # a module-level table with that name is fine too
            tm = getattr(time_format, "time_map", None) or getattr(time_format, "TIME_MAP", None)
        if not isinstance(tm, dict):
            raise Unrecognised(K, "time_map dict not found")
        self.time_map = dict((str(getattr(k, "value", k)), v) for k, v in tm.items())
        v = self.rx_t.variants
        if len(v) != 1:
            raise Unrecognised(K, "pattern has %d end variants" % len(v))
        groups = dict((sg.group, sg.re) for sg in v[0].segs if sg.group is not None)
        if sorted(groups) != [1, 2]:
            raise Unrecognised(K, "pattern does not have exactly the top-level groups 1 and 2")
        self.num_re, self.unit_re = groups[1], groups[2]
        f = _fn_ast(time_format.parse_duration)
        self.lowered = any(isinstance(n, ast.Call) and isinstance(n.func, ast.Attribute) and n.func.attr == "lower" for n in ast.walk(f))
        self.lower = _rx.CharMap("lower")

    def accepted(self):
        return subject_language(self.rx, self.method, self.tr)

    def keys_pre(self, key):
        """strings u with u.lower() == key (per-character preimage under the real str.lower)"""
        if not self.lowered:
            return lit_re(key)
        return cat(*[chars_re(self.lower.pre([(ord(ch), ord(ch))])) for ch in key])

    def validate(self, corpus):
        n = 0
        A = self.accepted()
        cpat = re.compile(self.pattern, self.flags)
        for s in corpus:
            if not isinstance(s, str) or any(ord(c) > _rx.Z3_MAXCHAR for c in s):
                continue
            mo = getattr(cpat, self.method)(_apply(self.tr, s))
            if bool(mo) != _rx.member(s, A):
                raise hlib.HarnessError("accepted-language model of parse_duration disagrees with the real regex on %r" % (s,))
            try:
                real = ("ok", time_format.parse_duration(s))
            except Exception as e:
                real = (type(e).__name__, None)
            if not mo:
                model = ("ValueError", None)
            else:
                u = mo.group(2).lower() if self.lowered else mo.group(2)
                if u not in self.time_map:
                    model = ("KeyError", None)
                else:
                    try:
                        model = ("ok", int(mo.group(1)) * self.time_map[u])
                    except ValueError:
                        model = ("ValueError", None)
            if real != model:
                if real[0] == "ok" or model[0] == "ok":
                    raise Unrecognised("duration", "value model disagrees with the real function on %r: real=%r model=%r" % (s, real, model))
                # both reject (any exception is a rejection)
            n += 2
        return n


class SizeModel(object):
    def __init__(self):
        K = "size"
        (meth, pattern, flags, tr) = probe_subject(abbreviate, abbreviate.parse_abbreviated_size, ["1kib", " 2Mb ", "3G\n", "\t4 kiB"], K)
        self.method, self.pattern, self.flags, self.tr = meth, pattern, flags, tr
        self.mapped = tr[1]
        try:
            self.rx_upper = Rx(pattern, flags)                 # language over the transformed subject
            self.rx = MappedRx(pattern, flags, self.mapped) if self.mapped else Rx(pattern, flags)   # over the argument (before strip handling)
        except hlib.HarnessError as e:
            raise Unrecognised(K, "pattern %r: %s" % (pattern, e))
        try:
            self.mult = _local_dict(abbreviate.parse_abbreviated_size, subscript=True)
        except hlib.HarnessError as e:
            raise Unrecognised(K, str(e))
        v = self.rx_upper.variants
        if len(v) != 1:
            raise Unrecognised(K, "size pattern has %d end variants" % len(v))
        groups = dict((sg.group, sg.re) for sg in v[0].segs if sg.group is not None)
        if sorted(groups) != [1, 2]:
            raise Unrecognised(K, "size pattern does not have exactly the top-level groups 1 and 2")
        self.num_re, self.suffix_re = groups[1], groups[2]

    def accepted(self):
        return subject_language(self.rx, self.method, self.tr)

    def validate(self, corpus):
        n = 0
        A = self.accepted()
        cpat = re.compile(self.pattern, self.flags)
        for s in corpus:
            if not isinstance(s, str) or s == "" or any(ord(c) > _rx.Z3_MAXCHAR for c in s):
                continue
            mo = getattr(cpat, self.method)(_apply(self.tr, s))
            if bool(mo) != _rx.member(s, A):
                raise hlib.HarnessError("accepted-language model of parse_abbreviated_size disagrees with the real regex on %r" % (s,))
            try:
                real = ("ok", abbreviate.parse_abbreviated_size(s))
            except Exception as e:
                real = (type(e).__name__, None)
            if not mo:
                model = ("ValueError", None)
            else:
                suf = mo.group(2)
                if suf.endswith("B"):
                    suf = suf[:-1]
                if suf not in self.mult:
                    model = ("KeyError", None)
                else:
                    try:
                        model = ("ok", int(mo.group(1)) * self.mult[suf])
                    except ValueError:
                        model = ("ValueError", None)
            if real != model:
                if real[0] not in ("ok", "ValueError"):
                    raise RealCodeViolation("parse_abbreviated_size", s, "parse_abbreviated_size(%r) raised %s" % (s, real[0]))
                raise Unrecognised("size", "value model disagrees with the real function on %r: real=%r model=%r" % (s, real, model))
            n += 2
        return n


class PrintModel(object):
    """language of abbreviate_space(n) for integers n >= 0, from the live format strings"""

    def __init__(self):
        f = _fn_ast(abbreviate.abbreviate_space)
        consts = [n.value for n in ast.walk(f) if isinstance(n, ast.Constant) and isinstance(n.value, str)]
        fmts = [c for c in consts if "%" in c]
        if sorted(fmts) != sorted(["%.2f %s%s", "%d B"]) and len(fmts) != 2:
            raise hlib.HarnessError("abbreviate_space: unexpected format strings %r" % (fmts,))
        self.small_fmt = [c for c in fmts if "%d" in c]
        self.big_fmt = [c for c in fmts if "%s" in c]
        if len(self.small_fmt) != 1 or len(self.big_fmt) != 1:
            raise hlib.HarnessError("abbreviate_space: cannot tell the byte form from the scaled form in %r" % (fmts,))
        self.small_fmt, self.big_fmt = self.small_fmt[0], self.big_fmt[0]
        # suffix letters: constants passed as second argument of r(...); unit tails: values assigned to isuffix
        self.scales, self.tails = [], []
        for n in ast.walk(f):
            if isinstance(n, ast.Call) and isinstance(n.func, ast.Name) and n.func.id == "r" and len(n.args) == 2 and isinstance(n.args[1], ast.Constant):
                self.scales.append(n.args[1].value)
            if isinstance(n, ast.Assign) and len(n.targets) == 1 and isinstance(n.targets[0], ast.Name) and n.targets[0].id == "isuffix" \
                    and isinstance(n.value, ast.Constant):
                self.tails.append(n.value.value)
        if not self.scales or not self.tails:
            raise hlib.HarnessError("abbreviate_space: scale letters / unit tails not found")

    @staticmethod
    def _fmt_lang(fmt, subs):
        """translate a %-format into a regex; subs: list of regexes for the %s in order"""
        nat = alt(lit_re("0"), cat(chars_re([(0x31, 0x39)]), z3.Star(D())))
        out = []
        i = 0
        k = 0
        buf = ""
        while i < len(fmt):
            if fmt[i] == "%":
                if buf:
                    out.append(lit_re(buf))
                    buf = ""
                if fmt.startswith("%d", i):
                    out.append(nat)
                    i += 2
                elif fmt.startswith("%.2f", i):
                    out.append(cat(nat, lit_re("."), z3.Loop(D(), 2, 2)))
                    i += 4
                elif fmt.startswith("%s", i):
                    out.append(subs[k])
                    k += 1
                    i += 2
                else:
                    raise hlib.HarnessError("unsupported format %r" % fmt)
            else:
                buf += fmt[i]
                i += 1
        if buf:
            out.append(lit_re(buf))
        return cat(*out)

    def bytes_form(self):
        return self._fmt_lang(self.small_fmt, [])

    def scaled_form(self):
        return self._fmt_lang(self.big_fmt, [alt(*[lit_re(x) for x in self.scales]), alt(*[lit_re(x) for x in self.tails])])

    def validate(self):
        n = 0
        for x in [0, 1, 12, 999, 1000, 1023, 1024, 1500, 999999, 10 ** 6, 1234567, 10 ** 9, 5 * 10 ** 11, 10 ** 12, 10 ** 15, 10 ** 18,
                  10 ** 21, 2 ** 40, 2 ** 70]:
            for si in (True, False):
                p = abbreviate.abbreviate_space(x, si)
                form = self.bytes_form() if x < 1024 else self.scaled_form()
                if not _rx.member(p, form):
                    raise hlib.HarnessError("abbreviate_space(%d, %s) = %r is outside the print model" % (x, si, p))
                n += 1
        return n


class DateModel(object):
    def __init__(self):
        d = time_format.iso_utc_time_to_seconds.__defaults__
        pats = [x for x in (d or ()) if isinstance(x, re.Pattern)]
        if len(pats) != 1:
            raise Unrecognised("date", "iso_utc_time_to_seconds: compiled default regex not found")
        self.pat = pats[0]
        self.rx = Rx(self.pat)
        f = _fn_ast(time_format.iso_utc_time_to_seconds)
        meths = [n.func.attr for n in ast.walk(f) if isinstance(n, ast.Call) and isinstance(n.func, ast.Attribute)
                 and isinstance(n.func.value, ast.Name) and n.func.value.id == "_conversion_re"]
        if len(meths) != 1 or meths[0] not in ("match", "search", "fullmatch"):
            raise Unrecognised("date", "iso_utc_time_to_seconds: regex call not found")
        self.method = meths[0]
        # field wiring: names <- int(m.group('<group>')), and the tuple handed to calendar.timegm
        src = {}
        for n in ast.walk(f):
            if isinstance(n, ast.Assign) and len(n.targets) == 1 and isinstance(n.targets[0], ast.Tuple) and isinstance(n.value, ast.Tuple):
                for tgt, val in zip(n.targets[0].elts, n.value.elts):
                    ok = (isinstance(tgt, ast.Name) and isinstance(val, ast.Call) and isinstance(val.func, ast.Name) and val.func.id == "int"
                          and len(val.args) == 1 and isinstance(val.args[0], ast.Call) and isinstance(val.args[0].func, ast.Attribute)
                          and val.args[0].func.attr == "group" and len(val.args[0].args) == 1 and isinstance(val.args[0].args[0], ast.Constant))
                    if not ok:
                        raise Unrecognised("date", "iso_utc_time_to_seconds: unsupported field assignment %s" % ast.unparse(n)[:80])
                    src[tgt.id] = val.args[0].args[0].value
        calls = [n for n in ast.walk(f) if isinstance(n, ast.Call) and isinstance(n.func, ast.Attribute) and n.func.attr == "timegm"]
        if len(calls) != 1 or len(calls[0].args) != 1 or not isinstance(calls[0].args[0], ast.Tuple):
            raise Unrecognised("date", "iso_utc_time_to_seconds: calendar.timegm((...)) call not found")
        self.timegm_args = []
        for e in calls[0].args[0].elts[:6]:
            if isinstance(e, ast.Name) and e.id in src:
                self.timegm_args.append(src[e.id])
            elif isinstance(e, ast.Constant) and isinstance(e.value, int):
                self.timegm_args.append(e.value)
            else:
                raise Unrecognised("date", "iso_utc_time_to_seconds: unsupported timegm argument %s" % ast.unparse(e))
        self.dt_args = None
        dts = [n for n in ast.walk(f) if isinstance(n, ast.Call) and ast.unparse(n.func) in ("datetime.datetime", "datetime.date")]
        if len(dts) > 1:
            raise Unrecognised("date", "iso_utc_time_to_seconds: several datetime constructions")
        if dts:
            self.dt_args = []
            for e in dts[0].args:
                if isinstance(e, ast.Name) and e.id in src:
                    self.dt_args.append(src[e.id])
                elif isinstance(e, ast.Constant) and isinstance(e.value, int):
                    self.dt_args.append(e.value)
                else:
                    raise Unrecognised("date", "iso_utc_time_to_seconds: unsupported datetime argument %s" % ast.unparse(e))
            if dts[0].keywords or len(self.dt_args) not in (3, 6):
                raise Unrecognised("date", "iso_utc_time_to_seconds: unsupported datetime call %s" % ast.unparse(dts[0]))
        rets = [n for n in ast.walk(f) if isinstance(n, ast.Return)]
        if len(rets) != 1 or not (isinstance(rets[0].value, ast.BinOp) and isinstance(rets[0].value.op, ast.Add) and rets[0].value.left is calls[0]
                                  and isinstance(rets[0].value.right, ast.Name)):
            raise Unrecognised("date", "iso_utc_time_to_seconds: return is not 'calendar.timegm(...) + <subseconds>'")
        # widths of the named digit groups of the live regex
        self.widths = {}
        C = _rx.C

        def walk(seq):
            for (op, av) in seq:
                if op is C.SUBPATTERN:
                    names = [k for k, v in self.pat.groupindex.items() if v == av[0]]
                    if names and len(av[3]) == 1 and av[3][0][0] is C.MAX_REPEAT and av[3][0][1][0] == av[3][0][1][1]:
                        self.widths[names[0]] = av[3][0][1][0]
                    walk(av[3])
        walk(self.rx.tree)
        f2 = _fn_ast(time_format.parse_date)
        if not any(isinstance(n, ast.Call) and ast.unparse(n.func) == "iso_utc_time_to_seconds" for n in ast.walk(f2)):
            raise Unrecognised("date", "parse_date does not go through iso_utc_time_to_seconds")
        adds = [n for n in ast.walk(f2) if isinstance(n, ast.BinOp) and isinstance(n.op, ast.Add) and isinstance(n.right, ast.Constant)
                and isinstance(n.left, ast.Name) and n.left.id == "s"]
        if len(adds) != 1:
            raise Unrecognised("date", "parse_date: 's + <constant>' not found")
        self.appended = adds[0].right.value

    def _flatten(self):
        """the pattern as (fixed one-character atoms [ranges...], z3 regex of the optional rest)"""
        C = _rx.C
        atoms = []
        items = []

        def walk(seq):
            for (op, av) in seq:
                if op is C.SUBPATTERN and not av[1] and not av[2]:
                    walk(av[3])
                else:
                    items.append((op, av))
        walk(self.rx.tree)
        k = 0
        while k < len(items):
            (op, av) = items[k]
            if op in (C.LITERAL, C.IN, C.NOT_LITERAL, C.ANY):
                atoms.append(_rx.atom_chars(op, av, self.rx.flags, False))
            elif op in (C.MAX_REPEAT, C.MIN_REPEAT) and av[0] == av[1] and len(av[2]) == 1 and av[2][0][0] in (C.LITERAL, C.IN, C.NOT_LITERAL, C.ANY):
                atoms.extend([_rx.atom_chars(av[2][0][0], av[2][0][1], self.rx.flags, False)] * av[0])
            else:
                break
            k += 1
        rest = self.rx._seq(items[k:], False)
        if len(rest) != 1 or rest[0][1] is not None or self.rx.anchored_start:
            raise hlib.HarnessError("date regex: unsupported shape")
        return atoms, rest[0][0]

    def accepted_lang(self):
        """regex of all s such that the pattern <method>es  s + appended.
        match/fullmatch: either the match ends inside s, or s is a prefix of a pattern word that the appended constant completes
        (right quotient by every prefix of the constant, computed atom by atom; overlap with the optional rest is refused)."""
        if self.method == "search":
            raise hlib.HarnessError("date regex: search mode is not supported")
        atoms, rest = self._flatten()
        c = self.appended
        S = _rx.sigma_star(False)
        whole = cat(*([chars_re(a) for a in atoms] + [rest]))
        outs = []
        if self.method == "match":
            outs.append(cat(whole, S))
        y = z3.String("y_q")
        pvar = z3.String("p_q")
        n = len(atoms)
        for j in range(1, len(c) + 1):
            c1 = c[:j]
            for i in range(0, j + 1):
                x, yy = c1[:i], c1[i:]
                if i > n:
                    continue
                if not all(any(lo <= ord(ch) <= hi for (lo, hi) in atoms[n - i + t]) for t, ch in enumerate(x)):
                    continue
                # s + x completes the fixed atoms; yy must then be a word of the optional rest (or empty)...
                if self.method == "fullmatch" and j != len(c):
                    continue
                if _rx.member(yy, rest) and (self.method == "match" or j == len(c)):
                    outs.append(cat(*[chars_re(a) for a in atoms[:n - i]]))
                # ... and must not be a proper suffix of a longer word of the rest (s would end inside the rest)
                if yy:
                    sol = _rx.new_solver(0, 20000)
                    sol.add(z3.InRe(z3.Concat(pvar, z3.StringVal(yy)), rest), z3.Length(pvar) > 0)
                    if _rx.check(sol) != z3.unsat:
                        raise hlib.HarnessError("date regex: appended constant overlaps the optional part")
        return alt(*outs)

    def accepted_cond(self, s):
        """z3: parse_date(s) gets past the regex"""
        try:
            return z3.InRe(s, self.accepted_lang())
        except hlib.HarnessError:
            # pattern shape outside the closed form: direct (harder) formulation
            return z3.InRe(z3.Concat(s, z3.StringVal(self.appended)), self.rx.lang(self.method))

    def appended_time(self):
        """(hour, minute, second) that parse_date's appended constant supplies for a plain date"""
        mo = getattr(self.pat, self.method)("2009-01-16" + self.appended)
        if not mo:
            return None
        try:
            return tuple(int(mo.group(k)) for k in ("hour", "minute", "second"))
        except (IndexError, ValueError):
            return None

    def validate(self, corpus):
        n = self.rx.validate([c + self.appended for c in corpus if isinstance(c, str)] + [c for c in corpus if isinstance(c, str)], self.method)
        try:
            A = self.accepted_lang()
        except hlib.HarnessError:
            return n
        for c in corpus:
            if not isinstance(c, str) or any(ord(ch) > _rx.Z3_MAXCHAR for ch in c):
                continue
            real = bool(getattr(self.pat, self.method)(c + self.appended))
            if real != _rx.member(c, A):
                raise hlib.HarnessError("accepted-language model of parse_date disagrees with the regex on %r" % (c,))
            n += 1
        return n


# proleptic Gregorian day number, two independent formulations (z3 Int terms) -----------------------------------------

def _leap(y):
    return z3.And(y % 4 == 0, z3.Or(y % 100 != 0, y % 400 == 0))


def _days_before_year(y):
    y1 = y - 1
    return y1 * 365 + y1 / 4 - y1 / 100 + y1 / 400


CUM = [0, 31, 59, 90, 120, 151, 181, 212, 243, 273, 304, 334]
MLEN = [31, 28, 31, 30, 31, 30, 31, 31, 30, 31, 30, 31]


def ordinal_table(y, m, d):
    """datetime.date(y, m, d).toordinal() by cumulative month table (the way the standard library defines it)"""
    cum = z3.IntVal(CUM[11])
    for i in range(10, -1, -1):
        cum = z3.If(m == i + 1, z3.IntVal(CUM[i]), cum)
    return _days_before_year(y) + cum + z3.If(z3.And(m > 2, _leap(y)), 1, 0) + d


def civil_days(y, m, d):
    """days since 1970-01-01 by the era-based civil-calendar formula (independent of the table above)"""
    yy = z3.If(m <= 2, y - 1, y)
    era = yy / 400          # yy >= 0 here
    yoe = yy - era * 400
    mp = z3.If(m > 2, m - 3, m + 9)
    doy = (153 * mp + 2) / 5 + d - 1
    doe = yoe * 365 + yoe / 4 - yoe / 100 + doy
    return era * 146097 + doe - 719468


def month_len(y, m):
    e = z3.IntVal(MLEN[11])
    for i in range(10, -1, -1):
        e = z3.If(m == i + 1, z3.IntVal(MLEN[i]), e)
    return e + z3.If(z3.And(m == 2, _leap(y)), 1, 0)


EPOCH_ORD = 719163   # date(1970, 1, 1).toordinal()


def code_timegm(y, m, d, H, M, S):
    """calendar.timegm((y, m, d, H, M, S, ...)): days = date(y, m, 1).toordinal() - EPOCH + d - 1 (no check on d, H, M, S)"""
    days = ordinal_table(y, m, z3.IntVal(1)) - EPOCH_ORD + d - 1
    return ((days * 24 + H) * 60 + M) * 60 + S


def validate_timegm():
    import calendar
    n = 0
    y, m, d, H, M, S = z3.Ints("y m d H M S")
    for (yy, mm, dd, hh, mi, ss) in [(1970, 1, 1, 0, 0, 0), (2009, 1, 16, 0, 0, 0), (2009, 2, 31, 0, 0, 0), (2009, 1, 0, 0, 0, 0), (2000, 2, 29, 23, 59, 59),
                                     (1900, 3, 1, 0, 0, 0), (1, 1, 1, 0, 0, 0), (9999, 12, 31, 99, 99, 99), (2024, 12, 99, 12, 0, 7), (1600, 2, 29, 0, 0, 0),
                                     (1999, 12, 31, 23, 59, 60), (2100, 3, 1, 0, 0, 0), (400, 2, 29, 1, 2, 3), (2038, 1, 19, 3, 14, 8)]:
        real = calendar.timegm((yy, mm, dd, hh, mi, ss, 0, 1, 0))
        e = z3.simplify(z3.substitute(code_timegm(y, m, d, H, M, S), (y, z3.IntVal(yy)), (m, z3.IntVal(mm)), (d, z3.IntVal(dd)),
                                      (H, z3.IntVal(hh)), (M, z3.IntVal(mi)), (S, z3.IntVal(ss))))
        if e.as_long() != real:
            raise hlib.HarnessError("timegm model disagrees with calendar.timegm on %r: %s vs %s" % ((yy, mm, dd, hh, mi, ss), e, real))
        n += 1
    for bad in [(2009, 13, 1), (2009, 0, 1), (0, 1, 1), (10000, 1, 1)]:
        try:
            calendar.timegm(bad + (0, 0, 0, 0, 1, 0))
            raise hlib.HarnessError("calendar.timegm accepted %r" % (bad,))
        except ValueError:
            n += 1
    return n


# ---- corpus -------------------------------------------------------------------------------------------------------------

def corpus():
    lits = set()
    import os
    import allmydata.test
    for fn in ("test_time_format.py", "test_abbreviate.py"):
        try:
            t = ast.parse(open(os.path.join(os.path.dirname(allmydata.test.__file__), fn)).read())
        except (OSError, SyntaxError):
            continue
        for n in ast.walk(t):
            if isinstance(n, ast.Constant) and isinstance(n.value, str) and 0 < len(n.value) < 40:
                lits.add(n.value)
    base = sorted(lits) + ["7days", "31day", "60 days", "2mo", "3 month", "12 months", "2years", "5 s", "1second", "10 seconds",
                           "100MB", "100 M", "100000000B", "100000000", "100000kb", "1MiB", "1024KiB", "1024 Ki", "1048576 B",
                           "2009-01-16", "2008-02-02", "2007-12-25", "2009-02-31", "2009-01-16 10:00:00", "5I", "5iB", "0", "12 B", "1.23 MB"]
    out = []
    seen = set()

    def add(x):
        if x not in seen:
            seen.add(x)
            out.append(x)
    base = [b for b in base if any(ch.isdigit() for ch in b)]
    for b in base:
        add(b)
        add(b + "\n")
        add(b + "\n\n")
        add(b + " ")
        add(" " + b)
        add(b + "x")
        add(b.upper())
        add(b.lower())
        add(b.replace(" ", "\xa0"))
        add(b.replace(" ", "  "))
        add(b.replace("s", "\u017f"))
        add(b.replace("S", "\u017f"))
        add(b.replace("k", "\u212a").replace("K", "\u212a"))
        add(b.replace("i", "\u0131").replace("I", "\u0130"))
        add(b.replace("1", "\u0661"))
        add(b.replace("0", "\u0660"))
        add(b[:-1])
        add("-" + b)
        add(b.replace("-", "/"))
        add(b + "zzz")
    return out


# ---- bookkeeping -------------------------------------------------------------------------------------------------------

class Q(object):
    def __init__(self, ctx):
        self.ctx = ctx
        self.n = 0
        self.t = 0.0
        self.unknown = []
        self.cross = []
        self.timeout_ms = int(ctx["bounds"].get("query_timeout_ms", 60000))
        self.cvc5 = bool(ctx["bounds"].get("cvc5", False))

    def check(self, assertions, label):
        sol = _rx.new_solver(self.ctx.get("seed", 0), self.timeout_ms)
        for a in assertions:
            sol.add(a)
        t = time.perf_counter()
        r = sol.check()
        self.t += time.perf_counter() - t
        self.n += 1
        if r == z3.unknown:
            self.unknown.append(label)
            return "unknown", None
        if self.cvc5:
            c = _rx.cvc5_check(assertions, int(self.ctx["bounds"].get("cvc5_timeout_ms", 10000)))
            self.cross.append((label, str(r), c))
            if c in ("sat", "unsat") and c != str(r):
                self.unknown.append(label + " (z3 %s / cvc5 %s)" % (r, c))
                return "unknown", None
        return str(r), (sol.model() if r == z3.sat else None)

    def finish(self, res):
        res.setdefault("queries", self.n)
        res["solver_s"] = round(self.t, 3)
        if self.cross:
            res.setdefault("info", {})["cvc5_cross_check"] = {
                "queries": len(self.cross), "agree": sum(1 for (_, a, b) in self.cross if a == b),
                "other": sorted(set(b for (_, a, b) in self.cross if b not in ("sat", "unsat")))[:4]}
        if self.unknown and res.get("status") == "discharged":
            res["status"] = "inconclusive"
            res["detail"] = "solver returned unknown / solvers disagree on: %s" % (self.unknown[:6],)
        res["functions_encoded"] = dict(hlib.ENCODED)
        res["notes"] = list(dict.fromkeys(hlib.NOTES + NOTES))
        return res


REPLAY_HEAD = '''#!/verif/.venv/bin/python
# Replay of a solver model against the real allmydata.util functions (no solver involved).
# exit 1 = violation reproduces, 0 = property holds on this input, 3 = the replay itself failed
import os, sys, traceback
def _hook(*a):
    traceback.print_exception(*a); sys.stdout.flush(); sys.stderr.flush(); os._exit(3)
sys.excepthook = _hook
from allmydata.util.time_format import parse_duration, parse_date
from allmydata.util.abbreviate import parse_abbreviated_size, abbreviate_space
'''


def mk_replay(w, body, **params):
    out = REPLAY_HEAD + "W = %r\n" % (w,)
    for k, v in params.items():
        out += "%s = %r\n" % (k, v)
    return out + 'print("input:", repr(W))\n' + body


BODY_DURATION = '''
try:
    v = parse_duration(W)
except Exception as e:
    print("rejected with", type(e).__name__, str(e)[:80]); sys.exit(0)
import re
m = re.fullmatch(r"\\s*(\\d+)\\s*(\\S+?)\\s*", W)
want = int(m.group(1)) * SPEC[m.group(2).lower()] if m and m.group(2).lower() in SPEC else None
print("returned", v, "natural reading", want)
sys.exit(1 if want is None or v != want else 0)
'''

BODY_DOC_ACCEPTED = '''
try:
    v = FN(W)
except ValueError as e:
    print("VIOLATION: documented spelling rejected:", str(e)[:100]); sys.exit(1)
print("returned", v, "documented value", WANT)
sys.exit(1 if WANT is not None and v != WANT else 0)
'''

BODY_SIZE_VALUE = '''
try:
    v = parse_abbreviated_size(W)
except ValueError as e:
    print("rejected:", e); sys.exit(0)
except Exception as e:
    print("VIOLATION: raised", type(e).__name__, e); sys.exit(1)
print("returned", v, "natural reading", WANT)
sys.exit(1 if v != WANT else 0)
'''

BODY_PRINT = '''
p = abbreviate_space(N, SI)
print("abbreviate_space(%d, SI=%s) = %r" % (N, SI, p))
try:
    v = parse_abbreviated_size(p)
except ValueError as e:
    print("VIOLATION: a size the node prints is rejected by parse_abbreviated_size:", e); sys.exit(1)
print("parsed back as", v)
sys.exit(1 if (N < 1024 and v != N) else 0)
'''

BODY_DATE = '''
import calendar, datetime, re
try:
    v = parse_date(W)
except ValueError as e:
    print("rejected:", e); sys.exit(0)
except Exception as e:
    print("VIOLATION: raised", type(e).__name__, e); sys.exit(1)
print("returned", v, "=", datetime.datetime.utcfromtimestamp(v).isoformat())
m = re.fullmatch(r"(\\d{4})-(\\d{2})-(\\d{2})", W)
if not m:
    m2 = re.match(r"(\\d{4})-(\\d{2})-(\\d{2})[T_ ](\\d{2}):(\\d{2}):(\\d{2})(\\.\\d+)?", W)
    if not m2:
        print("VIOLATION: malformed date accepted (not YYYY-MM-DD, nor a complete timestamp)"); sys.exit(1)
    y, mo, d, H, M, S = [int(x) for x in m2.groups()[:6]]
else:
    y, mo, d = [int(x) for x in m.groups()]; H = M = S = 0
try:
    want = calendar.timegm(datetime.datetime(y, mo, d, H, M, S).timetuple())
except ValueError as e:
    print("VIOLATION: not a calendar date/time (%s) but accepted and read as another day" % e); sys.exit(1)
sys.exit(1 if v != want else 0)
'''


def _known(ctx):
    return list(ctx.get("known") or [])


def _setup(which):
    info = {}
    t0 = time.time()
    cp = corpus()
    out = {}
    n = 0
    datelike = [c for c in cp if c.count("-") >= 2 or ":" in c]
    other = [c for c in cp if c not in set(datelike)]
    if "duration" in which:
        out["duration"] = DurationModel()
        n += out["duration"].validate(other[::2] + datelike[::17])
    if "size" in which:
        out["size"] = SizeModel()
        n += out["size"].validate(other[1::2] + datelike[::17])
    if "print" in which:
        out["print"] = PrintModel()
        n += out["print"].validate()
    if "date" in which:
        out["date"] = DateModel()
        n += out["date"].validate(datelike[::3] + other[::29])
        n += validate_timegm()
    info["validation_comparisons"] = n
    info["validation_s"] = round(time.time() - t0, 2)
    return out, info


# ---- obligations ------------------------------------------------------------------------------------------------------

BODY_NO_ESCAPE = '''
try:
    v = FN(W)
except ValueError as e:
    print("rejected with ValueError"); sys.exit(0)
except Exception as e:
    print("VIOLATION:", type(e).__name__, repr(e), "escapes instead of ValueError or a value"); sys.exit(1)
print("returned", v); sys.exit(0)
'''


TZS = ("UTC", "America/New_York", "Asia/Kolkata")


def tz_prelude(tz):
    return "import os, time\nos.environ['TZ'] = %r\ntime.tzset()\nprint('TZ =', %r)\n" % (tz, tz)


class in_tz(object):
    """run real code with the process time zone set (parse results must not depend on it)"""

    def __init__(self, tz):
        self.tz = tz

    def __enter__(self):
        import os
        self.saved = os.environ.get("TZ")
        os.environ["TZ"] = self.tz
        time.tzset()

    def __exit__(self, *a):
        import os
        if self.saved is None:
            os.environ.pop("TZ", None)
        else:
            os.environ["TZ"] = self.saved
        time.tzset()


BODY_DATE_TZ = '''
import calendar
try:
    v = parse_date(W)
except Exception as e:
    print("VIOLATION: documented date rejected:", type(e).__name__, e); sys.exit(1)
y, mo, d = [int(x) for x in W.split("-")]
want = calendar.timegm((y, mo, d, 0, 0, 0, 0, 1, 0))
print("returned", v, "midnight UTC of that day is", want, "difference", v - want, "s")
sys.exit(1 if v != want else 0)
'''


def check_dates_in_timezones(dates):
    """real parse_date on documented dates under several TZ settings: must be midnight UTC of that day whatever the zone"""
    import calendar
    n = 0
    for tz in TZS:
        with in_tz(tz):
            for w in dates:
                (y, mo, d) = [int(x) for x in w.split("-")]
                want = calendar.timegm((y, mo, d, 0, 0, 0, 0, 1, 0))
                try:
                    got = time_format.parse_date(w)
                except Exception as e:
                    raise RealCodeViolation("parse_date", w, "parse_date(%r) raised %s with TZ=%s" % (w, type(e).__name__, tz), tz=tz,
                                            body=BODY_DATE_TZ, cls="documented-date-rejected")
                if got != want:
                    raise RealCodeViolation("parse_date", w, "parse_date(%r) = %r with TZ=%s, midnight UTC is %r" % (w, got, tz, want), tz=tz,
                                            body=BODY_DATE_TZ, cls="date-depends-on-timezone")
                # round trip through the node's own printer: parse_date(iso_utc_date(t)) == t - t % 86400 for instants t of that day
                for off in (0, 43200, 86399):
                    t = want + off
                    printed = time_format.iso_utc_date(t)
                    if printed != w or time_format.parse_date(printed) != t - t % 86400:
                        raise RealCodeViolation("parse_date", w, "parse_date(iso_utc_date(%d)) != %d with TZ=%s (iso_utc_date gives %r)" % (
                            t, t - t % 86400, tz, printed), tz=tz, body=BODY_DATE_TZ, cls="date-roundtrip")
                n += 1
    return n


def solver_dates(q, n_per_month=2):
    """documented dates chosen by the solver: for every month, valid days in different years (1971..2037, so that every platform time
    function can represent them), pairwise different, including the last day of the month"""
    y, m, d = z3.Ints("y m d")
    out = []
    for month in range(1, 13):
        block = []
        for j in range(n_per_month):
            cons = [m == month, 1971 <= y, y <= 2037, 1 <= d, d <= month_len(y, m)] + block
            if j == 1:
                cons.append(d == month_len(y, m))
            r, mod = q.check(cons, "date:m%d#%d" % (month, j))
            if r != "sat":
                break
            yy, dd = mod.eval(y, model_completion=True).as_long(), mod.eval(d, model_completion=True).as_long()
            out.append("%04d-%02d-%02d" % (yy, month, dd))
            block.append(z3.Or(y != yy, d != dd))
    return out


def date_differential(ctx, why):
    """fallback for parse_date when its structure is not recognised: solver-chosen documented dates must come back as midnight UTC
    under several TZ settings; solver-chosen malformed / impossible dates must be rejected.  VIOLATED with a replay or INCONCLUSIVE."""
    q = Q(ctx)
    info = {"structure_not_recognised": why, "mode": "solver-generated probes confirmed on the real function"}
    res = {"status": "inconclusive", "nonvacuous": True, "info": info,
           "detail": "model extraction does not apply (%s); differential probes found no violation, nothing is proved" % why}
    dates = solver_dates(q)
    info["probes"] = len(dates) * len(TZS)
    try:
        check_dates_in_timezones(dates)
    except RealCodeViolation as e:
        res.update(status="violated", witness_class=e.cls, model=repr(e.w), call="parse_date(%r) with TZ=%s" % (e.w, e.tz),
                   replay_src=mk_replay(e.w, tz_prelude(e.tz) + e.body))
        res.pop("detail", None)
        info["what"] = e.what
        return q.finish(res)
    # impossible dates (day beyond the month) and malformed shapes must be rejected
    y, m, d = z3.Ints("y m d")
    bad = []
    for cons in ([1 <= m, m <= 12, d > month_len(y, m), d <= 99], [m == 0, d == 10], [m >= 13, m <= 99, d == 10], [1 <= m, m <= 12, d == 0]):
        r, mod = q.check([1971 <= y, y <= 2037] + cons, "bad-date")
        if r == "sat":
            bad.append("%04d-%02d-%02d" % tuple(mod.eval(t, model_completion=True).as_long() for t in (y, m, d)))
    x = z3.String("x")
    DOC = spec_date_lang()
    low = chars_re([(0x61, 0x7A)])
    for (label, L) in (("date + letters", cat(lit_re("2009-01-16"), z3.Plus(low))), ("letters + date", cat(z3.Plus(low), lit_re("2009-01-16"))),
                       ("other separators", cat(z3.Loop(D(), 4, 4), chars_re([(0x2E, 0x2F)]), z3.Loop(D(), 2, 2), chars_re([(0x2E, 0x2F)]), z3.Loop(D(), 2, 2))),
                       ("short fields", cat(z3.Loop(D(), 4, 4), lit_re("-"), z3.Loop(D(), 1, 1), lit_re("-"), z3.Loop(D(), 1, 1)))):
        bad.extend(_models(q, x, [z3.InRe(x, L), z3.Not(z3.InRe(x, DOC)), z3.Length(x) <= 16], 2, label))
    info["probes"] += len(bad)
    for w in bad:
        try:
            got = time_format.parse_date(w)
        except Exception:
            continue
        res.update(status="violated", witness_class="malformed-date-accepted", model=repr(w), call="parse_date(%r) = %r" % (w, got),
                   replay_src=mk_replay(w, "try:\n    v = parse_date(W)\nexcept Exception as e:\n    print('rejected with', type(e).__name__); sys.exit(0)\n"
                                        "print('VIOLATION: not a calendar date in the documented format, accepted and read as', v); sys.exit(1)\n"))
        res.pop("detail", None)
        return q.finish(res)
    return q.finish(res)


def _models(q, x, constraints, n, label):
    """up to n different solver models of the string variable x under the constraints"""
    out = []
    block = []
    for i in range(n):
        r, mod = q.check(list(constraints) + block, "%s#%d" % (label, i))
        if r != "sat":
            break
        w = z2py(mod[x], False)
        out.append(w)
        block.append(x != z3.StringVal(w))
    return out


def differential(kind, ctx, why):
    """Fallback when the function's structure is not recognised: the solver generates strings from the documented grammar (must be
    accepted with the documented value) and malformed strings shaped like  documented + junk / junk + documented / broken number
    (must be rejected), all outside the lenient well-formed language; each is confirmed on the REAL function.  A failing probe is a
    violation with a replay; if none fails the obligation is INCONCLUSIVE (nothing was proved)."""
    q = Q(ctx)
    info = {"structure_not_recognised": why, "mode": "solver-generated probes confirmed on the real function"}
    res = {"status": "inconclusive", "nonvacuous": True, "info": info,
           "detail": "model extraction does not apply (%s); differential probes found no violation, nothing is proved" % why}
    x = z3.String("x")
    low = chars_re([(0x61, 0x7A)])
    alnum = chars_re([(0x30, 0x39), (0x61, 0x7A)])
    blank = lit_re(" ")
    if kind == "duration":
        fn, fname = time_format.parse_duration, "parse_duration"
        spec = dict(SPEC_DURATION)
        DOC = spec_duration_lang()
        units_ci = alt(*[ci(u) for u in list(SPEC_DURATION) + list(SPEC_SECONDS)])
        ws = z3.Star(chars_re([(0x09, 0x0D), (0x20, 0x20)]))
        WF = cat(ws, z3.Plus(D()), ws, units_ci, ws)

        def want(w):
            mm = re.fullmatch(r"([0-9]+) ?([a-z]+)", w)
            return int(mm.group(1)) * spec[mm.group(2)]
    else:
        fn, fname = abbreviate.parse_abbreviated_size, "parse_abbreviated_size"
        DOC = spec_size_lang()
        WF = cat(z3.Star(blank), DOC, z3.Option(lit_re("\n")), z3.Star(blank))

        def want(w):
            mm = re.fullmatch(r"([0-9]+) ?([A-Za-z]*)", w)
            return int(mm.group(1)) * spec_size_multiplier(mm.group(2).upper())
    short = z3.Length(x) <= 24
    probes = 0
    # documented spellings: accepted, documented value.  One solver model (two for the larger classes) per documented CLASS, so that every
    # unit / scale letter x binary marker x trailing B x blank-or-not combination the documentation gives a value to is exercised
    num = cat(chars_re([(0x31, 0x39)]), z3.Loop(D(), 0, 5))
    classes = []
    if kind == "duration":
        for unit in SPEC_DURATION:
            for sp in ("", " "):
                classes.append(cat(num, lit_re(sp) if sp else None, lit_re(unit)))
    else:
        for sp in ("", " "):
            for tail in ("", "b"):
                classes.append(cat(num, lit_re(sp) if sp else None, ci(tail) if tail else None))
                for c in SCALES:
                    for binm in ("", "i"):
                        classes.append(cat(num, lit_re(sp) if sp else None, ci(c), ci(binm) if binm else None, ci(tail) if tail else None))
    docs = []
    for ci_, Lc in enumerate(classes):
        docs.extend(_models(q, x, [z3.InRe(x, Lc), z3.InRe(x, DOC), short], 2 if kind == "duration" else 1, "doc-class%d" % ci_))
    info["documented_classes_probed"] = len(classes)
    for w in docs:
        probes += 1
        try:
            got = fn(w)
        except Exception as e:
            got = e
        if isinstance(got, Exception) or got != want(w):
            res.update(status="violated", witness_class="documented-%s-rejected" % kind if isinstance(got, Exception) else "%s-value" % kind,
                       model=repr(w), call="%s(%r)" % (fname, w),
                       replay_src=mk_replay(w, "FN = %s\n" % fname + BODY_DOC_ACCEPTED.replace("except ValueError", "except Exception"), WANT=want(w)))
            res.pop("detail", None)
            info["probes"] = probes
            return q.finish(res)
    # malformed shapes: must be rejected
    shapes = [
        ("documented + blank + words", cat(DOC, blank, z3.Plus(alnum), z3.Option(cat(blank, z3.Plus(low))))),
        ("documented + letters", cat(DOC, z3.Plus(low))),
        ("documented + punctuation", cat(DOC, chars_re([(0x21, 0x2F)]), z3.Star(alnum))),
        ("words + documented", cat(z3.Plus(low), z3.Option(blank), DOC)),
        ("broken number", cat(z3.Plus(D()), chars_re([(0x2C, 0x2E)]), DOC)),
    ]
    for (label, L) in shapes:
        for w in _models(q, x, [z3.InRe(x, L), z3.Not(z3.InRe(x, WF)), short], 6, label):
            probes += 1
            try:
                got = fn(w)
            except Exception:
                continue
            res.update(status="violated", witness_class="malformed-%s-accepted" % kind, model=repr(w), call="%s(%r) = %r" % (fname, w, got),
                       replay_src=mk_replay(w, "FN = %s\n" % fname + "try:\n    v = FN(W)\nexcept Exception as e:\n    print('rejected with', type(e).__name__); sys.exit(0)\n"
                                            "print('VIOLATION: malformed value (%s) accepted and read as', v); sys.exit(1)\n" % label))
            res.pop("detail", None)
            info["probes"] = probes
            return q.finish(res)
    info["probes"] = probes
    return q.finish(res)


def guarded(f):
    def run(ctx):
        try:
            return f(ctx)
        except Unrecognised as e:
            if e.kind == "date":
                return date_differential(ctx, e.why)
            return differential(e.kind, ctx, e.why)
        except RealCodeViolation as e:
            q = Q(ctx)
            return q.finish({"status": "violated", "nonvacuous": True, "witness_class": e.cls, "model": repr(e.w),
                             "call": "%s(%r)%s" % (e.fn, e.w, (" with TZ=%s" % e.tz) if e.tz else ""),
                             "info": {"found": "while comparing the extracted model with the real function", "what": e.what},
                             "replay_src": mk_replay(e.w, (tz_prelude(e.tz) if e.tz else "") + (e.body or ("FN = %s\n" % e.fn + BODY_NO_ESCAPE)))})
    run.__name__ = f.__name__
    run.__doc__ = f.__doc__
    return run


@guarded
def ob_duration_units(ctx):
    """every unit spelling the regex accepts is, after .lower(), a key of time_map, with the documented multiplier"""
    ms, info = _setup(["duration"])
    dm = ms["duration"]
    q = Q(ctx)
    known = _known(ctx)
    res = {"status": "discharged", "nonvacuous": True, "known_hits": [], "info": info}
    u = z3.String("u")
    info["time_map"] = dm.time_map
    spec = dict(SPEC_DURATION)
    spec.update(SPEC_SECONDS)
    r0, _ = q.check([z3.InRe(u, dm.unit_re)], "unit:nonvacuity")
    res["nonvacuous"] = (r0 == "sat")
    keys_pre = alt(*[dm.keys_pre(k) for k in dm.time_map])
    # documented unit spellings must reach a time_map entry (else a documented value would be rejected by the KeyError)
    docunits = alt(*[lit_re(x) for x in SPEC_DURATION])
    r, mod = q.check([z3.InRe(u, docunits), z3.Not(z3.And(z3.InRe(u, dm.unit_re), z3.InRe(u, keys_pre)))], "documented-unit-is-key")
    if r == "sat":
        uw = z2py(mod[u], False)
        w = "5 " + uw
        res.update(status="violated", witness_class="documented-duration-rejected", model=repr(w), call="parse_duration(%r)" % w,
                   replay_src=mk_replay(w, "FN = parse_duration\nBaseE = Exception\n" + BODY_DOC_ACCEPTED.replace("except ValueError", "except Exception"), WANT=5 * SPEC_DURATION.get(uw, 0)))
        return q.finish(res)
    # information: unit spellings the regex accepts whose .lower() is not a time_map key are rejected by a KeyError (a rejection, whatever
    # the exception type: the property does not prescribe it)
    r, mod = q.check([z3.InRe(u, dm.unit_re), z3.Not(z3.InRe(u, keys_pre))], "info:unit-rejected-by-keyerror")
    if r == "sat":
        uw = z2py(mod[u], False)
        w = "5 " + uw
        try:
            got = repr(time_format.parse_duration(w))
        except Exception as e:
            got = "raises %s" % type(e).__name__
        info["accepted_by_the_regex_but_rejected_at_lookup"] = "parse_duration(%r) %s" % (w, got)
        # what still matters: such a spelling must not RETURN a value (checked against the real function right here)
        if not got.startswith("raises"):
            raise hlib.HarnessError("model says %r is rejected at the time_map lookup but the real function returned %s" % (w, got))
    # multiplier: for every key, the spellings that lower() to it carry the documented value of the unit they spell
    N = z3.Int("N")
    per = {}
    for k, mult in sorted(dm.time_map.items()):
        for su, sm in sorted(spec.items()):
            S = Rx(re.escape(su), re.IGNORECASE).lang("fullmatch")
            r, mod = q.check([z3.InRe(u, dm.unit_re), z3.InRe(u, dm.keys_pre(k)), z3.InRe(u, S), N > 0, N * mult != N * sm], "unit:%s~%s" % (k, su))
            if r == "sat":
                uw = z2py(mod[u], False)
                w = "%d %s" % (mod[N].as_long(), uw)
                res.update(status="violated", witness_class="unit-multiplier", model=repr(w), call="parse_duration(%r)" % w,
                           replay_src=mk_replay(w, BODY_DURATION, SPEC=spec))
                return q.finish(res)
        per[k] = mult
    # every accepted unit has a natural reading at all
    allspec = alt(*[Rx(re.escape(su), re.IGNORECASE).lang("fullmatch") for su in spec])
    r, mod = q.check([z3.InRe(u, dm.unit_re), z3.InRe(u, keys_pre), z3.Not(z3.InRe(u, allspec))], "unit:has-reading")
    if r == "sat":
        uw = z2py(mod[u], False)
        w = "5 " + uw
        res.update(status="violated", witness_class="unit-without-documented-meaning", model=repr(w), call="parse_duration(%r)" % w,
                   replay_src=mk_replay(w, BODY_DURATION, SPEC=spec))
        return q.finish(res)
    info["multipliers_checked"] = per
    return q.finish(res)


@guarded
def ob_duration_documented(ctx):
    """documented duration spellings are accepted; what else is accepted is reported (information)"""
    ms, info = _setup(["duration"])
    dm = ms["duration"]
    q = Q(ctx)
    res = {"status": "discharged", "nonvacuous": True, "info": info}
    s = z3.String("s")
    A = dm.accepted()
    spec = dict(SPEC_DURATION)
    spec.update(SPEC_SECONDS)
    r0, _ = q.check([z3.InRe(s, spec_duration_lang())], "doc:nonvacuity")
    res["nonvacuous"] = (r0 == "sat")
    r, mod = q.check([z3.InRe(s, spec_duration_lang()), z3.Not(z3.InRe(s, A))], "doc-subset-accepted")
    if r == "sat":
        w = z2py(mod[s], False)
        res.update(status="violated", witness_class="documented-duration-rejected", model=repr(w), call="parse_duration(%r)" % w,
                   replay_src=mk_replay(w, "FN = parse_duration\n" + BODY_DOC_ACCEPTED, WANT=None))
        return q.finish(res)
    # the number group: the real int() reads every character of the live \d class with its decimal value
    digs = _rx.atom_chars(_rx.C.IN, [(_rx.C.CATEGORY, _rx.C.CATEGORY_DIGIT)], dm.flags, False)
    bad = [c for (lo, hi) in digs for c in range(lo, hi + 1) if int(chr(c)) != unicodedata.decimal(chr(c))]
    if bad:
        raise hlib.HarnessError("int() disagrees with unicodedata.decimal on %r" % (bad[:3],))
    r, _ = q.check([z3.InRe(s, dm.num_re), z3.Not(z3.InRe(s, z3.Plus(chars_re(digs))))], "number-group-is-digits")
    if r != "unsat":
        q.unknown.append("number-group-is-digits")
    # malformed values are rejected: everything accepted is  blanks digits blanks unit blanks  (live \\s and \\d classes, any letter case)
    blanks = z3.Star(chars_re(_rx.atom_chars(_rx.C.IN, [(_rx.C.CATEGORY, _rx.C.CATEGORY_SPACE)], dm.flags, False)))
    units = alt(*[Rx(re.escape(su), re.IGNORECASE).lang("fullmatch") for su in spec])
    WF = cat(blanks, z3.Plus(chars_re(digs)), blanks, units, blanks)
    r, mod = q.check([z3.InRe(s, A), z3.Not(z3.InRe(s, WF)), z3.InRe(s, z3.Star(chars_re([(0x20, 0x7E)])))], "accepted-is-wellformed:shaped")
    if r != "sat":
        r, mod = q.check([z3.InRe(s, A), z3.Not(z3.InRe(s, WF))], "accepted-is-wellformed")
    if r == "sat":
        w = z2py(mod[s], False)
        res.update(status="violated", witness_class="malformed-duration-accepted", model=repr(w), call="parse_duration(%r)" % w,
                   replay_src=mk_replay(w, "import re\nWF = %r\n" % (r"\s*\d+\s*(s|seconds?|days?|mo|months?|years?)\s*",) +
                                        "try:\n    v = parse_duration(W)\nexcept ValueError:\n    print('rejected'); sys.exit(0)\n"
                                        "print('returned', v)\nif not re.fullmatch(WF, W, re.I):\n"
                                        "    print('VIOLATION: malformed duration accepted'); sys.exit(1)\nsys.exit(0)\n"))
        return q.finish(res)
    if r != "unsat":
        q.unknown.append("accepted-is-wellformed")
    # information: leniency classes (accepted with their natural value, outside the documented grammar)
    ascii_only = z3.Star(chars_re([(0, 127)]))
    lenient = {}
    for (label, extra) in (
            ("non-ASCII digit", [z3.Not(z3.InRe(s, cat(z3.Star(chars_re([(0, 0x2F), (0x3A, _rx.Z3_MAXCHAR)])))))] + [z3.Not(z3.InRe(s, ascii_only))]),
            ("trailing newline", [z3.SuffixOf(z3.StringVal("\n"), s)]),
            ("undocumented seconds unit", [z3.InRe(s, cat(z3.Plus(D()), alt(*[lit_re(x) for x in SPEC_SECONDS])))]),
            ("upper-case unit", [z3.InRe(s, cat(z3.Plus(D()), z3.Plus(chars_re([(0x41, 0x5A)]))))]),
            ("several / leading blanks", [z3.InRe(s, cat(lit_re("  "), z3.Plus(D()), lit_re("  "), z3.Star(chars_re([(0x61, 0x7A)]))))])):
        r, mod = q.check([z3.InRe(s, A), z3.Not(z3.InRe(s, spec_duration_lang()))] + extra, "lenient:" + label)
        if r == "sat":
            w = z2py(mod[s], False)
            try:
                lenient[label] = "%r -> %r" % (w, time_format.parse_duration(w))
            except Exception as e:
                lenient[label] = "%r -> %s" % (w, type(e).__name__)
    info["accepted_outside_documented_grammar"] = lenient
    return q.finish(res)


@guarded
def ob_size_documented(ctx):
    """documented reserved_space spellings are accepted with the documented value"""
    ms, info = _setup(["size"])
    sm = ms["size"]
    q = Q(ctx)
    known = _known(ctx)
    res = {"status": "discharged", "nonvacuous": True, "known_hits": [], "info": info}
    s = z3.String("s")
    A = sm.accepted()
    DOC = spec_size_lang()
    r0, _ = q.check([z3.InRe(s, DOC), z3.InRe(s, A)], "doc:nonvacuity")
    res["nonvacuous"] = (r0 == "sat")
    excl = []
    while True:
        r, mod = q.check([z3.InRe(s, DOC), z3.Not(z3.InRe(s, A))] + excl, "doc-subset-accepted")
        if r != "sat":
            break
        w = z2py(mod[s], False)
        cls = "documented-space-rejected" if " " in w else "documented-size-rejected"
        mm = re.fullmatch(r"([0-9]+) ?([A-Za-z]*)", w)
        want = int(mm.group(1)) * spec_size_multiplier(mm.group(2).upper())
        if cls == "documented-space-rejected" and cls in known and not excl:
            res["known_hits"].append({"class": cls, "witness": repr(w), "what": "parse_abbreviated_size(%r) raises ValueError (documented value %d)" % (w, want)})
            excl = [z3.InRe(s, z3.Star(chars_re([(0, 0x1F), (0x21, _rx.Z3_MAXCHAR)])))]
            continue
        res.update(status="violated", witness_class=cls, model=repr(w), call="parse_abbreviated_size(%r)" % w,
                   replay_src=mk_replay(w, "FN = parse_abbreviated_size\n" + BODY_DOC_ACCEPTED, WANT=want))
        return q.finish(res)
    return q.finish(res)


@guarded
def ob_size_value(ctx):
    """every suffix the regex accepts (after upper()) is a key of the multiplier dict once a final B is dropped, and carries the
    documented power of 1000 / 1024"""
    ms, info = _setup(["size"])
    sm = ms["size"]
    q = Q(ctx)
    res = {"status": "discharged", "nonvacuous": True, "info": info}
    x = z3.String("x")
    key = z3.If(z3.SuffixOf(z3.StringVal("B"), x), z3.SubString(x, 0, z3.Length(x) - 1), x)
    r0, _ = q.check([z3.InRe(x, sm.suffix_re)], "suffix:nonvacuity")
    res["nonvacuous"] = (r0 == "sat")
    r, mod = q.check([z3.InRe(x, sm.suffix_re), z3.Not(z3.Or(*[key == z3.StringVal(k) for k in sm.mult]))], "suffix-is-key")
    if r == "sat":
        sw = z2py(mod[x], False)
        w = "5" + sw
        res.update(status="violated", witness_class="suffix-keyerror", model=repr(w), call="parse_abbreviated_size(%r)" % w,
                   replay_src=mk_replay(w, BODY_SIZE_VALUE, WANT=None))
        return q.finish(res)
    code = z3.IntVal(-1)
    for k, v in sm.mult.items():
        code = z3.If(key == z3.StringVal(k), z3.IntVal(v), code)
    # specification: scale letter -> exponent, I -> binary
    specv = z3.IntVal(-2)
    B = z3.Option(lit_re("B"))
    lenient = []
    for n, c in enumerate(SCALES):
        specv = z3.If(z3.InRe(x, cat(lit_re(c), B)), z3.IntVal(1000 ** (n + 1)), specv)
        specv = z3.If(z3.InRe(x, cat(lit_re(c), lit_re("I"), B)), z3.IntVal(1024 ** (n + 1)), specv)
    specv = z3.If(z3.InRe(x, B), z3.IntVal(1), specv)
    specv = z3.If(z3.InRe(x, cat(lit_re("I"), B)), z3.IntVal(1), specv)      # 'iB' without a scale: bytes (undocumented, harmless)
    r, mod = q.check([z3.InRe(x, sm.suffix_re), code != specv], "suffix-multiplier")
    if r == "sat":
        sw = z2py(mod[x], False)
        w = "5" + sw
        want = spec_size_multiplier(sw)
        res.update(status="violated", witness_class="suffix-multiplier", model=repr(w), call="parse_abbreviated_size(%r)" % w,
                   replay_src=mk_replay(w, BODY_SIZE_VALUE, WANT=None if want is None else 5 * want))
        return q.finish(res)
    # malformed values are rejected: everything accepted is  digits + a suffix with a meaning above (+ at most one final newline),
    # where "suffix" is read after the subject transformation the function applies (upper())
    s = z3.String("s")
    A = sm.accepted()
    digs = _rx.atom_chars(_rx.C.IN, [(_rx.C.CATEGORY, _rx.C.CATEGORY_DIGIT)], sm.flags, False)
    cmap = _rx.CharMap(sm.mapped) if sm.mapped else None

    def pre(ch):
        return chars_re(cmap.pre([(ord(ch), ord(ch))])) if cmap else lit_re(ch)
    scale = alt(*[pre(c) for c in SCALES])
    suffix_wf = cat(z3.Option(alt(cat(scale, z3.Option(pre("I"))), pre("I"))), z3.Option(pre("B")))
    WF = cat(z3.Plus(chars_re(cmap.pre(digs) if cmap else digs)), z3.Option(lit_re(" ")), suffix_wf, z3.Option(lit_re("\n")))
    if sm.tr[2]:
        wsr = z3.Star(chars_re(strip_ws_ranges()))
        WF = cat(wsr, WF, wsr)
    r, mod = q.check([z3.InRe(s, A), z3.Not(z3.InRe(s, WF)), z3.InRe(s, z3.Star(chars_re([(0x20, 0x7E)])))], "accepted-is-wellformed:shaped")
    if r != "sat":
        r, mod = q.check([z3.InRe(s, A), z3.Not(z3.InRe(s, WF))], "accepted-is-wellformed")
    if r == "sat":
        w = z2py(mod[s], False)
        res.update(status="violated", witness_class="malformed-size-accepted", model=repr(w), call="parse_abbreviated_size(%r)" % w,
                   replay_src=mk_replay(w, "import re\ntry:\n    v = parse_abbreviated_size(W)\nexcept ValueError:\n    print('rejected'); sys.exit(0)\n"
                                        "print('returned', v)\nif not re.fullmatch(r'\\d+ ?([KMGTPE]?I?B?)\\n?', W.upper()):\n"
                                        "    print('VIOLATION: malformed size accepted'); sys.exit(1)\nsys.exit(0)\n"))
        return q.finish(res)
    if r != "unsat":
        q.unknown.append("accepted-is-wellformed")
    lenient = {}
    for (label, extra) in (("non-ASCII character", [z3.Not(z3.InRe(s, z3.Star(chars_re([(0, 127)]))))]),
                           ("trailing newline", [z3.SuffixOf(z3.StringVal("\n"), s)]),
                           ("'i' without a scale letter", [z3.InRe(s, cat(z3.Plus(D()), ci("i"), z3.Option(ci("b"))))])):
        r, mod = q.check([z3.InRe(s, A), z3.Not(z3.InRe(s, spec_size_lang()))] + extra, "lenient:" + label)
        if r == "sat":
            w = z2py(mod[s], False)
            try:
                lenient[label] = "%r -> %r" % (w, abbreviate.parse_abbreviated_size(w))
            except Exception as e:
                lenient[label] = "%r -> %s" % (w, type(e).__name__)
    info["accepted_outside_documented_grammar"] = lenient
    info["multipliers"] = dict((k, v) for k, v in sm.mult.items())
    return q.finish(res)


@guarded
def ob_size_print_parse(ctx):
    """every string abbreviate_space can print is accepted by parse_abbreviated_size"""
    ms, info = _setup(["size", "print"])
    sm, pm = ms["size"], ms["print"]
    q = Q(ctx)
    known = _known(ctx)
    res = {"status": "discharged", "nonvacuous": True, "known_hits": [], "info": info}
    p = z3.String("p")
    A = sm.accepted()
    info["print_forms"] = {"bytes": pm.small_fmt, "scaled": pm.big_fmt, "scales": pm.scales, "tails": pm.tails}
    for (cls, form, pick) in (("abbrev-bytes-form-rejected", pm.bytes_form(), (12, True)),
                              ("abbrev-scaled-form-rejected", pm.scaled_form(), (1234567, True))):
        r0, _ = q.check([z3.InRe(p, form)], cls + ":nonvacuity")
        if r0 != "sat":
            res["nonvacuous"] = False
        r, mod = q.check([z3.InRe(p, form), z3.Not(z3.InRe(p, A))], cls)
        if r == "sat":
            w = z2py(mod[p], False)
            # a size that really prints in this form (for the replay): the witness itself when it is directly printable
            n, si = pick
            mm = re.fullmatch(r"([0-9]+) B", w)
            if mm and int(mm.group(1)) < 1024:
                n = int(mm.group(1))
            real_p = abbreviate.abbreviate_space(n, si)
            if cls in known:
                res["known_hits"].append({"class": cls, "witness": repr(w),
                                          "what": "abbreviate_space(%d) = %r is rejected by parse_abbreviated_size" % (n, real_p)})
                continue      # excluding the class = excluding this print form
            res.update(status="violated", witness_class=cls, model=repr(w), call="parse_abbreviated_size(abbreviate_space(%d))" % n,
                       replay_src=mk_replay(w, BODY_PRINT, N=n, SI=si))
            return q.finish(res)
        if r == "unsat" and cls == "abbrev-bytes-form-rejected":
            # accepted: then it must read back the same number (form "<n> B": multiplier of suffix "B" is 1) -- checked by size_value
            info["bytes_form"] = "accepted by the parser"
    return q.finish(res)


@guarded
def ob_date_language(ctx):
    """documented dates are accepted; anything accepted is a date or a complete timestamp (no trailing garbage)"""
    ms, info = _setup(["date"])
    dm = ms["date"]
    q = Q(ctx)
    known = _known(ctx)
    res = {"status": "discharged", "nonvacuous": True, "known_hits": [], "info": info}
    s = z3.String("s")
    info["regex"] = dm.pat.pattern
    info["method"] = dm.method
    info["appended"] = dm.appended
    r0, _ = q.check([z3.InRe(s, spec_date_lang()), dm.accepted_cond(s)], "doc:nonvacuity")
    res["nonvacuous"] = (r0 == "sat")
    r, mod = q.check([z3.InRe(s, spec_date_lang()), z3.Not(dm.accepted_cond(s))], "doc-subset-accepted")
    if r == "sat":
        w = z2py(mod[s], False)
        res.update(status="violated", witness_class="documented-date-rejected", model=repr(w), call="parse_date(%r)" % w,
                   replay_src=mk_replay(w, "FN = parse_date\n" + BODY_DOC_ACCEPTED, WANT=None))
        return q.finish(res)
    if r != "unsat":
        q.unknown.append("doc-subset-accepted")
    # well-formed (specification): YYYY-MM-DD, or the complete timestamp forms iso_utc_time_to_seconds documents
    # (date, one of T _ blank, HH:MM:SS, optional .fraction); any character of the live \\d class counts as a digit (leniency = information)
    digs = chars_re(_rx.atom_chars(_rx.C.IN, [(_rx.C.CATEGORY, _rx.C.CATEGORY_DIGIT)], dm.rx.flags, False))

    def dd(n):
        return z3.Loop(digs, n, n)
    date_only = cat(dd(4), lit_re("-"), dd(2), lit_re("-"), dd(2))
    full = cat(date_only, chars_re([(0x20, 0x20), (0x54, 0x54), (0x5F, 0x5F)]), dd(2), lit_re(":"), dd(2), lit_re(":"), dd(2),
               z3.Option(cat(lit_re("."), z3.Plus(digs))))
    anything = _rx.sigma_star(False)
    wellformed = z3.Or(z3.InRe(s, date_only), z3.InRe(s, cat(full, anything)))
    # witness shaping first (a real date in front, ASCII only), then the unconstrained query that decides
    r, mod = q.check([dm.accepted_cond(s), z3.Not(wellformed),
                      z3.InRe(s, cat(lit_re("2009-01-16"), z3.Option(cat(chars_re([(0x20, 0x2F), (0x3A, 0x7E)]), lit_re("10"), chars_re([(0x20, 0x2F), (0x3A, 0x7E)]),
                                                                     lit_re("11"), chars_re([(0x20, 0x2F), (0x3A, 0x7E)]), lit_re("12"))),
                                     z3.Star(chars_re([(0x20, 0x7E)]))))], "accepted-is-wellformed:shaped")
    if r != "sat":
        r, mod = q.check([dm.accepted_cond(s), z3.Not(wellformed),
                          z3.InRe(s, cat(lit_re("2009-01-1"), z3.Star(chars_re([(0x20, 0x7E)]))))], "accepted-is-wellformed:shaped2")
    if r != "sat":
        r, mod = q.check([dm.accepted_cond(s), z3.Not(wellformed)], "accepted-is-wellformed")
    if r == "sat":
        w = z2py(mod[s], False)
        res.update(status="violated", witness_class="malformed-date-accepted", model=repr(w), call="parse_date(%r)" % w, replay_src=mk_replay(w, BODY_DATE))
        return q.finish(res)
    if r != "unsat":
        q.unknown.append("accepted-is-wellformed")
    # information: text after a complete timestamp is ignored (the timestamp keeps its natural value: see date_fields)
    r, mod = q.check([dm.accepted_cond(s), z3.InRe(s, cat(lit_re("2009-01-16 10:00:00"), z3.Plus(chars_re([(0x61, 0x7A)]))))], "info:trailing-text")
    if r == "sat":
        w = z2py(mod[s], False)
        try:
            info["text_after_a_complete_timestamp_is_ignored"] = "parse_date(%r) = %r" % (w, time_format.parse_date(w))
        except Exception as e:
            info["text_after_a_complete_timestamp_is_ignored"] = "parse_date(%r) raises %s" % (w, type(e).__name__)
    return q.finish(res)


def date_code_model(dm, fld):
    """(returns, value): z3 condition under which iso_utc_time_to_seconds returns (no ValueError) and the integer part it returns,
    for integer fields fld[name]; wiring of calendar.timegm / datetime.datetime arguments read from the AST"""
    def term(a):
        return fld[a] if isinstance(a, str) else z3.IntVal(a)
    (cy, cmo, cd, cH, cM, cS) = [term(a) for a in dm.timegm_args]
    returns = [1 <= cy, cy <= 9999, 1 <= cmo, cmo <= 12]          # calendar.timegm: datetime.date(year, month, 1)
    if dm.dt_args is not None:
        a = [term(x) for x in dm.dt_args]
        returns += [1 <= a[0], a[0] <= 9999, 1 <= a[1], a[1] <= 12, 1 <= a[2], a[2] <= month_len(a[0], a[1])]
        if len(a) == 6:
            returns += [0 <= a[3], a[3] <= 23, 0 <= a[4], a[4] <= 59, 0 <= a[5], a[5] <= 59]
    return z3.And(*returns), code_timegm(cy, cmo, cd, cH, cM, cS)


def validate_date_code_model(dm):
    names = ["year", "month", "day", "hour", "minute", "second"]
    vs = z3.Ints("y m d H M S")
    fld = dict(zip(names, vs))
    returns, value = date_code_model(dm, fld)
    n = 0
    grid = [(1970, 1, 1, 0, 0, 0), (2009, 1, 16, 0, 0, 0), (2009, 2, 31, 0, 0, 0), (2009, 1, 0, 0, 0, 0), (2000, 2, 29, 23, 59, 59), (1900, 2, 29, 0, 0, 0),
            (2009, 13, 1, 0, 0, 0), (2009, 0, 10, 0, 0, 0), (0, 1, 1, 0, 0, 0), (9999, 12, 31, 23, 59, 59), (2024, 12, 99, 12, 0, 7), (2009, 1, 16, 99, 99, 99),
            (2009, 1, 16, 24, 0, 0), (2009, 1, 16, 23, 60, 0), (2009, 1, 16, 23, 59, 60), (2009, 4, 31, 0, 0, 0), (2009, 12, 1, 1, 2, 3), (2009, 1, 12, 0, 0, 0),
            (2008, 2, 29, 0, 0, 0), (2100, 2, 29, 0, 0, 0), (2009, 10, 3, 4, 5, 6), (2009, 3, 10, 6, 5, 4)]
    for t in grid:
        w = "%04d-%02d-%02d %02d:%02d:%02d" % t
        try:
            real = int(time_format.iso_utc_time_to_seconds(w))
        except ValueError:
            real = None
        sub = [(v, z3.IntVal(x)) for v, x in zip(vs, t)]
        ok = z3.is_true(z3.simplify(z3.substitute(returns, *sub)))
        model = z3.simplify(z3.substitute(value, *sub)).as_long() if ok else None
        if real != model:
            raise hlib.HarnessError("iso_utc_time_to_seconds model disagrees with the real function on %r: real=%r model=%r" % (w, real, model))
        n += 1
    return n


@guarded
def ob_date_fields(ctx):
    """for every field combination the regex lets through: the call either raises ValueError or the fields form a real calendar
    date/time and the result is its UTC timestamp (two independent day-count formulations)"""
    ms, info = _setup(["date"])
    dm = ms["date"]
    q = Q(ctx)
    known = _known(ctx)
    res = {"status": "discharged", "nonvacuous": True, "known_hits": [], "info": info}
    names = ["year", "month", "day", "hour", "minute", "second"]
    y, m, d, H, M, S = z3.Ints("y m d H M S")
    fld = dict(zip(names, (y, m, d, H, M, S)))
    for nme in names:
        if nme not in dm.widths:
            raise hlib.HarnessError("date regex has no fixed-width digit group %r" % nme)
    info["field_widths"] = dict(dm.widths)
    info["timegm_arguments"] = list(dm.timegm_args)
    shape = []
    for nme in names:
        shape += [0 <= fld[nme], fld[nme] <= 10 ** dm.widths[nme] - 1]
    # when the code returns and what (wiring of the calendar.timegm / datetime.datetime arguments read from the AST; compared with the
    # real function on a grid of field values)
    info["datetime_arguments"] = dm.dt_args
    info["field_model_validation"] = validate_date_code_model(dm)
    # the arithmetic model knows nothing about the process time zone: the real parse_date is run on solver-chosen documented dates
    # (two per month, incl. month ends) under several TZ settings and must give midnight UTC every time
    info["timezone_probes"] = check_dates_in_timezones(solver_dates(q))
    info["timezones"] = list(TZS)
    returns, code_value = date_code_model(dm, fld)
    valid = z3.And(1 <= y, 1 <= m, m <= 12, 1 <= d, d <= month_len(y, m), H <= 23, M <= 59, S <= 59)
    natural = civil_days(y, m, d) * 86400 + H * 3600 + M * 60 + S
    r0, _ = q.check(shape + [returns, valid], "fields:nonvacuity")
    res["nonvacuous"] = (r0 == "sat")

    def witness(mod):
        vals = dict((nme, mod.eval(fld[nme], model_completion=True).as_long()) for nme in names)
        w = "%0*d-%0*d-%0*d" % (dm.widths["year"], vals["year"], dm.widths["month"], vals["month"], dm.widths["day"], vals["day"])
        if (vals["hour"], vals["minute"], vals["second"]) != (0, 0, 0):
            w += " %0*d:%0*d:%0*d" % (dm.widths["hour"], vals["hour"], dm.widths["minute"], vals["minute"], dm.widths["second"], vals["second"])
        return w
    excl = []
    while True:
        # witness shaping first (a plain date of 2009), then the general query that decides
        r, mod = q.check(shape + [returns, z3.Not(valid), y == 2009, H == 0, M == 0, S == 0] + excl, "accepted-fields-are-a-date:shaped")
        if r != "sat":
            r, mod = q.check(shape + [returns, z3.Not(valid)] + excl, "accepted-fields-are-a-date")
        if r != "sat":
            break
        w = witness(mod)
        cls = "date-field-out-of-range"
        if cls in known and not excl:
            try:
                got = time_format.parse_date(w)
            except Exception as e:
                got = type(e).__name__
            res["known_hits"].append({"class": cls, "witness": repr(w), "what": "parse_date(%r) = %r (silently normalised to another day/time)" % (w, got)})
            # the class: day / hour / minute / second outside their calendar range (year and month are range-checked by timegm)
            excl = [z3.And(1 <= d, d <= month_len(y, m), H <= 23, M <= 59, S <= 59)]
            continue
        res.update(status="violated", witness_class=cls, model=repr(w), call="parse_date(%r)" % w, replay_src=mk_replay(w, BODY_DATE))
        return q.finish(res)
    if r != "unsat":
        q.unknown.append("accepted-fields-are-a-date")
    # a plain date (the documented form) means midnight UTC at the beginning of that day: the time fields then come from the constant
    # parse_date appends
    at = dm.appended_time()
    info["time_supplied_by_parse_date"] = at
    if at is not None:
        fixed = [H == at[0], M == at[1], S == at[2]]
        r, mod = q.check(shape + fixed + [1 <= y, 1 <= m, m <= 12, 1 <= d, d <= month_len(y, m), returns,
                                          code_value != civil_days(y, m, d) * 86400, y == 2009], "plain-date-is-midnight:shaped")
        if r != "sat":
            r, mod = q.check(shape + fixed + [1 <= y, 1 <= m, m <= 12, 1 <= d, d <= month_len(y, m), returns,
                                              code_value != civil_days(y, m, d) * 86400], "plain-date-is-midnight")
        if r == "sat":
            vals = dict((nme, mod.eval(fld[nme], model_completion=True).as_long()) for nme in names)
            w = "%0*d-%0*d-%0*d" % (dm.widths["year"], vals["year"], dm.widths["month"], vals["month"], dm.widths["day"], vals["day"])
            res.update(status="violated", witness_class="date-not-midnight", model=repr(w), call="parse_date(%r)" % w, replay_src=mk_replay(w, BODY_DATE))
            return q.finish(res)
        if r != "unsat":
            q.unknown.append("plain-date-is-midnight")
    # value on valid fields: what the code computes (month-table day count on the wired fields) == civil day count of the named fields
    r, mod = q.check(shape + [valid, z3.Or(z3.Not(returns), code_value != natural), y == 2009, H == 0, M == 0, S == 0], "value:shaped")
    if r != "sat":
        r, mod = q.check(shape + [valid, z3.Or(z3.Not(returns), code_value != natural)], "value")
    if r == "sat":
        w = witness(mod)
        res.update(status="violated", witness_class="date-value", model=repr(w), call="parse_date(%r)" % w, replay_src=mk_replay(w, BODY_DATE))
        return q.finish(res)
    if r != "unsat":
        q.unknown.append("value")
    return q.finish(res)
