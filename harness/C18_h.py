"""
C18 — read-only directory access is transitive.

Real code executed: DirectoryNode._unpack_contents / _create_and_validate_node / _decrypt_rwcapdata / _create_readonly_node /
is_readonly / get_write_uri, dirnode._pack_normalized_children / _encrypt_rw_uri / pack_children, unknown.strip_prefix_for_ro,
UnknownNode.__init__, NodeMaker.create_from_cap / _create_from_single_cap, uri.from_string, MutableFileNode.init_from_cap,
util.netstring.

The inputs are concrete capability strings chosen by symbolic selectors (path-per-input: the engine explores every
selector combination within the bounds; the solver decides the selector arithmetic only).
"""
from vlib import hlib
from vlib.hlib import NS, assume
hlib.ensure_shims()
import _dirfix as F
from _dirfix import pick
from allmydata import dirnode as D, uri, nodemaker, unknown
from allmydata.interfaces import IDirectoryNode, MustBeDeepImmutableError
from allmydata.mutable.filenode import MutableFileNode
from allmydata.util import hashutil

B = hlib.bounds()
NOTES = list(F.NOTES) + [
    "unpack_calls: _decrypt_rwcapdata wrapped by a recorder returning a per-entry token (the real one runs in ro_transitive); nodemaker is a recorder",
    "pack_writecap: dirnode.aes replaced by a keyed length-preserving byte map (ideal-cipher stand-in, see _dirfix.FakeAES); ro_transitive and "
    "nodemaker_ro use the real AES/SHA-256 on concrete data",
]
hlib.encoded(D.DirectoryNode._unpack_contents, D.DirectoryNode._create_and_validate_node, D.DirectoryNode._decrypt_rwcapdata,
             D.DirectoryNode._create_readonly_node, D.DirectoryNode.get_write_uri, D.DirectoryNode.is_readonly,
             D._pack_normalized_children, D._encrypt_rw_uri, unknown.strip_prefix_for_ro, unknown.UnknownNode.__init__,
             nodemaker.NodeMaker.create_from_cap, nodemaker.NodeMaker._create_from_single_cap, uri.from_string,
             MutableFileNode.init_from_cap, MutableFileNode.get_write_uri, MutableFileNode.get_readonly_uri)

_unpack = hlib.strip_logs(D.DirectoryNode._unpack_contents)


class _RecDir(D.DirectoryNode):
    """DirectoryNode whose _decrypt_rwcapdata is a recorder (used only by h_unpack_calls)"""

    def _decrypt_rwcapdata(self, encwrcap):
        self.decrypt_calls.append(encwrcap)
        return self.plain[encwrcap]


_RECS = (b"E" * 48 + b"#0", b"E" * 48 + b"#1")
_RWS = (b"URI:SSK:write-cap-zero", b"URI:SSK:write-cap-one")
_ROS = (b"URI:SSK-RO:read-cap-zero", b"URI:SSK-RO:read-cap-one")
_NAMES = ("n0", "n1")


def h_unpack_calls(readonly: bool, mutable: bool, n: int, rw0: bool, rw1: bool, ro0: bool, ro1: bool, sp0: bool, sp1: bool) -> bool:
    """
    pre: 0 <= n <= B.get("n_max", 2)
    pre: mutable or readonly
    post: _ == True
    """
    rwf, rof, spf = (rw0, rw1), (ro0, ro1), (sp0, sp1)
    data = b""
    plain = {b"": b""}
    want = []
    for i in range(n):
        sp = b"  " if spf[i] else b""
        rwcap = _RECS[i] if rwf[i] else b""
        if rwf[i]:
            plain[rwcap] = _RWS[i] + sp
        ro = (_ROS[i] + sp) if rof[i] else b""
        entry = F.ns(_NAMES[i].encode("utf-8")) + F.ns(ro) + F.ns(rwcap) + F.ns(b'{"k": %d}' % i)
        data += F.ns(entry)
        want.append((rwcap, _RWS[i] if rwf[i] else None, _ROS[i] if rof[i] else None))
    nm = F.RecNodeMaker()
    dn = _RecDir.__new__(_RecDir)
    dn._node = NS(is_readonly=lambda: readonly, is_mutable=lambda: mutable, get_writekey=lambda: (None if readonly else b"K" * 16))
    dn._nodemaker = nm
    dn.decrypt_calls = []
    dn.plain = plain
    first_bad = None
    for i in range(n):
        if rwf[i] and not mutable:
            first_bad = i
            break
    try:
        children = _unpack(dn, data)
    except ValueError:
        if first_bad is None:
            return "ValueError although no immutable-directory entry carries rwcapdata"
        return True
    if first_bad is not None:
        return "immutable directory with a non-empty rwcapdata field was accepted"
    if readonly:
        if dn.decrypt_calls:
            return "_decrypt_rwcapdata called on a read-only directory"
    else:
        if dn.decrypt_calls != [w[0] for w in want]:
            return "_decrypt_rwcapdata not called with exactly each entry's rwcapdata field"
    if len(nm.calls) != n:
        return "create_from_cap not called once per entry"
    for i in range(n):
        (wc, rc, di, name) = nm.calls[i]
        if readonly and wc is not None:
            return "read-only directory handed a write cap to the nodemaker"
        if not readonly and wc != want[i][1]:
            return "write cap passed to the nodemaker is not the decrypted field (right-stripped, empty -> None)"
        if rc != want[i][2]:
            return "read cap passed to the nodemaker is not the ro_uri field (right-stripped, empty -> None)"
        if di != (not mutable):
            return "deep_immutable flag is not 'directory is immutable'"
        if name != _NAMES[i]:
            return "name"
    if sorted(children.keys()) != sorted(_NAMES[:n]):
        return "children names"
    for i in range(n):
        (node, md) = children[_NAMES[i]]
        if node.made_from != nm.calls[i] or md != {"k": i}:
            return "child is not the nodemaker's node / metadata wrong"
    return True


_PW_LABELS = ("ssk", "dir2", "chk", "ssk-ro", "unk-rw", "unk-imm", "dir2-mdmf", "lit")


_strip_model = F.slot_model


def h_pack_writecap(sel0: int, sel1: int, n: int, has_key: bool, imm: bool) -> bool:
    """
    pre: 1 <= n <= 2 and 0 <= sel0 < len(_PW_LABELS) and 0 <= sel1 < len(_PW_LABELS)
    pre: B.get("sel") is None or (sel0 in B["sel"] and sel1 in B["sel"])
    post: _ == True
    """
    assume(n == 2 or sel1 == 0)
    labels = [pick(_PW_LABELS, sel0), pick(_PW_LABELS, sel1)][:n]
    kids = [F.tok_child(lb) for lb in labels]
    children = dict(("c%d" % i, (kids[i], {"i": i})) for i in range(n))
    writekey = b"W" * 16 if has_key else None
    fake = F.FakeAES()
    saved = D.aes
    D.aes = fake
    try:
        try:
            out = D._pack_normalized_children(children, writekey, deep_immutable=imm)
        except MustBeDeepImmutableError:
            if not imm or all(k.allowed_imm for k in kids):
                return "MustBeDeepImmutableError without a disallowed child"
            return True
        except AssertionError:
            # an immutable directory is always packed without a writekey; with one, the code's own assertion may fire
            if imm and has_key:
                return True
            raise
    finally:
        D.aes = saved
    if imm and not all(k.allowed_imm for k in kids):
        return "mutable / write-capable child stored in an immutable directory"
    entries = F.read_entries(out)
    if [e[0] for e in entries] != [("c%d" % i).encode("utf-8") for i in range(n)]:
        return "names"
    for i in range(n):
        (name, ro, rwcapdata, md) = entries[i]
        k = kids[i]
        if ro != _strip_model(k.ro, imm):
            return "ro_uri slot is not the child's read cap (prefix-stripped)"
        if not has_key:
            if rwcapdata != b"":
                return "no writekey, but the write-cap field is not empty"
        else:
            if len(rwcapdata) < 48:
                return "rwcapdata shorter than salt+mac"
            salt, ct = rwcapdata[:16], rwcapdata[16:-32]
            key = hashutil.mutable_rwcap_key_hash(salt, writekey)
            if F.FakeAES._stream(key, ct) != (k.rw or b""):
                return "the directory's writekey does not recover the child's write cap"
            other = hashutil.mutable_rwcap_key_hash(salt, b"X" * 16)
            if k.rw and F.FakeAES._stream(other, ct) == k.rw:
                return "another writekey also recovers the write cap"
        if k.rw is not None and k.rw in out:
            return "child write cap appears in the directory plaintext"
    if not has_key and fake.calls:
        return "encryption ran without a writekey"
    return True


def _no_write_authority(node):
    """None if `node` conveys no write authority, else a description"""
    if node.get_write_uri() is not None:
        return "get_write_uri() is not None"
    if not node.is_unknown():
        if not node.is_readonly():
            return "node is not read-only"
        if IDirectoryNode.providedBy(node):
            if not node._node.is_readonly() or getattr(node._node, "get_writekey", lambda: None)() is not None:
                return "directory's backing file is writeable"
        elif isinstance(node, MutableFileNode):
            if node.get_writekey() is not None:
                return "mutable file node holds a writekey"
    else:
        if node.rw_uri is not None:
            return "unknown node holds a rw_uri"
    u = node.get_uri()
    if u is not None:
        for w in F.WRITE_SECRETS:
            if u == w:
                return "get_uri() is a write cap"
    return None


def h_ro_transitive(sel: int, via_ro: bool, mdmf_parent: bool, warm: bool) -> bool:
    """
    pre: 0 <= sel < len(F.LABELS)
    pre: B.get("sel") is None or sel in B["sel"]
    pre: via_ro or not warm
    post: _ == True
    """
    label = pick(F.LABELS, sel)
    (rw, ro, kind, mutable) = F.CAPS[label]
    nm = F.make_nodemaker()
    pw = F.PARENT_MDMF_W if mdmf_parent else F.PARENT_W
    parent_rw = nm.create_from_cap(pw.to_string())
    child = nm.create_from_cap(rw, ro)
    packed = D.pack_children({"c": (child, {})}, parent_rw._node.get_writekey())
    if rw is not None and rw in packed:
        return "child write cap appears in the directory plaintext"
    if warm:
        # the same client (one NodeMaker, node cache warm) first lists the directory through the write cap, then through the read cap
        nm2 = nm
        kept = parent_rw._unpack_contents(packed)
        if kept["c"][0].get_write_uri() != rw:
            return "write-cap holder does not recover the child's write cap"
    else:
        nm2 = F.make_nodemaker()
    reader = nm2.create_from_cap(None, pw.get_readonly().to_string()) if via_ro else nm2.create_from_cap(pw.to_string())
    if reader.is_readonly() != via_ro:
        return "reader's read-only-ness"
    got = reader._unpack_contents(packed)
    if list(got.keys()) != ["c"]:
        return "child lost"
    c2 = got["c"][0]
    if not via_ro:
        # the write-cap holder recovers exactly the child's write cap
        if c2.get_write_uri() != rw:
            return "write-cap holder does not recover the child's write cap"
        if c2.get_readonly_uri() != child.get_readonly_uri():
            return "read cap changed"
        return True
    bad = _no_write_authority(c2)
    if bad:
        return "through a read-only directory: child %s" % bad
    if c2.get_readonly_uri() != child.get_readonly_uri():
        return "read cap changed"
    if kind == "dir" and rw is not None:
        # one level down: the grandchild listing written by the child's write-cap holder, read through c2
        (grw, gro, _k, _m) = F.CAPS["ssk"]
        packed2 = D.pack_children({"g": (nm.create_from_cap(grw, gro), {})}, child._node.get_writekey())
        got2 = c2._unpack_contents(packed2)
        if list(got2.keys()) != ["g"]:
            return "grandchild lost"
        bad = _no_write_authority(got2["g"][0])
        if bad:
            return "through a read-only directory: grandchild %s" % bad
    return True


_PREFIXES = (b"", b"ro.", b"imm.")


def h_nodemaker_ro(sel: int, slot: int, prefix: int, deep_immutable: bool) -> bool:
    """
    pre: 0 <= sel < len(F.LABELS) and 0 <= slot <= 1 and 0 <= prefix <= 2
    pre: B.get("sel") is None or sel in B["sel"]
    post: _ == True
    """
    label = pick(F.LABELS, sel)
    (rw, ro, kind, mutable) = F.CAPS[label]
    pfx = pick(_PREFIXES, prefix)
    if slot == 0:
        cap = ro
        assume(prefix == 0 or not (ro.startswith(b"ro.") or ro.startswith(b"imm.")))
    else:
        # a write cap in the ro_uri slot, marked with an alleged-read-only / alleged-immutable prefix
        assume(rw is not None and prefix != 0)
        cap = rw
    nm = F.make_nodemaker()
    node = nm.create_from_cap(None, pfx + cap, deep_immutable=deep_immutable, name="x")
    bad = _no_write_authority(node)
    if bad:
        return "create_from_cap(None, %r, deep_immutable=%r): %s" % (pfx + cap, deep_immutable, bad)
    if (deep_immutable or prefix == 2) and not node.is_unknown() and node.is_mutable():
        return "mutable node from an immutable context"
    if slot == 1 and kind != "unknown":
        # a known write cap under a read-only prefix is refused (opaque node carrying the error)
        if not node.is_unknown() or node.error is None or node.get_readonly_uri() is not None:
            return "known write cap with a read-only prefix was not refused"
    return True


def h_create_readonly_node(sel: int, mdmf_parent: bool) -> bool:
    """
    pre: 0 <= sel < len(F.LABELS)
    pre: B.get("sel") is None or sel in B["sel"]
    post: _ == True
    """
    # the diminishing step used for links with 'no-write' metadata: DirectoryNode._create_readonly_node
    label = pick(F.LABELS, sel)
    (rw, ro, kind, mutable) = F.CAPS[label]
    nm = F.make_nodemaker()
    parent = nm.create_from_cap((F.PARENT_MDMF_W if mdmf_parent else F.PARENT_W).to_string())
    child = nm.create_from_cap(rw, ro)
    r = parent._create_readonly_node(child, "n")
    bad = _no_write_authority(r)
    if bad:
        return "_create_readonly_node(%s): %s" % (label, bad)
    if r.get_readonly_uri() != child.get_readonly_uri():
        return "read cap changed by diminishing"
    if rw is None and kind != "unknown" and r is not child:
        return "an already read-only node should be kept as it is"
    return True


# ---- unknown (future) caps whose text contains "ro." / "imm." / "URI:" somewhere after position 0 --------------------------------
_UNK = (b"lafs://from_the_future/plain", b"lafs://from_the_future_rw/hero.dat", b"lafs://archive.imm.2048/x",
        b"URI:FUTURE-RW:macro.cosm:xyzzy")
_UNK_RO = b"lafs://future-readcap/zero.day"


def h_unknown_caps(c: int, slot: int, deep_immutable: bool, via_ro: bool) -> bool:
    """
    pre: 0 <= c < len(_UNK) and 0 <= slot <= 2
    post: _ == True
    """
    from allmydata.interfaces import MustNotBeUnknownRWError
    cap = pick(_UNK, c)
    nm = F.make_nodemaker()
    if slot == 0:
        node = nm.create_from_cap(cap, None, deep_immutable=deep_immutable, name="u")       # single cap of unknown format: cannot be diminished
        if node.error is None or not isinstance(node.error, MustNotBeUnknownRWError):
            return "a bare unknown cap in the write slot must be refused (it cannot be diminished to a read cap)"
        if node.get_write_uri() is not None or node.get_readonly_uri() is not None:
            return "refused node still carries a cap"
        try:
            D.pack_children({"u": (node, {})}, b"W" * 16)
        except MustNotBeUnknownRWError:
            return True
        return "a refused unknown cap was packed into a directory"
    if slot == 1:
        node = nm.create_from_cap(None, cap, deep_immutable=deep_immutable, name="u")
        want_ro = (b"imm." if deep_immutable else b"ro.") + cap
        rw = None
    else:
        assume(not deep_immutable)
        node = nm.create_from_cap(cap, _UNK_RO, name="u")
        want_ro = b"ro." + _UNK_RO
        rw = cap
    if node.error is not None:
        return "unexpected refusal: %r" % (node.error,)
    if node.get_write_uri() != rw or node.get_readonly_uri() != want_ro:
        return "unknown node holds (%r, %r), expected (%r, %r)" % (node.get_write_uri(), node.get_readonly_uri(), rw, want_ro)
    # store it and read it back through the parent's read cap / write cap
    parent_rw = nm.create_from_cap(F.PARENT_RW_CAP)
    if deep_immutable:
        packed = D.pack_children({"u": (node, {})}, None, deep_immutable=True)
        reader = nm.create_from_cap(None, F.PARENT_IMM_CAP)
    else:
        packed = D.pack_children({"u": (node, {})}, parent_rw._node.get_writekey())
        reader = nm.create_from_cap(None, F.PARENT_RO_CAP) if via_ro else parent_rw
    if rw is not None and rw in packed:
        return "unknown write cap appears in the directory plaintext"
    got = reader._unpack_contents(packed)
    c2 = got["u"][0]
    if reader.is_readonly():
        bad = _no_write_authority(c2)
        if bad:
            return "through a read-only directory: %s" % bad
        u = c2.get_uri()
        if not (u.startswith(b"ro.") or u.startswith(b"imm.")):
            return "read-cap holder's cap %r is not marked read-only" % (u,)
    elif c2.get_write_uri() != rw:
        return "write-cap holder does not recover the unknown write cap"
    if c2.get_readonly_uri() != want_ro:
        return "read cap changed: %r" % (c2.get_readonly_uri(),)
    return True


def h_empty_dirs_isolated(k0: int, k1: int, b_readonly: bool, order: int) -> bool:
    """
    pre: 0 <= k0 < len(_PW_LABELS) and 0 <= k1 < len(_PW_LABELS) and 0 <= order <= 1
    pre: B.get("sel") is None or (k0 in B["sel"] and k1 in B["sel"])
    post: _ == True
    """
    # several directories handled by one process, all empty at first: what is linked into one must not show up in another
    from allmydata.util.dictutil import AuxValueDict  # noqa: F401
    fake = F.FakeAES()
    saved, saved_time = D.aes, D.time
    D.aes = fake
    D.time = NS(time=lambda: 1202777696)        # link timestamps are C20's subject; a fixed clock keeps the metadata concrete
    try:
        def mk(writekey, readonly):
            dn = D.DirectoryNode.__new__(D.DirectoryNode)
            dn._node = NS(is_readonly=lambda: readonly, is_mutable=lambda: True, get_writekey=lambda: (None if readonly else writekey))
            dn._nodemaker = F.RecNodeMaker()
            return dn
        A, Bd, C = mk(b"A" * 16, False), mk(b"B" * 16, b_readonly), mk(b"C" * 16, False)
        ca, cc = F.tok_child(pick(_PW_LABELS, k0)), F.tok_child(pick(_PW_LABELS, k1))
        if order == 1:
            if len(_unpack(Bd, b"")) != 0:
                return "empty directory lists children"
        a_contents = D.Adder(A, {"from-a": (ca, {})}).modify(b"", None, True)
        listed = _unpack(Bd, b"")
        if len(listed) != 0:
            return "an empty directory lists %r after something was linked into another directory" % (sorted(listed.keys()),)
        c_contents = D.Adder(C, {"from-c": (cc, {})}).modify(b"", None, True)
        got_c = _unpack(C, c_contents)
        if sorted(got_c.keys()) != ["from-c"]:
            return "first add into an empty directory stored %r" % (sorted(got_c.keys()),)
        if got_c["from-c"][0].made_from[0] != cc.rw:
            return "child write cap not recovered by its own directory"
        if ca.rw is not None and ca.rw in c_contents:
            return "foreign write cap in another directory's plaintext"
        got_a = _unpack(A, a_contents)
        if sorted(got_a.keys()) != ["from-a"] or got_a["from-a"][0].made_from[0] != ca.rw:
            return "directory A lost its child"
    finally:
        D.aes, D.time = saved, saved_time
    return True
