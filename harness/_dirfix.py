"""
Shared fixtures for the directory properties (C18, C19): a matrix of concrete capabilities built with the real
uri classes at import time, a real NodeMaker without collaborators, token child nodes, an independent netstring
reader/writer used by the oracles, and a light keyed stand-in for AES-CTR.
"""
from vlib import hlib
hlib.ensure_shims()
from zope.interface import implementer
from allmydata import uri, nodemaker
from allmydata.interfaces import IFilesystemNode, IFileNode, IDirectoryNode

NOTES = [
    "NodeMaker built with storage_broker/secret_holder/history/uploader/terminator = None (node construction only; nothing is fetched)",
]

_FP = b"\x02" * 32


def _ssk(i):
    return uri.WriteableSSKFileURI(bytes([i]) * 16, _FP)


def _mdmf(i):
    return uri.WriteableMDMFFileURI(bytes([i]) * 16, _FP)


_CHK = uri.CHKFileURI(b"\x03" * 16, b"\x04" * 32, 3, 10, 1234)
_LIT = uri.LiteralFileURI(b"hello")

# label -> (rw cap or None, ro cap, kind 'file'|'dir'|'unknown', mutable: True/False/None = not known)
CAPS = {
    "chk": (None, _CHK.to_string(), "file", False),
    "lit": (None, _LIT.to_string(), "file", False),
    "ssk": (_ssk(0x11).to_string(), _ssk(0x11).get_readonly().to_string(), "file", True),
    "ssk-ro": (None, _ssk(0x12).get_readonly().to_string(), "file", True),
    "mdmf": (_mdmf(0x13).to_string(), _mdmf(0x13).get_readonly().to_string(), "file", True),
    "mdmf-ro": (None, _mdmf(0x14).get_readonly().to_string(), "file", True),
    "dir2": (uri.DirectoryURI(_ssk(0x15)).to_string(), uri.DirectoryURI(_ssk(0x15)).get_readonly().to_string(), "dir", True),
    "dir2-ro": (None, uri.DirectoryURI(_ssk(0x16)).get_readonly().to_string(), "dir", True),
    "dir2-mdmf": (uri.MDMFDirectoryURI(_mdmf(0x17)).to_string(), uri.MDMFDirectoryURI(_mdmf(0x17)).get_readonly().to_string(), "dir", True),
    "dir2-mdmf-ro": (None, uri.MDMFDirectoryURI(_mdmf(0x18)).get_readonly().to_string(), "dir", True),
    "dir2-chk": (None, uri.ImmutableDirectoryURI(_CHK).to_string(), "dir", False),
    "dir2-lit": (None, uri.LiteralDirectoryURI(uri.LiteralFileURI(b"")).to_string(), "dir", False),
    "unk-rw": (b"lafs://from_the_future_rw", b"ro.lafs://from_the_future_ro", "unknown", True),
    "unk-ro": (None, b"ro.lafs://readonly_from_the_future", "unknown", None),
    "unk-imm": (None, b"imm.lafs://immutable_from_the_future", "unknown", False),
}
LABELS = tuple(CAPS.keys())
# the secret part of every write cap above (base32 writekey as it appears in the cap string) and the whole caps
WRITE_SECRETS = [c[0] for c in CAPS.values() if c[0] is not None]

PARENT_W = uri.DirectoryURI(_ssk(0x21))
PARENT_RW_CAP = PARENT_W.to_string()
PARENT_RO_CAP = PARENT_W.get_readonly().to_string()
PARENT_MDMF_W = uri.MDMFDirectoryURI(_mdmf(0x22))
PARENT_IMM_CAP = uri.ImmutableDirectoryURI(uri.CHKFileURI(b"\x23" * 16, b"\x24" * 32, 3, 10, 99)).to_string()


def make_nodemaker():
    return nodemaker.NodeMaker(None, None, None, None, None, {"k": 3, "n": 10}, None, None)


def pick(seq, i):
    """seq[i] by comparison (see the guide: do not index a tuple with a symbolic int and then call the result)"""
    for j in range(len(seq)):
        if i == j:
            return seq[j]
    raise hlib.HarnessError("index out of range")


# ---- independent netstring codec (oracle side; not the code's) ------------------------------------

def ns(b):
    return str(len(b)).encode("ascii") + b":" + b + b","


def read_ns(data, pos=0):
    """(payload, next position) of the netstring starting at pos; HarnessError if malformed"""
    j = data.find(b":", pos)
    if j < 0 or not data[pos:j].isdigit():
        raise hlib.HarnessError("oracle netstring reader: bad length at %d in %r" % (pos, data))
    n = int(data[pos:j].decode("ascii"))
    payload = data[j + 1:j + 1 + n]
    if len(payload) != n or data[j + 1 + n:j + 2 + n] != b",":
        raise hlib.HarnessError("oracle netstring reader: bad framing at %d in %r" % (pos, data))
    return payload, j + 2 + n


def read_all_ns(data):
    out = []
    pos = 0
    while pos < len(data):
        p, pos = read_ns(data, pos)
        out.append(p)
    return out


def read_entries(packed):
    """packed directory -> list of (name_utf8, ro_uri, rwcapdata, metadata_json) using the oracle's reader"""
    out = []
    for e in read_all_ns(packed):
        fields = read_all_ns(e)
        if len(fields) != 4:
            raise hlib.HarnessError("entry with %d fields" % len(fields))
        out.append(tuple(fields))
    return out


def slot_model(ro, deep_immutable):
    """what belongs into the ro_uri slot (ticket #833): the alleged-read-only prefix is implied by the slot, the
    alleged-immutable prefix only by an immutable directory"""
    if ro.startswith(b"imm."):
        return ro[4:] if deep_immutable else ro
    if ro.startswith(b"ro."):
        return ro[3:]
    return ro


def readback_model(ro, deep_immutable):
    """read cap of the node that comes back: unknown caps are re-prefixed by the context (imm. in an immutable directory, else the prefix they had)"""
    if ro.startswith(b"ro.") and deep_immutable:
        return b"imm." + ro[3:]
    return ro


# ---- token children ----------------------------------------------------------------------------------

class TokChild(object):
    """child node stand-in for the packing side: fixed caps, records nothing"""
    kind = "file"

    def __init__(self, rw, ro, allowed_imm=None, err=None):
        self.rw, self.ro, self.err = rw, ro, err
        self.allowed_imm = (rw is None) if allowed_imm is None else allowed_imm

    def raise_error(self):
        if self.err is not None:
            raise self.err

    def is_unknown(self):
        return False

    def is_allowed_in_immutable_directory(self):
        return self.allowed_imm

    def get_write_uri(self):
        return self.rw

    def get_readonly_uri(self):
        return self.ro

    def __repr__(self):
        return "<TokChild rw=%r ro=%r>" % (self.rw, self.ro)


@implementer(IFileNode)
class TokFile(TokChild):
    kind = "file"


@implementer(IDirectoryNode)
class TokDir(TokChild):
    kind = "dir"


@implementer(IFilesystemNode)
class TokUnknown(TokChild):
    kind = "unknown"

    def is_unknown(self):
        return True


def tok_child(label):
    (rw, ro, kind, mutable) = CAPS[label]
    cls = {"file": TokFile, "dir": TokDir, "unknown": TokUnknown}[kind]
    return cls(rw, ro, allowed_imm=(mutable is not True and rw is None))


class RecNodeMaker(object):
    """nodemaker stand-in for the unpacking side: records create_from_cap calls, returns a token carrying the arguments"""

    def __init__(self):
        self.calls = []

    def create_from_cap(self, writecap, readcap=None, deep_immutable=False, name=None):
        self.calls.append((writecap, readcap, deep_immutable, name))
        n = TokFile(writecap, readcap, allowed_imm=True)
        n.made_from = (writecap, readcap, deep_immutable, name)
        return n


# ---- light keyed stream cipher standing in for AES-CTR (ideal-cipher abstraction) ---------------------

class FakeAES(object):
    """
    Stand-in for allmydata.crypto.aes inside dirnode: a keyed, length-preserving, self-inverse byte map whose output on
    ASCII plaintext has every byte >= 0x80 (so plaintext never shows through) and which decrypts only under the same key.
    Records every (operation, key, data).
    """

    def __init__(self):
        self.calls = []

    @staticmethod
    def _stream(key, data):
        if not isinstance(key, bytes) or len(key) != 16:
            raise ValueError("AES key must be 16 bytes, got %r" % (key,))
        return bytes((b ^ (0x80 | (key[i % 16] & 0x7f))) for (i, b) in enumerate(data))

    def create_encryptor(self, key, iv=None):
        return ("enc", key)

    def create_decryptor(self, key, iv=None):
        return ("dec", key)

    def encrypt_data(self, e, plaintext):
        self.calls.append(("encrypt", e[1], plaintext))
        return self._stream(e[1], plaintext)

    def decrypt_data(self, d, crypttext):
        self.calls.append(("decrypt", d[1], crypttext))
        return self._stream(d[1], crypttext)
