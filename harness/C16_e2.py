"""
C16, engine E2: the alleged-prefix / deep-immutable rule of uri.from_string for ALL strings at once (z3 strings), on the
language model `_capmodel` generates from the live uri module (regexes, startswith chain and its guards read from the AST).
Complements the CrossHair matrix of C16_h (which runs the real function on concrete strings per kind).
"""
import time

import z3

from vlib import hlib
hlib.ensure_shims()
import _rx
import _capmodel as cm
from _rx import py2z, z2py

# specification (docs/specifications/uri.rst): which kinds confer write authority / denote mutable objects
WRITE_KINDS = ("URI:SSK:", "URI:MDMF:", "URI:DIR2:", "URI:DIR2-MDMF:")
MUTABLE_READ_KINDS = ("URI:SSK-RO:", "URI:MDMF-RO:", "URI:DIR2-RO:", "URI:DIR2-MDMF-RO:")

NOTES = ["from_string: startswith chain, guards and exception handler read from its AST; first lines (prefix stripping, can_be_* flags) hand-modelled; "
         "both validated against the real function on the corpus in all six contexts (prefix x deep_immutable)"]

REPLAY = '''#!/verif/.venv/bin/python
import os, sys, traceback
def _hook(*a):
    traceback.print_exception(*a); sys.stdout.flush(); os._exit(3)
sys.excepthook = _hook
sys.path[:0] = ["/verif"]
from vlib import hlib
hlib.ensure_shims()
from allmydata import uri
S = %r
WANT = %r      # "readonly" or "immutable"
bad = 0
for (prefix, deep) in ((b"ro.", False), (b"imm.", False), (b"", True), (b"ro.", True), (b"imm.", True)):
    if WANT == "immutable" and prefix == b"ro." and not deep:
        continue
    r = uri.from_string(prefix + S, deep_immutable=deep)
    print(prefix, deep, type(r).__name__)
    if isinstance(r, uri.UnknownURI):
        continue
    if WANT == "readonly" and not r.is_readonly():
        print("VIOLATION: alleged read-only / immutable context yields a write cap"); bad = 1
    if WANT == "immutable" and r.is_mutable():
        print("VIOLATION: alleged immutable context yields a mutable cap"); bad = 1
sys.exit(bad)
'''


def ob_prefix_all_strings(ctx):
    t0 = time.time()
    files, dirs, models, chain = cm.build()
    n = cm.validate_all(models, chain, "full")
    info = {"validation_comparisons": n, "validation_s": round(time.time() - t0, 2)}
    res = {"status": "discharged", "nonvacuous": True, "info": info}
    s = z3.String("s")
    cw, cmu = z3.Bool("can_be_writeable"), z3.Bool("can_be_mutable")
    flag = {"can_be_writeable": cw, "can_be_mutable": cmu}
    queries = 0
    tsol = 0.0
    unknown = []

    def check(asserts, label):
        nonlocal queries, tsol
        sol = _rx.new_solver(ctx.get("seed", 0), int(ctx["bounds"].get("query_timeout_ms", 60000)))
        for a in asserts:
            sol.add(a)
        t = time.perf_counter()
        r = sol.check()
        tsol += time.perf_counter() - t
        queries += 1
        if r == z3.unknown:
            unknown.append(label)
        return str(r), (sol.model() if r == z3.sat else None)

    def pre(p):
        return z3.InRe(s, _rx.cat(_rx.lit_re(py2z(p)), _rx.sigma_star(True)))
    # entry i handles s (first enabled entry whose prefix matches), with SYMBOLIC context flags
    taken = []
    earlier = []
    for e in chain:
        enabled = z3.BoolVal(True) if e.unless is None else z3.Not(flag[e.unless])
        here = z3.And(enabled, pre(e.prefix))
        taken.append(z3.And(here, *[z3.Not(x) for x in earlier]) if earlier else here)
        earlier.append(here)
    per = {}
    for (want, kinds, must_be_false) in (("readonly", WRITE_KINDS, cw), ("immutable", WRITE_KINDS + MUTABLE_READ_KINDS, cmu)):
        for i, e in enumerate(chain):
            if e.cls is None:
                continue
            m = models[e.cls]
            if py2z(m.base) not in kinds:
                continue
            returns_cap = z3.And(taken[i], flag[e.guard] if e.guard else z3.BoolVal(True), z3.InRe(s, m.parse_lang()))
            # the context relation: deep_immutable or "imm." => neither flag; "ro." => not writeable.  So "not can_be_mutable => not can_be_writeable".
            ctxrel = z3.Implies(z3.Not(cmu), z3.Not(cw))
            r0, _ = check([returns_cap, cw, cmu], "%s:%s:nonvacuity" % (want, e.cls))
            if r0 != "sat":
                res["nonvacuous"] = False
            r, mod = check([returns_cap, z3.Not(must_be_false), ctxrel], "%s:%s" % (want, e.cls))
            per["%s / %s" % (want, e.cls)] = "guard %s: %s" % (e.guard, r)
            if r == "sat":
                w = z2py(mod[s], True)
                res.update(status="violated", witness_class="prefix-guard", model=repr(w), call="uri.from_string(b'ro.'/b'imm.' + %r)" % (w,),
                           replay_src=REPLAY % (w, want))
                break
        if res["status"] == "violated":
            break
    # every kind the specification calls write / mutable-read is present in the chain (else the table above is vacuous for it)
    bases = set(py2z(models[e.cls].base) for e in chain if e.cls)
    missing = [k for k in WRITE_KINDS + MUTABLE_READ_KINDS if k not in bases]
    if missing:
        raise hlib.HarnessError("kinds %r are not dispatched by from_string" % (missing,))
    # hand-modelled context flags agree with the rule "ro. => not writeable; imm. or deep => neither"
    for prefix in (None, "ro", "imm"):
        for deep in (False, True):
            fl = cm.context_flags(prefix, deep)
            if (prefix or deep) and fl["can_be_writeable"]:
                raise hlib.HarnessError("context model lets a prefixed/deep context be writeable")
            if (prefix == "imm" or deep) and fl["can_be_mutable"]:
                raise hlib.HarnessError("context model lets an immutable context be mutable")
    info["per_entry"] = per
    res["queries"] = queries
    res["solver_s"] = round(tsol, 3)
    if unknown and res["status"] == "discharged":
        res["status"] = "inconclusive"
        res["detail"] = "solver returned unknown on %s" % (unknown[:5],)
    res["functions_encoded"] = dict(hlib.ENCODED)
    res["notes"] = list(dict.fromkeys(hlib.NOTES + NOTES))
    return res
