"""
C40 — web API byte-range downloads (web/filenode.py FileDownloader.parse_range_header + render).

Two kinds of obligations:
 * symbolic: the range arithmetic of parse_range_header/render on UNBOUNDED symbolic integers.  The Range header is
   a carrier object with the split/strip interface whose numbers are symbolic ints; header *formatting* literals
   ("bytes %s-%s/%s", b"%d") are replaced by recorders so the integers stay symbolic.
 * strings: the untouched functions on real header strings / real response header text with small pinned integers
   (path-per-input), which ties the carrier and the recorders to the real text.
Oracle (independent statement, RFC 7233 single range): the satisfiable part of the request is S = requested ∩ [0, F):
   206 + Content-Range "bytes a-b/F" + Content-Length b-a+1 + body read(a, b-a+1) with [a,b] = S when S is non-empty;
   416 when a first-byte-pos >= F; header ignored (200, whole file) when it cannot be parsed or last < first;
   a suffix range that selects nothing (suffix 0, or empty file) must not produce a 206.
"""
from vlib import hlib
from vlib.hlib import NS, assume
hlib.ensure_shims()
import builtins
from twisted.internet import defer
from twisted.web import http
from allmydata.web import filenode as wf
from allmydata.web.common import WebError

B = hlib.bounds()

# twisted.web.http is wrapped in a deprecation proxy (_ModuleProxy) whose attribute access breaks under CrossHair's
# tracing: give web.filenode a plain namespace with the same status-code constants (read here, outside tracing)
_http_consts = NS(**{k: getattr(http, k) for k in dir(http) if k.isupper() and isinstance(getattr(http, k), int)})
wf.http = _http_consts
http = _http_consts
NOTES = [
    "web.filenode.http (twisted's deprecation proxy module) replaced by a plain namespace holding the same integer status constants",
    "FileDownloader.render executed without its @render_exception decorator (eliot action / error-page rendering are outside); WebError is observed directly",
    "symbolic obligations: the names `int` and `str` in web.filenode are shadowed (int(x) of a carrier number returns its symbolic value, str(int) is identity) and the "
    "format literals 'bytes %s-%s/%s' and b'%d' are replaced by recorders of their arguments; the *_strings obligations run the same functions with none of this",
    "request and filenode are fakes: getHeader/setHeader/setResponseCode/method/args recorded; filenode.get_size() returns the symbolic size, read() records (first, size)",
]


class _Num(object):
    """a decimal number inside the Range header whose value is a symbolic int"""

    def __init__(self, v):
        self.v = v

    def __eq__(self, other):
        return False if isinstance(other, str) else NotImplemented

    def __ne__(self, other):
        return True if isinstance(other, str) else NotImplemented

    __hash__ = None


class _Spec(object):
    """one byte-range-spec: first '-' last, either part possibly empty"""

    def __init__(self, first, last):
        self.parts = (first, last)

    def strip(self):
        return self

    def split(self, sep, maxsplit=-1):
        if sep != '-' or maxsplit != 1:
            raise hlib.HarnessError("unexpected split on a range spec")
        return list(self.parts)


class _RangeSet(object):
    def __init__(self, specs):
        self.specs = specs

    def split(self, sep):
        if sep != ',':
            raise hlib.HarnessError("unexpected split on a range set")
        return list(self.specs)


class _Header(object):
    def __init__(self, specs, units='bytes'):
        self.units = units
        self.rs = _RangeSet(specs)

    def split(self, sep, maxsplit=-1):
        if sep != '=' or maxsplit != 1:
            raise hlib.HarnessError("unexpected split on the header")
        return [self.units, self.rs]

    def __bool__(self):
        return True


class _IntMeta(type):
    def __instancecheck__(cls, obj):
        return isinstance(obj, builtins.int)

    def __subclasscheck__(cls, sub):
        return issubclass(sub, builtins.int)


class _int(builtins.int, metaclass=_IntMeta):
    """shadow of the name `int` inside web.filenode: int(<carrier number>) is its symbolic value; everything else as usual"""

    def __new__(cls, x=0, *a):
        if isinstance(x, _Num):
            return x.v
        return builtins.int(x, *a)


def _str(x=""):
    if isinstance(x, builtins.int) or type(x).__name__.startswith("Symbolic"):
        return x
    return builtins.str(x)


class _Fmt(object):
    def __init__(self, name):
        self.name = name

    def __mod__(self, args):
        return (self.name, args)


_parse_sym = hlib.strip_logs(wf.FileDownloader.parse_range_header, extra_globals={"int": _int})
_render_sym = hlib.strip_logs(wf.FileDownloader.render, drop_decorators=("render_exception", "log_call_deferred"),
                              consts={"bytes %s-%s/%s": _Fmt("content-range"), b"%d": _Fmt("content-length")},
                              extra_globals={"str": _str})


def _unshadow():
    for nm in ("int", "str"):
        wf.__dict__.pop(nm, None)


def _shadow():
    wf.__dict__["int"] = _int
    wf.__dict__["str"] = _str


_unshadow()
_render_raw = wf.FileDownloader.render
while hasattr(_render_raw, "__wrapped__"):
    _render_raw = _render_raw.__wrapped__
hlib.encoded(_render_raw)


class _Req(object):
    def __init__(self, rng, method=b"GET", save=None):
        self.rng = rng
        self.method = method
        self.args = {} if save is None else {b"save": [save]}
        self.fields = None
        self.headers = {}
        self.code = None
        self.startedWriting = False
        self.uri = b"/uri/x"

    def getHeader(self, name):
        if name.lower() == 'range':
            return self.rng
        return None

    def setHeader(self, k, v):
        self.headers[k] = v

    def setResponseCode(self, code):
        self.code = code


class _FN(object):
    def __init__(self, size):
        self.size = size
        self.reads = []

    def get_size(self):
        return self.size

    def read(self, consumer, offset=0, size=None):
        self.reads.append((consumer, offset, size))
        return defer.succeed(consumer)


def _downloader(F):
    fd = wf.FileDownloader.__new__(wf.FileDownloader)
    fd.filenode = _FN(F)
    fd.filename = b"file.txt"
    return fd


def _expect(F, form, a, b):
    """independent model: ('full',) | ('416',) | ('206', lo, hi) | ('full-or-416',)"""
    if form == 0:                # first-last
        if b < a:
            return ("full",)
        if a >= F:
            return ("416",)
        return ("206", a, b if b < F - 1 else F - 1)
    if form == 1:                # first-
        if a >= F:
            return ("416",)
        return ("206", a, F - 1)
    # -suffix
    if a == 0 or F == 0:
        return ("full-or-416",)
    return ("206", F - a if F - a > 0 else 0, F - 1)


def _check_response(exp, F, req, fd, result, raised, head, symbolic):
    if raised is not None:
        if raised.code != http.REQUESTED_RANGE_NOT_SATISFIABLE:
            return "unexpected web error %r" % (raised.code,)
        if exp[0] not in ("416", "full-or-416"):
            return "416 although the range is satisfiable or should be ignored"
        if fd.filenode.reads:
            return "416 but data was read"
        return True
    if exp[0] == "416":
        return "range starting at/after EOF did not give 416"
    if req.headers.get("accept-ranges") != "bytes":
        return "accept-ranges header missing"
    cl = req.headers.get("content-length")
    cr = req.headers.get("content-range")
    if symbolic:
        if not isinstance(cl, tuple) or cl[0] != "content-length":
            return "harness: content-length recorder"
        cl = cl[1]
        if cr is not None:
            if not isinstance(cr, tuple) or cr[0] != "content-range" or len(cr[1]) != 3:
                return "harness: content-range recorder"
            cr = tuple(cr[1])
    if head:
        if result != b"" or fd.filenode.reads:
            return "HEAD must not read or return a body"
    else:
        if len(fd.filenode.reads) != 1 or fd.filenode.reads[0][0] is not req:
            return "GET must read exactly once into the request"
    if exp[0] in ("full", "full-or-416"):
        if req.code is not None or cr is not None:
            return "ignored/absent range header must give a plain 200 without Content-Range"
        if (cl != F) if symbolic else (cl != b"%d" % F):
            return "Content-Length of a full response is not the file size"
        if not head and fd.filenode.reads[0][1:] != (0, None):
            return "full response does not read the whole file"
        return True
    (_, lo, hi) = exp
    if req.code != http.PARTIAL_CONTENT:
        return "satisfiable range did not give 206"
    want_cr = (lo, hi, F) if symbolic else "bytes %d-%d/%d" % (lo, hi, F)
    if cr != want_cr:
        return "Content-Range is not 'bytes lo-hi/filesize' for the clipped range"
    if (cl != hi - lo + 1) if symbolic else (cl != b"%d" % (hi - lo + 1)):
        return "Content-Length does not match the Content-Range"
    if not (0 <= lo and lo <= hi and hi < F):
        return "harness: model produced an invalid range"
    if not head and fd.filenode.reads[0][1:] != (lo, hi - lo + 1):
        return "body is not exactly the bytes lo..hi"
    return True


def h_range_symbolic(F: int, form: int, a: int, b: int, head: bool, second: int, a2: int, b2: int) -> bool:
    """
    pre: F >= 0 and 0 <= form <= 2 and a >= 0 and b >= 0
    pre: 0 <= second <= 2 and a2 >= 0 and b2 >= 0
    post: _ == True
    """
    # header "bytes=<spec>[,<spec2>]": spec is a-b (form 0), a- (form 1) or -a (form 2);
    # second: 0 = no second spec, 1 = a valid second spec a2-b2 (a2<=b2), 2 = an invalid one (b2<a2)
    def spec(form_, x, y):
        if form_ == 0:
            return _Spec(_Num(x), _Num(y))
        if form_ == 1:
            return _Spec(_Num(x), '')
        return _Spec('', _Num(x))
    specs = [spec(form, a, b)]
    if second == 1:
        assume(a2 <= b2)
        specs.append(spec(0, a2, b2))
    elif second == 2:
        assume(b2 < a2)
        specs.append(spec(0, a2, b2))
    fd = _downloader(F)
    req = _Req(_Header(specs), method=b"HEAD" if head else b"GET")
    fd.parse_range_header = lambda h: _parse_sym(fd, h)
    raised = None
    result = None
    _shadow()
    try:
        try:
            result = _render_sym(fd, req)
        except WebError as e:
            raised = e
    finally:
        _unshadow()
    exp = _expect(F, form, a, b)
    if second == 2 or (form == 0 and b < a):
        exp = ("full",)          # one syntactically invalid spec makes the whole header unparsable => ignored
    return _check_response(exp, F, req, fd, result, raised, head, True)


def h_range_unparsable(F: int, kind: int, head: bool) -> bool:
    """
    pre: F >= 0 and 0 <= kind <= 8
    post: _ == True
    """
    # headers that cannot be parsed (or no header at all) are ignored: plain 200 with the whole file (real strings)
    hdr = [None, "", "bytes", "lines=0-5", "bytes=a-b", "bytes=5", "bytes=-", "bytes=1-2-3", "octets=0-0"][kind]
    fd = _downloader(F)
    req = _Req(hdr, method=b"HEAD" if head else b"GET")
    raised = None
    result = None
    fd.parse_range_header = lambda h: _parse_sym(fd, h)
    _shadow()
    try:
        try:
            result = _render_sym(fd, req)
        except WebError as e:
            raised = e
    finally:
        _unshadow()
    return _check_response(("full",), F, req, fd, result, raised, head, True)


def _pin(x, lo, hi):
    for v in range(lo, hi + 1):
        if x == v:
            return v
    raise hlib.HarnessError("value outside its declared range")


def h_range_strings(F: int, form: int, a: int, b: int, head: bool, spaces: bool) -> bool:
    """
    pre: 0 <= F <= B.get("f_max", 5) and 0 <= form <= 2 and 0 <= a <= B.get("n_max", 6) and 0 <= b <= B.get("n_max", 6)
    pre: (B.get("form") is None or form == B["form"]) and (B.get("spaces") is None or spaces == (B["spaces"] == 1))
    pre: form == 0 or b == 0
    post: _ == True
    """
    # the untouched parse_range_header + render (no shadowing, real header text), small pinned integers
    F, form = _pin(F, 0, B.get("f_max", 5)), _pin(form, 0, 2)
    a, b = _pin(a, 0, B.get("n_max", 6)), _pin(b, 0, B.get("n_max", 6))
    if form == 0:
        text = "%d-%d" % (a, b)
    elif form == 1:
        text = "%d-" % a
    else:
        text = "-%d" % a
    hdr = ("bytes= %s , 0-0" if spaces else "bytes=%s") % text
    fd = _downloader(F)
    req = _Req(hdr, method=b"HEAD" if head else b"GET")
    raised = None
    result = None
    try:
        result = _render_raw(fd, req)
    except WebError as e:
        raised = e
    exp = _expect(F, form, a, b)
    return _check_response(exp, F, req, fd, result, raised, head, False)


def h_save_and_type(save: int, F: int) -> bool:
    """
    pre: 0 <= save <= 2 and F >= 0
    post: _ == True
    """
    # headers that do not depend on the range: content-type from the file name, content-disposition only with save=true
    fd = _downloader(F)
    req = _Req(None, save=[None, b"true", b"false"][save])
    fd.parse_range_header = lambda h: _parse_sym(fd, h)
    _shadow()
    try:
        _render_sym(fd, req)
    finally:
        _unshadow()
    if req.headers.get("content-type") != "text/plain":
        return "content-type"
    cd = req.headers.get("content-disposition")
    if save == 1:
        if cd != b'attachment; filename="file.txt"':
            return "content-disposition for save=true"
    elif cd is not None:
        return "content-disposition without save=true"
    return True
