"""
C40 — web API byte-range downloads (web/filenode.py FileDownloader.parse_range_header + render).

Two kinds of obligations:
 * symbolic: the range arithmetic of parse_range_header/render on UNBOUNDED symbolic integers.  The Range header is
   a carrier object with the split/strip/partition interface whose numbers are symbolic ints; every formatting site in
   FileDownloader (any method, %, f-string, str.format, str()) keeps integers as integers (see NOTES).
 * strings: the untouched functions on real header strings / real response header text with small pinned integers
   (path-per-input), which ties the carrier and the recorders to the real text.
Oracle (independent statement, RFC 7233 single range): the satisfiable part of the request is S = requested ∩ [0, F):
   206 + Content-Range "bytes a-b/F" + Content-Length b-a+1 + body read(a, b-a+1) with [a,b] = S when S is non-empty;
   416 when a first-byte-pos >= F; header ignored (200, whole file) when it cannot be parsed or last < first;
   a suffix range that selects nothing (suffix 0, or empty file) must not produce a 206.
"""
from vlib import hlib
from vlib.hlib import NS, assume
hlib.ensure_shims()
import builtins
from twisted.internet import defer
from twisted.web import http
from allmydata.web import filenode as wf
from allmydata.web.common import WebError

B = hlib.bounds()

# twisted.web.http is wrapped in a deprecation proxy (_ModuleProxy) whose attribute access breaks under CrossHair's
# tracing: give web.filenode a plain namespace with the same status-code constants (read here, outside tracing)
_http_consts = NS(**{k: getattr(http, k) for k in dir(http) if k.isupper() and isinstance(getattr(http, k), int)})
wf.http = _http_consts
http = _http_consts
NOTES = [
    "web.filenode.http (twisted's deprecation proxy module) replaced by a plain namespace holding the same integer status constants",
    "FileDownloader.render executed without its @render_exception decorator (eliot action / error-page rendering are outside); WebError is observed directly",
    "symbolic obligations: the names `int` and `str` are shadowed at module level in web.filenode (int(<carrier number>) is its symbolic value; str(<int>) keeps the "
    "integer) and EVERY method of FileDownloader is recompiled with %-formatting / f-strings / str.format routed through integer-preserving stand-ins, so header text "
    "reaches the fake request as literal pieces + (symbolic) integers whichever function builds it; the *_strings obligations run the untouched code on real text and the "
    "same comparison parses the real header text back into pieces + integers",
    "request and filenode are fakes: getHeader/setHeader/setResponseCode/method/args recorded; filenode.get_size() returns the symbolic size, read() records (first, size)",
]


class _Num(object):
    """a decimal number inside the Range header whose value is a symbolic int"""

    def __init__(self, v):
        self.v = v

    def __eq__(self, other):
        return False if isinstance(other, str) else NotImplemented

    def __ne__(self, other):
        return True if isinstance(other, str) else NotImplemented

    __hash__ = None


class _Spec(object):
    """one byte-range-spec: first '-' last, either part possibly empty"""

    def __init__(self, first, last):
        self.parts = (first, last)

    def strip(self):
        return self

    def split(self, sep, maxsplit=-1):
        if sep != '-' or maxsplit != 1:
            raise hlib.HarnessError("unexpected split on a range spec")
        return list(self.parts)

    def partition(self, sep):
        if sep != '-':
            raise hlib.HarnessError("unexpected partition on a range spec")
        return (self.parts[0], '-', self.parts[1])


class _RangeSet(object):
    def __init__(self, specs):
        self.specs = specs

    def split(self, sep):
        if sep != ',':
            raise hlib.HarnessError("unexpected split on a range set")
        return list(self.specs)


class _Header(object):
    def __init__(self, specs, units='bytes'):
        self.units = units
        self.rs = _RangeSet(specs)

    def split(self, sep, maxsplit=-1):
        if sep != '=' or maxsplit != 1:
            raise hlib.HarnessError("unexpected split on the header")
        return [self.units, self.rs]

    def partition(self, sep):
        if sep != '=':
            raise hlib.HarnessError("unexpected partition on the header")
        return (self.units, '=', self.rs)

    def __bool__(self):
        return True


class _IntMeta(type):
    def __instancecheck__(cls, obj):
        return isinstance(obj, builtins.int)

    def __subclasscheck__(cls, sub):
        return issubclass(sub, builtins.int)


class _int(builtins.int, metaclass=_IntMeta):
    """shadow of the name `int` inside web.filenode: int(<carrier number>) is its symbolic value; everything else as usual"""

    def __new__(cls, x=0, *a):
        if isinstance(x, _Num):
            return x.v
        return builtins.int(x, *a)


def _intlike(x):
    return isinstance(x, builtins.int) and not isinstance(x, bool)


class _Text(object):
    """header text whose numbers are kept as (symbolic) integers: a list of literal pieces and int values.
    Produced instead of real text wherever web.filenode formats an integer (%-formatting, f-strings, str.format, str(),
    concatenation), whatever function does it."""

    def __init__(self, parts):
        self.parts = list(parts)

    def __add__(self, other):
        if isinstance(other, _Text):
            return _Text(self.parts + other.parts)
        if isinstance(other, (builtins.str, bytes)):
            return _Text(self.parts + [other])
        return NotImplemented

    def __radd__(self, other):
        if isinstance(other, (builtins.str, bytes)):
            return _Text([other] + self.parts)
        return NotImplemented

    def encode(self, *a):
        return self

    def decode(self, *a):
        return self


_DIRECTIVE = __import__("re").compile(r"%[sdri]")


def _verif_fmt(template, args):
    """stand-in for `template % args`"""
    tup = args if isinstance(args, tuple) else (args,)
    if not any(_intlike(a) or isinstance(a, _Text) for a in tup):
        return template % args
    text = template.decode("latin-1") if isinstance(template, bytes) else template
    pieces = _DIRECTIVE.split(text)
    if len(pieces) != len(tup) + 1 or "%" in "".join(pieces):
        raise hlib.HarnessError("unsupported format template %r" % (template,))
    out = [pieces[0]]
    for a, lit in zip(tup, pieces[1:]):
        out.append(a)
        out.append(lit)
    return _flatten(out)


def _verif_fstr(parts):
    """stand-in for an f-string: parts are literal strings and raw values"""
    if not any(_intlike(a) or isinstance(a, _Text) for a in parts):
        return "".join(builtins.str(a) for a in parts)
    return _flatten(parts)


def _verif_format(template, *args):
    """stand-in for `template.format(*args)` with plain {} fields"""
    if not any(_intlike(a) or isinstance(a, _Text) for a in args):
        return template.format(*args)
    pieces = template.split("{}")
    if len(pieces) != len(args) + 1 or "{" in "".join(pieces):
        raise hlib.HarnessError("unsupported format template %r" % (template,))
    out = [pieces[0]]
    for a, lit in zip(args, pieces[1:]):
        out.append(a)
        out.append(lit)
    return _flatten(out)


def _flatten(parts):
    out = []
    for a in parts:
        if isinstance(a, _Text):
            out.extend(a.parts)
        else:
            out.append(a)
    return _Text(out)


class _StrMeta(type):
    def __instancecheck__(cls, obj):
        return isinstance(obj, builtins.str)

    def __subclasscheck__(cls, sub):
        return issubclass(sub, builtins.str)


class _str(builtins.str, metaclass=_StrMeta):
    """shadow of the name `str` inside web.filenode: str(<int>) keeps the integer (as a _Text piece)"""

    def __new__(cls, x="", *a):
        if _intlike(x) and not a:
            return _Text([x])
        if isinstance(x, _Text):
            return x
        return builtins.str(x, *a)


def _tokens(v):
    """normal form of a header value: list of literal strings and integers (adjacent literals merged, empty ones dropped).
    Real text is parsed back: every maximal run of digits is an integer."""
    if isinstance(v, _Text):
        raw = v.parts
    elif isinstance(v, (builtins.str, bytes)):
        text = v.decode("latin-1") if isinstance(v, bytes) else v
        raw = []
        for piece in __import__("re").split(r"(\d+)", text):
            raw.append(builtins.int(piece) if piece.isdigit() else piece)
    else:
        raise hlib.HarnessError("header value of unexpected type %r" % (type(v),))
    out = []
    for a in raw:
        if isinstance(a, bytes):
            a = a.decode("latin-1")
        if isinstance(a, builtins.str):
            if a == "":
                continue
            if out and isinstance(out[-1], builtins.str):
                out[-1] = out[-1] + a
                continue
        out.append(a)
    return out


def _same_tokens(got, want):
    if len(got) != len(want):
        return False
    for g, w in zip(got, want):
        if isinstance(g, builtins.str) != isinstance(w, builtins.str):
            return False
        if g != w:
            return False
    return True


import ast as _ast
import inspect as _inspect
import textwrap as _textwrap
import types as _types


class _FormatCut(_ast.NodeTransformer):
    """every place that turns values into text is routed through the stand-ins above (shape-generic: it does not matter
    which function formats, or whether it uses %, an f-string or str.format)"""

    def visit_BinOp(self, node):
        self.generic_visit(node)
        if isinstance(node.op, _ast.Mod) and isinstance(node.left, _ast.Constant) and isinstance(node.left.value, (builtins.str, bytes)):
            return _ast.copy_location(_ast.Call(_ast.Name("__verif_fmt", _ast.Load()), [node.left, node.right], []), node)
        return node

    def visit_JoinedStr(self, node):
        parts = []
        for v in node.values:
            if isinstance(v, _ast.Constant):
                parts.append(v)
            elif isinstance(v, _ast.FormattedValue) and v.format_spec is None and v.conversion == -1:
                parts.append(self.visit(v.value))
            else:
                parts.append(_ast.JoinedStr([v]))
        return _ast.copy_location(_ast.Call(_ast.Name("__verif_fstr", _ast.Load()), [_ast.List(parts, _ast.Load())], []), node)

    def visit_Call(self, node):
        self.generic_visit(node)
        f = node.func
        if (isinstance(f, _ast.Attribute) and f.attr == "format" and isinstance(f.value, _ast.Constant)
                and isinstance(f.value.value, builtins.str) and not node.keywords):
            return _ast.copy_location(_ast.Call(_ast.Name("__verif_format", _ast.Load()), [f.value] + node.args, []), node)
        return node


def _recompile_class(cls):
    """{name: attribute} with every plain/static/class method of cls recompiled from its current source through
    _FormatCut (decorators that only wrap rendering, i.e. render_exception, dropped)."""
    out = {}
    for name, attr in list(vars(cls).items()):
        if not isinstance(attr, (_types.FunctionType, staticmethod, classmethod)):
            continue
        fn = attr.__func__ if isinstance(attr, (staticmethod, classmethod)) else attr
        while hasattr(fn, "__wrapped__"):
            fn = fn.__wrapped__
        if fn.__code__.co_freevars:
            continue        # uses super() or a closure: left as it is (e.g. __init__)
        try:
            src = _textwrap.dedent(_inspect.getsource(fn))
        except (OSError, TypeError):
            continue
        tree = _ast.parse(src)
        fdef = tree.body[0]
        kept = []
        for d in fdef.decorator_list:
            nm = d.id if isinstance(d, _ast.Name) else getattr(d, "attr", None)
            if nm in ("render_exception", "staticmethod", "classmethod"):
                continue
            kept.append(d)
        fdef.decorator_list = kept
        tree = _FormatCut().visit(tree)
        _ast.fix_missing_locations(tree)
        ns = {}
        exec(compile(tree, _inspect.getsourcefile(fn) or "?", "exec"), fn.__globals__, ns)
        new = ns[fdef.name]
        new.__qualname__ = fn.__qualname__
        hlib.encoded(fn)
        if isinstance(attr, staticmethod):
            new = staticmethod(new)
        elif isinstance(attr, classmethod):
            new = classmethod(new)
        out[name] = new
    hlib.CUTS.append({"file": _inspect.getsourcefile(cls) or "?", "line": 0,
                      "src": "every method of %s: %%-formatting / f-strings / str.format routed through integer-preserving stand-ins; "
                             "@render_exception dropped" % cls.__name__})
    return out


_ORIG = dict((k, v) for (k, v) in vars(wf.FileDownloader).items()
             if isinstance(v, (_types.FunctionType, staticmethod, classmethod)))
_SYM = _recompile_class(wf.FileDownloader)
_SHADOWS = {"int": _int, "str": _str, "__verif_fmt": _verif_fmt, "__verif_fstr": _verif_fstr, "__verif_format": _verif_format}


class _Symbolic(object):
    """inside this context web.filenode runs with the integer-preserving stand-ins: shadows of int/str at module level (so
    they apply to every function and helper of the module) and the recompiled FileDownloader methods"""

    def __enter__(self):
        for k, v in _SHADOWS.items():
            wf.__dict__[k] = v
        for k, v in _SYM.items():
            setattr(wf.FileDownloader, k, v)
        return self

    def __exit__(self, *a):
        for k in _SHADOWS:
            wf.__dict__.pop(k, None)
        for k, v in _ORIG.items():
            setattr(wf.FileDownloader, k, v)
        return False


_render_raw = wf.FileDownloader.render
while hasattr(_render_raw, "__wrapped__"):
    _render_raw = _render_raw.__wrapped__
hlib.encoded(_render_raw)


class _Req(object):
    def __init__(self, rng, method=b"GET", save=None):
        self.rng = rng
        self.method = method
        self.args = {} if save is None else {b"save": [save]}
        self.fields = None
        self.headers = {}
        self.code = None
        self.startedWriting = False
        self.uri = b"/uri/x"

    def getHeader(self, name):
        if name.lower() == 'range':
            return self.rng
        return None

    def setHeader(self, k, v):
        self.headers[k] = v

    def setResponseCode(self, code):
        self.code = code


class _FN(object):
    def __init__(self, size):
        self.size = size
        self.reads = []

    def get_size(self):
        return self.size

    def read(self, consumer, offset=0, size=None):
        self.reads.append((consumer, offset, size))
        return defer.succeed(consumer)


def _downloader(F):
    fd = wf.FileDownloader.__new__(wf.FileDownloader)
    fd.filenode = _FN(F)
    fd.filename = b"file.txt"
    return fd


def _expect(F, form, a, b):
    """independent model: ('full',) | ('416',) | ('206', lo, hi) | ('full-or-416',)"""
    if form == 0:                # first-last
        if b < a:
            return ("full",)
        if a >= F:
            return ("416",)
        return ("206", a, b if b < F - 1 else F - 1)
    if form == 1:                # first-
        if a >= F:
            return ("416",)
        return ("206", a, F - 1)
    # -suffix
    if a == 0 or F == 0:
        return ("full-or-416",)
    return ("206", F - a if F - a > 0 else 0, F - 1)


def _check_response(exp, F, req, fd, result, raised, head):
    if raised is not None:
        if raised.code != http.REQUESTED_RANGE_NOT_SATISFIABLE:
            return "unexpected web error %r" % (raised.code,)
        if exp[0] not in ("416", "full-or-416"):
            return "416 although the range is satisfiable or should be ignored"
        if fd.filenode.reads:
            return "416 but data was read"
        return True
    if exp[0] == "416":
        return "range starting at/after EOF did not give 416"
    if req.headers.get("accept-ranges") != "bytes":
        return "accept-ranges header missing"
    cl = _tokens(req.headers.get("content-length")) if req.headers.get("content-length") is not None else None
    cr = _tokens(req.headers.get("content-range")) if req.headers.get("content-range") is not None else None
    if cl is None:
        return "no Content-Length header"
    if head:
        if result != b"" or fd.filenode.reads:
            return "HEAD must not read or return a body"
    else:
        if len(fd.filenode.reads) != 1 or fd.filenode.reads[0][0] is not req:
            return "GET must read exactly once into the request"
    if exp[0] in ("full", "full-or-416"):
        if req.code is not None or cr is not None:
            return "ignored/absent range header must give a plain 200 without Content-Range"
        if not _same_tokens(cl, [F]):
            return "Content-Length of a full response is not the file size"
        if not head and fd.filenode.reads[0][1:] != (0, None):
            return "full response does not read the whole file"
        return True
    (_, lo, hi) = exp
    if not (0 <= lo and lo <= hi and hi < F):
        raise hlib.HarnessError("model produced an invalid range")
    if req.code != http.PARTIAL_CONTENT:
        return "satisfiable range did not give 206"
    if cr is None or not _same_tokens(cr, ["bytes ", lo, "-", hi, "/", F]):
        return "Content-Range is not 'bytes lo-hi/filesize' for the clipped range"
    if not _same_tokens(cl, [hi - lo + 1]):
        return "Content-Length does not match the Content-Range"
    if not head and fd.filenode.reads[0][1:] != (lo, hi - lo + 1):
        return "body is not exactly the bytes lo..hi"
    return True


def h_range_symbolic(F: int, form: int, a: int, b: int, head: bool, second: int, a2: int, b2: int) -> bool:
    """
    pre: F >= 0 and 0 <= form <= 2 and a >= 0 and b >= 0
    pre: 0 <= second <= 2 and a2 >= 0 and b2 >= 0
    post: _ == True
    """
    # header "bytes=<spec>[,<spec2>]": spec is a-b (form 0), a- (form 1) or -a (form 2);
    # second: 0 = no second spec, 1 = a valid second spec a2-b2 (a2<=b2), 2 = an invalid one (b2<a2)
    def spec(form_, x, y):
        if form_ == 0:
            return _Spec(_Num(x), _Num(y))
        if form_ == 1:
            return _Spec(_Num(x), '')
        return _Spec('', _Num(x))
    specs = [spec(form, a, b)]
    if second == 1:
        assume(a2 <= b2)
        specs.append(spec(0, a2, b2))
    elif second == 2:
        assume(b2 < a2)
        specs.append(spec(0, a2, b2))
    fd = _downloader(F)
    req = _Req(_Header(specs), method=b"HEAD" if head else b"GET")
    raised = None
    result = None
    with _Symbolic():
        try:
            result = fd.render(req)
        except WebError as e:
            raised = e
    exp = _expect(F, form, a, b)
    if second == 2 or (form == 0 and b < a):
        exp = ("full",)          # one syntactically invalid spec makes the whole header unparsable => ignored
    return _check_response(exp, F, req, fd, result, raised, head)


def h_range_unparsable(F: int, kind: int, head: bool) -> bool:
    """
    pre: F >= 0 and 0 <= kind <= 8
    post: _ == True
    """
    # headers that cannot be parsed (or no header at all) are ignored: plain 200 with the whole file (real strings)
    hdr = [None, "", "bytes", "lines=0-5", "bytes=a-b", "bytes=5", "bytes=-", "bytes=1-2-3", "octets=0-0"][kind]
    fd = _downloader(F)
    req = _Req(hdr, method=b"HEAD" if head else b"GET")
    raised = None
    result = None
    with _Symbolic():
        try:
            result = fd.render(req)
        except WebError as e:
            raised = e
    return _check_response(("full",), F, req, fd, result, raised, head)


def _pin(x, lo, hi):
    for v in range(lo, hi + 1):
        if x == v:
            return v
    raise hlib.HarnessError("value outside its declared range")


def h_range_strings(F: int, form: int, a: int, b: int, head: bool, spaces: bool) -> bool:
    """
    pre: 0 <= F <= B.get("f_max", 5) and 0 <= form <= 2 and 0 <= a <= B.get("n_max", 6) and 0 <= b <= B.get("n_max", 6)
    pre: (B.get("form") is None or form == B["form"]) and (B.get("spaces") is None or spaces == (B["spaces"] == 1))
    pre: form == 0 or b == 0
    post: _ == True
    """
    # the untouched parse_range_header + render (no shadowing, real header text), small pinned integers
    F, form = _pin(F, 0, B.get("f_max", 5)), _pin(form, 0, 2)
    a, b = _pin(a, 0, B.get("n_max", 6)), _pin(b, 0, B.get("n_max", 6))
    if form == 0:
        text = "%d-%d" % (a, b)
    elif form == 1:
        text = "%d-" % a
    else:
        text = "-%d" % a
    hdr = ("bytes= %s , 0-0" if spaces else "bytes=%s") % text
    fd = _downloader(F)
    req = _Req(hdr, method=b"HEAD" if head else b"GET")
    raised = None
    result = None
    try:
        result = _render_raw(fd, req)
    except WebError as e:
        raised = e
    exp = _expect(F, form, a, b)
    return _check_response(exp, F, req, fd, result, raised, head)


def h_save_and_type(save: int, F: int) -> bool:
    """
    pre: 0 <= save <= 2 and F >= 0
    post: _ == True
    """
    # headers that do not depend on the range: content-type from the file name, content-disposition only with save=true
    fd = _downloader(F)
    req = _Req(None, save=[None, b"true", b"false"][save])
    with _Symbolic():
        fd.render(req)
    if req.headers.get("content-type") != "text/plain":
        return "content-type"
    cd = req.headers.get("content-disposition")
    if save == 1:
        if cd != b'attachment; filename="file.txt"':
            return "content-disposition for save=true"
    elif cd is not None:
        return "content-disposition without save=true"
    return True
