"""
C39 — SFTP OverwriteableFileConsumer: client writes are never lost to the background download.

One operation of the REAL consumer (write / overwrite / set_current_size / read / _update_downloaded)
from an ARBITRARY consistent state, with a universally quantified probe position p.

State model (the abstraction relation that every step must preserve; see ASSUMPTIONS in props/C39.py):
  the temporary file holds the right byte at position p ("p is settled") iff
        p < downloaded   or   p >= download_size   or   p lies in some pending-overwrite span (s, e);
  every other position p (d <= p < download_size, in no span) still has to receive download byte p.
The download stream is sequential: the chunk handed to write() when `downloaded == d` carries download bytes
[d, d+n).  So one step `write(chunk)` is right iff
  * position p receives download byte p  iff  d <= p < min(d+n, download_size) and p is in no pending span,
    and no other position is written at all (client data is never clobbered),
  * afterwards downloaded == d+n (the stream position) and "settled" after  ==  "settled" before  or  written now,
    i.e. nothing is declared settled that is not, nothing settled is forgotten; the span invariant holds again,
  * a milestone m fires only when every position < min(m, download_size) is settled at that moment, and no
    milestone <= downloaded is left waiting.
"""
import heapq
from vlib import hlib
from vlib.hlib import ProvBuf, NS, assume
hlib.ensure_shims()
from twisted.internet import defer
from twisted.python.failure import Failure
from allmydata.frontends import sftpd

B = hlib.bounds()
NOTES = [
    "sftpd.noisy set to False and PrefixingLogMixin logging removed (log statements stripped from the methods under test)",
    "sftpd.eventually_callback replaced by a recorder (the callback is recorded together with the length of the temp-file write log at that moment)",
    "temporary file replaced by a recording fake (seek/write/truncate/read/close) holding provenance buffers",
    "consumer object built with __new__ and its attributes set directly (PrefixingLogMixin.__init__ not run)",
]

OFC = sftpd.OverwriteableFileConsumer
sftpd.noisy = False
from _stripall import strip_all
# every method of the consumer (so a helper extracted by a refactor is treated the same): log statements removed,
# b"\x00" * n / b"".join stand-ins for provenance buffers
strip_all(OFC, consts=hlib.PROV_CONSTS)

FIRED = []   # (deferred-token, value, number of temp-file writes done so far)
_THE_FILE = [None]


def _eventually_callback(d):
    def _cb(res):
        f = _THE_FILE[0]
        FIRED.append((d, res, len(f.log) if f is not None else 0))
    return _cb


sftpd.eventually_callback = _eventually_callback


class FakeFile(object):
    """Records every write as (position, data); `base` is the content model before the step (a callable p -> provenance)."""

    def __init__(self):
        self.pos = 0
        self.log = []        # events in order: (pos, data) for a write, (None, size) for truncate(size)
        self.truncs = []
        self.reads = []
        self.closed = False

    def seek(self, pos):
        self.pos = pos

    def tell(self):
        return self.pos

    def write(self, data):
        self.log.append((self.pos, data))
        self.pos = self.pos + len(data)

    def truncate(self, size):
        self.truncs.append(size)
        self.log.append((None, size))

    def read(self, n):
        # the result stands for "the n bytes at [pos, pos+n) of the file as of now"
        r = ("FILE-SLICE", self.pos, n, len(self.log))
        self.reads.append(r)
        return r

    def close(self):
        self.closed = True


GONE = ("\0truncated", 0)


def _written(log, p, upto=None):
    """what the first `upto` file events did to position p: provenance of the LAST write covering p,
    GONE if a later truncate(size <= p) cut it off, None if untouched."""
    res = None
    i = 0
    for (pos, data) in log:
        if upto is not None and i >= upto:
            break
        i += 1
        if pos is None:
            if data <= p:
                res = GONE
        elif pos <= p and p < pos + len(data):
            res = data.at(p - pos)
    return res


def _mk(download_size, current_size, downloaded, spans, milestones=()):
    c = OFC.__new__(OFC)
    c.download_size = download_size
    c.current_size = current_size
    c.f = FakeFile()
    c.downloaded = downloaded
    c.milestones = list(milestones)      # heap of (index, sequence number, waiting reader)
    c.milestone_count = len(c.milestones)
    c.overwrites = list(spans)
    c.is_closed = False
    c.done = "DONE-DEFERRED"
    c.done_status = None
    c.producer = None
    c._prefix = "ofc: "
    del FIRED[:]
    _THE_FILE[0] = c.f
    return c


def _in_spans(spans, p):
    for (s, e) in spans:
        if s <= p and p < e:
            return True
    return False


def _spans_ok(spans, d):
    """representation invariant of the pending-overwrite heap (see props ASSUMPTIONS)."""
    for (s, e) in spans:
        if not (0 <= s and s <= e and e >= d):
            return False
    n = len(spans)
    for i in range(1, n):
        if spans[(i - 1) // 2] > spans[i]:
            return False
    return True


def _rel(a, b, code):
    """code 0: a < b, 1: a == b, 2: a > b, 3: a <= b, 4: a >= b"""
    if code == 0:
        return a < b
    if code == 1:
        return a == b
    if code == 2:
        return a > b
    if code == 3:
        return a <= b
    return a >= b


def _case_ok(vals):
    """B['rel'] = list of [i, j, code] over the tuple `vals`; B['int_max'] bounds every value."""
    for (i, j, code) in B.get("rel", []):
        if not _rel(vals[i], vals[j], code):
            return False
    m = B.get("int_max")
    if m is not None:
        for v in vals:
            if v > m:
                return False
    return True


def _check_after_write(c, pre_spans, D, d, n, p, ms_pre):
    f = c.f
    nd = d + n
    lim = nd if nd < D else D
    got = _written(f.log, p)
    if f.truncs:
        return "download write truncated the file"
    expect_dl = (d <= p and p < lim and not _in_spans(pre_spans, p))
    if expect_dl:
        if got != ("dl", p):
            return "position p should have received download byte p"
    else:
        if got is not None:
            return "a position that must stay untouched was written (client data or settled data clobbered)"
    # every write of this step must carry stream bytes to their own positions (also positions other than p)
    if c.downloaded != nd:
        return "downloaded is not the stream position d+n"
    post_spans = list(c.overwrites)
    if not _spans_ok(post_spans, c.downloaded):
        return "pending-overwrite invariant broken after write"
    if p >= 0 and p < D:
        settled_before = (p < d) or _in_spans(pre_spans, p)
        settled_after = (p < c.downloaded) or _in_spans(post_spans, p)
        truly = settled_before or expect_dl
        if settled_after != truly:
            return "settled-set after the step is not settled-before plus the bytes written now"
    # milestones
    fired_ids = []
    for (tok, res, nw) in FIRED:
        if tok == "DONE-DEFERRED":
            continue
        fired_ids.append(tok)
        m = None
        for (mi, _sq, mt) in ms_pre:
            if mt == tok:
                m = mi
        if m is None:
            return "unknown deferred fired"
        if p >= 0 and p < m and p < D:
            ok = (p < d) or _in_spans(pre_spans, p) or (_written(f.log, p, nw) == ("dl", p))
            if not ok:
                return "milestone fired before every byte below it was settled"
    for (mi, _sq, mt) in ms_pre:
        if mi <= c.downloaded or c.downloaded >= D:
            if mt not in fired_ids:
                return "a reached milestone was left waiting"
        in_heap = False
        for item in c.milestones:
            if item[-1] is mt:
                in_heap = True
        if in_heap == (mt in fired_ids):
            return "milestone neither waiting nor fired exactly once"
    if (c.done_status is not None) != (len([1 for x in FIRED if x[0] == "DONE-DEFERRED"]) == 1):
        return "done deferred / done_status disagree"
    if c.downloaded >= D and c.done_status is None:
        return "download complete but not marked done"
    if c.done_status is not None:
        # done => everything below download_size is settled
        if p >= 0 and p < D and not ((p < d) or _in_spans(pre_spans, p) or got == ("dl", p)):
            return "download marked done while position p is not settled"
    return True


def h_write0(D: int, d: int, n: int, p: int) -> bool:
    """
    pre: 0 <= d < D and n >= 0
    post: _ == True
    """
    c = _mk(D, D, d, [])
    c.write(ProvBuf.src("dl", n, d))
    return _check_after_write(c, [], D, d, n, p, [])


def h_write1(D: int, d: int, n: int, s0: int, e0: int, p: int) -> bool:
    """
    pre: 0 <= d < D and n >= 0
    pre: 0 <= s0 <= e0 and e0 >= d
    pre: _case_ok((d, d + n, D, s0, e0))
    post: _ == True
    """
    pre = [(s0, e0)]
    c = _mk(D, D if D > e0 else e0, d, pre)
    c.write(ProvBuf.src("dl", n, d))
    return _check_after_write(c, pre, D, d, n, p, [])


def h_write2(D: int, d: int, n: int, s0: int, e0: int, s1: int, e1: int, p: int) -> bool:
    """
    pre: 0 <= d < D and n >= 0
    pre: 0 <= s0 <= e0 and e0 >= d and 0 <= s1 <= e1 and e1 >= d
    pre: (s0 < s1) or (s0 == s1 and e0 <= e1)
    pre: _case_ok((d, d + n, D, s0, e0, s1, e1))
    post: _ == True
    """
    pre = [(s0, e0), (s1, e1)]
    c = _mk(D, D, d, pre)
    c.write(ProvBuf.src("dl", n, d))
    return _check_after_write(c, pre, D, d, n, p, [])


def h_write3(D: int, d: int, n: int, s0: int, e0: int, s1: int, e1: int, s2: int, e2: int, p: int) -> bool:
    """
    pre: 0 <= d < D and n >= 0
    pre: 0 <= s0 <= e0 and e0 >= d and 0 <= s1 <= e1 and e1 >= d and 0 <= s2 <= e2 and e2 >= d
    pre: ((s0 < s1) or (s0 == s1 and e0 <= e1)) and ((s0 < s2) or (s0 == s2 and e0 <= e2))
    pre: _case_ok((d, d + n, D, s0, e0, s1, e1, s2, e2))
    post: _ == True
    """
    pre = [(s0, e0), (s1, e1), (s2, e2)]
    c = _mk(D, D, d, pre)
    c.write(ProvBuf.src("dl", n, d))
    return _check_after_write(c, pre, D, d, n, p, [])


class _Tok(object):
    """stands for a waiting reader's Deferred (like a Deferred it has no ordering)."""

    def __init__(self, name):
        self.name = name

    def __repr__(self):
        return "<%s>" % (self.name,)


def h_write_milestones(D: int, d: int, n: int, nsp: int, s0: int, e0: int, nms: int, m0: int, m1: int, swapseq: bool, p: int) -> bool:
    """
    pre: 0 <= d < D and n >= 0
    pre: 0 <= nsp <= 1 and 0 <= s0 <= e0 and e0 >= d
    pre: 1 <= nms <= 2 and d < m0 <= D and (nms == 1 or m0 <= m1 <= D)
    pre: (not swapseq) or (nms == 2 and m0 < m1)
    pre: (B.get("nsp") is None or nsp == B["nsp"]) and (B.get("nms") is None or nms == B["nms"])
    pre: B.get("swap") is None or swapseq == (B["swap"] == 1)
    post: _ == True
    """
    # waiting milestones are > downloaded (they are only queued when index > downloaded, and every
    # _update_downloaded pops all those <= the new position) and <= download_size (read() queues
    # min(offset+length, download_size); the consumer's contract forbids size changes while a read waits);
    # two waiting readers may have the same index; they are ordered by their distinct sequence numbers
    pre = [(s0, e0)] if nsp == 1 else []
    ms = [(m0, 2 if swapseq else 1, _Tok("M0"))]
    if nms == 2:
        ms.append((m1, 1 if swapseq else 2, _Tok("M1")))
    c = _mk(D, D, d, pre, ms)
    c.write(ProvBuf.src("dl", n, d))
    return _check_after_write(c, pre, D, d, n, p, ms)


def h_write_inactive(D: int, d: int, n: int, s0: int, e0: int, closed: bool) -> bool:
    """
    pre: 0 <= d and 0 <= D and n >= 0 and 0 <= s0 <= e0
    pre: closed or d >= D
    post: _ == True
    """
    # after close(), or once the (possibly truncated) download size has been reached, arriving download
    # data must be ignored completely
    pre = [(s0, e0)]
    ms = []
    c = _mk(D, D if D > e0 else e0, d, pre, ms)
    c.is_closed = closed
    c.done_status = b"closed" if closed else b"reached download size"
    c.write(ProvBuf.src("dl", n, d))
    if c.f.log or c.f.pos != 0:
        return "late download data touched the file"
    if c.downloaded != d or c.overwrites != pre or c.download_size != D or FIRED:
        return "late download data changed the state"
    return True


# ---- overwrite (a client write) ------------------------------------------------

def _mk_spans(nsp, s0, e0, s1, e1):
    if nsp == 0:
        return []
    if nsp == 1:
        return [(s0, e0)]
    return [(s0, e0), (s1, e1)]


def h_overwrite(D: int, C: int, d: int, nsp: int, s0: int, e0: int, s1: int, e1: int, offset: int, n: int, p: int) -> bool:
    """
    pre: 0 <= D <= C and 0 <= d and offset >= 0 and n >= 0
    pre: 0 <= nsp <= 2 and (B.get("nsp") is None or nsp == B["nsp"])
    pre: 0 <= s0 <= e0 and e0 >= d and 0 <= s1 <= e1 and e1 >= d
    pre: (s0 < s1) or (s0 == s1 and e0 <= e1)
    post: _ == True
    """
    pre = _mk_spans(nsp, s0, e0, s1, e1)
    c = _mk(D, C, d, pre)
    c.overwrite(offset, ProvBuf.src("w", n, 0))
    end = offset + n
    got = _written(c.f.log, p)
    if offset <= p and p < end:
        want = ("w", p - offset)
    elif C <= p and p < offset:
        want = (ProvBuf.ZERO, 0)       # the gap between the old end of file and the write reads as zeros
    else:
        want = None
    if got != want:
        return "client write: wrong byte at p (data / zero fill of the gap / untouched elsewhere)"
    if c.current_size != (C if C > end else end):
        return "current_size is not max(old size, end of write)"
    if c.downloaded != d or c.download_size != D or FIRED or c.done_status is not None:
        return "client write changed the download state"
    post = list(c.overwrites)
    if not _spans_ok(post, d):
        return "pending-overwrite invariant broken by overwrite"
    # precedence: every position written by the client that the download has yet to pass is protected
    touched = want is not None
    if touched and d <= p and p < D and not _in_spans(post, p):
        return "client-written position not protected against the rest of the download"
    # and nothing else becomes protected
    if _in_spans(post, p) and not (_in_spans(pre, p) or touched):
        return "overwrite protects a position the client did not write"
    if _in_spans(pre, p) and not _in_spans(post, p):
        return "an earlier pending overwrite was forgotten"
    if len(post) > len(pre) + 1:
        return "more than one span added"
    return True


def h_overwrite_closed(D: int, C: int, d: int, offset: int, n: int) -> bool:
    """
    pre: 0 <= D <= C and 0 <= d and offset >= 0 and n >= 0
    post: _ == True
    """
    c = _mk(D, C, d, [])
    c.is_closed = True
    c.log = lambda *a, **kw: None
    try:
        c.overwrite(offset, ProvBuf.src("w", n, 0))
    except sftpd.SFTPError:
        if c.f.log or c.current_size != C or c.overwrites:
            return "rejected write had an effect"
        return True
    return "write to a closed consumer was accepted"


# ---- set_current_size (truncate / extend) --------------------------------------

def h_set_size(D: int, C: int, d: int, nsp: int, s0: int, e0: int, nms: int, m0: int, size: int, p: int) -> bool:
    """
    pre: 0 <= D <= C and 0 <= d and size >= 0
    pre: 0 <= nsp <= 1 and 0 <= s0 <= e0 and e0 >= d
    pre: 0 <= nms <= 1 and m0 > d and d < D
    post: _ == True
    """
    # d < D: the download is still running (done_status None); the finished case is h_set_size_done
    pre = [(s0, e0)] if nsp == 1 else []
    ms = [(m0, 1, _Tok("M0"))] if nms == 1 else []
    c = _mk(D, C, d, pre, ms)
    c.set_current_size(size)
    got = _written(c.f.log, p)
    if p >= size:
        # the temporary file is never longer than the represented file
        if (p < C or got is not None) and got != GONE:
            return "bytes beyond the new size survive in the temporary file"
    elif p >= C:
        if got != (ProvBuf.ZERO, 0):
            return "extension is not zero-filled"
    else:
        if got is not None:
            return "a byte below both sizes was modified"
    if c.current_size != size:
        return "current_size not updated"
    newD = D if D < size else size
    if c.download_size != newD:
        return "download_size is not min(old download_size, new size)"
    if c.downloaded != d:
        return "downloaded changed"
    post = list(c.overwrites)
    if not _spans_ok(post, d):
        return "pending-overwrite invariant broken"
    ext = (C <= p and p < size)
    if _in_spans(pre, p) and not _in_spans(post, p):
        return "pending overwrite forgotten"
    if _in_spans(post, p) and not (_in_spans(pre, p) or ext):
        return "protects a position the client did not write"
    done = d >= newD
    if (c.done_status is not None) != done:
        return "done status wrong after size change"
    fired = [x[0] for x in FIRED]
    if done:
        if fired.count("DONE-DEFERRED") != 1:
            return "done deferred not fired exactly once"
        for (mi, _sq, mt) in ms:
            if fired.count(mt) != 1:
                return "waiting reader not released when the truncated download is complete"
        if c.milestones:
            return "milestones left after done"
    else:
        if fired:
            return "something fired although the download is not complete"
        if c.milestones != ms:
            return "milestones changed"
    return True


# ---- read -----------------------------------------------------------------------

def _fire(dfr, value):
    dfr.callback(value)


def h_read(D: int, C: int, d: int, done: bool, failed: bool, offset: int, length: int) -> bool:
    """
    pre: 0 <= D <= C and 0 <= d and offset >= 0 and length >= 0
    pre: (done and (failed or d >= D)) or ((not done) and (not failed) and d < D)
    post: _ == True
    """
    # done_status is None exactly while downloaded < download_size and the download has not failed
    c = _mk(D, C, d, [])
    if done:
        c.done_status = Failure(RuntimeError("download failed")) if failed else b"reached download size"
    out = []
    r = c.read(offset, length)
    r.addCallbacks(lambda x: out.append(("ok", x)), lambda f: out.append(("err", f)))
    if failed and offset < C:
        if len(out) != 1 or out[0][0] != "err" or not out[0][1].check(RuntimeError):
            return "read after a failed download must fail"
        if c.f.reads:
            return "failed download: file was read"
        return True
    if offset >= C:
        if len(out) != 1 or out[0][0] != "err" or not out[0][1].check(EOFError):
            return "read at/after EOF must fail with EOFError"
        if c.f.reads or c.milestones:
            return "EOF read touched the file"
        return True
    want_len = length if offset + length <= C else C - offset
    needed = offset + want_len if offset + want_len < D else D
    if done or needed <= d:
        if c.milestones:
            return "queued a milestone although the data is there"
    else:
        if out:
            return "read returned before the needed bytes were downloaded"
        if len(c.milestones) != 1 or c.milestones[0][0] != needed:
            return "milestone is not min(offset+length, download_size)"
        if c.f.reads:
            return "file read before the milestone"
        _fire(c.milestones[0][-1], b"reached")
    if len(out) != 1 or out[0][0] != "ok":
        return "read did not deliver"
    if out[0][1] != ("FILE-SLICE", offset, want_len, 0) or len(c.f.reads) != 1:
        return "read did not return exactly [offset, offset+length) clipped to the current size"
    return True


def h_read_two_waiting(D: int, d: int, o1: int, l1: int, o2: int, l2: int) -> bool:
    """
    pre: 0 <= d < D and 0 <= o1 < D and 0 <= o2 < D and l1 >= 1 and l2 >= 1
    pre: o1 + l1 > d and o2 + l2 > d
    post: _ == True
    """
    # two reads outstanding at the same time, both waiting for the download (real Deferreds)
    c = _mk(D, D, d, [])
    out1, out2 = [], []
    c.read(o1, l1).addCallback(out1.append)
    c.read(o2, l2).addCallback(out2.append)
    if out1 or out2:
        return "read returned early"
    if len(c.milestones) != 2:
        return "both readers must be waiting"
    while c.milestones:
        item = heapq.heappop(c.milestones)
        item[-1].callback(b"reached")
    w1 = l1 if o1 + l1 <= D else D - o1
    w2 = l2 if o2 + l2 <= D else D - o2
    if len(out1) != 1 or out1[0][:3] != ("FILE-SLICE", o1, w1):
        return "first read wrong"
    if len(out2) != 1 or out2[0][:3] != ("FILE-SLICE", o2, w2):
        return "second read wrong"
    return True


def h_read_closed(D: int, d: int, offset: int, length: int) -> bool:
    """
    pre: 0 <= D and 0 <= d and offset >= 0 and length >= 0
    post: _ == True
    """
    c = _mk(D, D, d, [])
    c.log = lambda *a, **kw: None
    st = c.close()
    if not c.f.closed or st != b"closed" or c.done_status != b"closed":
        return "close did not close the file / mark done"
    try:
        c.read(offset, length)
    except sftpd.SFTPError:
        return True
    return "read from a closed consumer was accepted"


def h_done_releases(D: int, d: int, m0: int, m1: int) -> bool:
    """
    pre: 0 <= d < D and d < m0 <= m1
    post: _ == True
    """
    ms = [(m0, 1, _Tok("M0")), (m1, 2, _Tok("M1"))]
    c = _mk(D, D, d, [], ms)
    c.download_done(b"closed")
    c.download_done(b"again")
    fired = [x[0] for x in FIRED]
    if c.done_status != b"closed":
        return "only the first download_done counts"
    if fired.count("DONE-DEFERRED") != 1 or fired.count(ms[0][2]) != 1 or fired.count(ms[1][2]) != 1 or len(fired) != 3:
        return "waiting readers released exactly once"
    if c.milestones:
        return "milestones left"
    # a reader arriving afterwards is answered at once
    out = []
    c.when_reached_or_failed(m1).addCallback(out.append)
    if out != [b"closed"]:
        return "late waiter not answered with the final status"
    return True


# ---- bounded histories against a reference model (bug finding; the one-step obligations are the claim) ----

_SCHEDULES = ["WWKK", "WKWK", "WKKW", "KWWK", "KWKW", "KKWW"]


def h_history(D: int, o1: int, l1: int, o2: int, l2: int, c1: int, n2: int, p: int) -> bool:
    """
    pre: 1 <= D and 0 <= o1 and 0 <= l1 and 0 <= o2 and 0 <= l2
    pre: 0 <= c1 <= D and c1 + n2 >= D and n2 >= 0
    pre: _case_ok((D, o1, l1, o2, l2, c1, n2)) and 0 <= p
    pre: (not B.get("exact_tail")) or c1 + n2 == D
    post: _ == True
    """
    sched = _SCHEDULES[B.get("sched", 0)]
    c = _mk(D, D, 0, [])
    sizes = [D]
    wi = 0
    ki = 0
    for op in sched:
        if op == "W":
            if wi == 0:
                c.overwrite(o1, ProvBuf.src("w1", l1, 0))
            else:
                c.overwrite(o2, ProvBuf.src("w2", l2, 0))
            wi += 1
            sizes.append(c.current_size)
        else:
            if ki == 0:
                c.write(ProvBuf.src("dl", c1, 0))
            else:
                c.write(ProvBuf.src("dl", n2, c1))
            ki += 1
    # reference: the original contents with the client's writes applied in order
    C1 = D if D > o1 + l1 else o1 + l1
    C2 = C1 if C1 > o2 + l2 else o2 + l2
    if c.current_size != C2:
        return "final size wrong"
    if o2 <= p and p < o2 + l2:
        want = ("w2", p - o2)
    elif C1 <= p and p < o2:
        want = (ProvBuf.ZERO, 0)
    elif o1 <= p and p < o1 + l1:
        want = ("w1", p - o1)
    elif D <= p and p < o1:
        want = (ProvBuf.ZERO, 0)
    elif p < D:
        want = ("dl", p)
    else:
        want = None
    got = _written(c.f.log, p)
    if got != want:
        return "final temporary file differs from the reference at p"
    if c.done_status is None:
        return "download not complete at the end"
    return True
