"""
C02 — immutable downloads never return wrong bytes: the validation gates of the downloader
(immutable/downloader/share.py, node.py) on ADVERSARIAL share contents, under an ideal hash.

Share contents are an `_advshare.Image`: the real DataSpans bookkeeping and the real slicing /
offset arithmetic of the Share methods run unchanged on Region tokens; hash slots carry
ideal-hash tokens with symbolic ids, header integers are symbolic ints behind a struct stand-in.
"""
from vlib import hlib
from vlib.hlib import assume, NS
hlib.ensure_shims()
import _merkle as M
from _merkle import HV
import _advshare as A
import _cuts
from twisted.internet import defer
from twisted.python.failure import Failure
from allmydata import hashtree, codec as codec_mod
from allmydata.hashtree import BadHashError, NotEnoughHashesError
from allmydata.util.spans import DataSpans, Spans
from allmydata.immutable.downloader import share as share_mod, node as node_mod
from allmydata.immutable.downloader.common import COMPLETE, CORRUPT, DEAD, BADSEGNUM, BadCiphertextHashError
from allmydata.immutable.downloader.share import Share, CommonShare, LayoutInvalid, DataUnavailable
from allmydata.immutable.downloader.node import DownloadNode

B = hlib.bounds()
M.install(hashtree)
NOTES = [M.MODEL_NOTE, M.B32_NOTE, A.NOTE,
         "share.struct replaced by _advshare.FakeStructA (symbolic header fields at the offsets actually read)",
         "hashutil.block_hash / crypttext_segment_hash / uri_extension_hash replaced in the downloader modules by ideal "
         "hashes: content id -> hash id, injective (content of a received range is a symbolic content id)",
         "Share._signal_corruption replaced by a recorder (it formats a message and does a remote call)",
         "zfec constructors replaced by recorders (as in C01)",
         "now() in downloader.node/share replaced by a constant clock (timestamps only feed status reporting); node.log.err/msg are recorders",
         "foolscap eventually() in downloader.node replaced by a harness-owned queue",
         "eager %-formatting of exception messages in Share._satisfy_offsets cut (harness/_cuts.py); exception types unchanged"]


# ---- ideal content hashes --------------------------------------------------------------------
# The content of a received byte range is identified by a symbolic content id `cid` chosen by the
# adversary for the range that the code actually read.  H_tag(content) = id CBASE_tag + cid: injective
# per tag, and distinct tags have disjoint ranges.  (All ids are below K0, i.e. "leaf-like".)
CMAX = 8            # content ids range over [0, CMAX)


def _content_id(x):
    if isinstance(x, A.Blob):
        return x.cid
    if isinstance(x, A.Region) and getattr(x.image, "content", None) is not None:
        return x.image.content(x.off, x.n)
    if isinstance(x, CID):
        return x.cid
    raise hlib.HarnessError("ideal content hash applied to unmodelled data %r" % (x,))


class CID(bytes):
    """opaque content (a decoded segment, ...) identified by a symbolic content id"""

    def __new__(cls, cid, n):
        o = bytes.__new__(cls, b"")
        o.cid, o.n = cid, n
        return o

    def __len__(self):
        return self.n

    def __bool__(self):
        return A._symlen_bool(self.n)

    __hash__ = None


def _h_block(data):
    return M.sym(1 + _content_id(data), 0)          # ids 1..8


def _h_seg(data):
    return M.sym(9 + _content_id(data), 0)          # ids 9..16


def _h_ueb(data):
    _h_ueb.seen.append(data)
    return M.sym(17 + _content_id(data), 0)         # ids 17..24


_h_ueb.seen = []

share_mod.hashutil = NS(block_hash=_h_block)
node_mod.hashutil = NS(crypttext_segment_hash=_h_seg, uri_extension_hash=_h_ueb)
share_mod.struct = A.FakeStructA


class _FakeZfec(object):
    class Encoder(object):
        def __init__(self, k, n):
            self.k, self.n = k, n

    class Decoder(object):
        def __init__(self, k, n):
            self.k, self.n = k, n


codec_mod.zfec = _FakeZfec

class _Log(object):
    """downloader.node's `log` name: log.err (used as a last-resort errback) records instead of writing a log event"""
    errors = []

    def __init__(self, real):
        self._real = real

    def __getattr__(self, name):
        return getattr(self._real, name)

    def err(self, f=None, *a, **kw):
        _Log.errors.append(f)

    def msg(self, *a, **kw):
        return 0


node_mod.log = _Log(node_mod.log)
# timestamps only feed the download-status display; a constant clock keeps CrossHair's symbolic time.time() out
node_mod.now = lambda: 0.0
share_mod.now = lambda: 0.0


def _control(f):
    """twisted captures BaseException in callbacks, including CrossHair's own control-flow exceptions: re-raise those"""
    if isinstance(f, Failure) and not isinstance(f.value, Exception):
        raise f.value

_EVQ = []
node_mod.eventually = lambda f, *a, **kw: _EVQ.append((f, a, kw))


def _drain():
    n = 0
    while _EVQ:
        (f, a, kw) = _EVQ.pop(0)
        f(*a, **kw)
        n += 1
        if n > 100:
            raise hlib.HarnessError("eventual-send queue does not drain")


# ---- stripped real methods --------------------------------------------------------------------
S_offsets = _cuts.strip(Share._satisfy_offsets)
S_ueb = hlib.strip_logs(Share._satisfy_UEB)
S_sharehashes = hlib.strip_logs(Share._satisfy_share_hash_tree)
S_blockhashes = hlib.strip_logs(Share._satisfy_block_hash_tree)
S_cthashes = hlib.strip_logs(Share._satisfy_ciphertext_hash_tree)
S_datablock = hlib.strip_logs(Share._satisfy_data_block)
S_getsat = hlib.strip_logs(Share._get_satisfaction)
S_loop = hlib.strip_logs(Share.loop)
S_fail = hlib.strip_logs(Share._fail)
N_validate = hlib.strip_logs(DownloadNode.validate_and_store_UEB)
N_parse = hlib.strip_logs(DownloadNode._parse_and_store_UEB)
N_checkct = hlib.strip_logs(DownloadNode._check_ciphertext_hash)
N_procblocks = hlib.strip_logs(DownloadNode.process_blocks)
Share._fail = S_fail
DownloadNode._parse_and_store_UEB = N_parse
DownloadNode.validate_and_store_UEB = N_validate
DownloadNode._check_ciphertext_hash = N_checkct
hlib.encoded(DownloadNode.process_share_hashes, DownloadNode.process_ciphertext_hashes,
             DownloadNode.get_needed_ciphertext_hashes, DownloadNode._calculate_sizes, DownloadNode._extract_requests,
             DownloadNode._deliver,
             CommonShare.process_block_hashes, CommonShare.check_block, CommonShare.get_needed_block_hashes,
             CommonShare.need_block_hash_root, CommonShare.set_block_hash_root, CommonShare.set_authoritative_num_segments,
             Share._active_segnum_and_observers,
             DataSpans.get, DataSpans.pop, DataSpans.remove, hashtree.IncompleteHashTree.set_hashes,
             hashtree.IncompleteHashTree.needed_hashes)


class _Rec(object):
    def __init__(self):
        self.calls = []

    def __call__(self, *a, **kw):
        self.calls.append(a)
        return defer.succeed(None)


class _Obs(object):
    """stand-in for EventStreamObserver: records notifications"""

    def __init__(self):
        self.events = []

    def notify(self, **kw):
        self.events.append(kw)


class _DS(object):
    def add_misc_event(self, *a):
        pass


def _real(x, lo, hi):
    for c in range(lo, hi):
        if x == c:
            return c
    raise hlib.HarnessError("value outside its precondition range")


def _mk_share(image, have, node=None, commonshare=None, shnum=0):
    sh = Share.__new__(Share)
    sh._received = DataSpans()
    if have is not None:
        sh._received.spans = [(0, image.whole(have))]
    sh._pending = Spans()
    sh._unavailable = Spans()
    sh._node = node
    sh._commonshare = commonshare
    sh._shnum = shnum
    sh._alive = True
    sh._lp = 0
    sh._requested_blocks = []
    sh.had_corruption = False
    sh.actual_offsets = None
    sh._fieldsize = None
    sh._fieldstruct = None
    sh._signal_corruption = _Rec()
    sh._download_status = _DS()
    sh._loop_scheduled = False
    return sh


def _spans_cover(ds, start, length):
    """independent reading of a DataSpans: is every byte of [start, start+length) held?"""
    if length <= 0:
        return True
    for (s, d) in ds.spans:
        if s <= start and start + length <= s + len(d):
            return True
    return False


def _spans_hold_any(ds, start, length):
    for (s, d) in ds.spans:
        if s < start + length and start < s + len(d):
            return True
    return False


# ---- 1. offset table gate ----------------------------------------------------------------------

FIELDS = ['data', 'plaintext_hash_tree', 'crypttext_hash_tree', 'block_hashes', 'share_hashes', 'uri_extension']


def h_offsets(version: int, a0: int, a1: int, a2: int, a3: int, a4: int, a5: int,
              b0: int, b1: int, b2: int, b3: int, b4: int, b5: int, junk: int, have: int) -> bool:
    """
    pre: 0 <= version < 2**32 and 0 <= junk < 2**64 and 0 <= have
    pre: all(0 <= x < 2**32 for x in (a0, a1, a2, a3, a4, a5))
    pre: all(0 <= x < 2**64 for x in (b0, b1, b2, b3, b4, b5))
    post: _ == True
    """
    img = A.Image(junk)
    img.nums[(0, 4)] = version
    v1 = [a0, a1, a2, a3, a4, a5]
    v2 = [b0, b1, b2, b3, b4, b5]
    for i in range(6):
        img.nums[(0x0c + 4 * i, 4)] = v1[i]
        img.nums[(0x14 + 8 * i, 8)] = v2[i]
    sh = _mk_share(img, have)
    try:
        r = S_offsets(sh)
    except LayoutInvalid:
        if not sh.had_corruption:
            return "LayoutInvalid without had_corruption"
        # the share is abandoned by loop() (see h_loop_abandon); the table must really be unusable
        if version == 1 or version == 2:
            if have < (0x24 if version == 1 else 0x44):
                return "LayoutInvalid although the table has not arrived"
            t = v1 if version == 1 else v2
            sh_ok = t[5] - t[4] >= 0 and (t[5] - t[4]) % 34 == 0
            bh_ok = t[4] - t[3] >= 0 and (t[4] - t[3]) % 32 == 0
            if sh_ok and bh_ok:
                return "well-formed table rejected"
        return True
    if r is False:
        if sh.actual_offsets is not None:
            return "returned False but stored offsets"
        if version == 1 and have >= 0x24 or version == 2 and have >= 0x44:
            return "table available but not consumed"
        if version not in (1, 2) and have >= 4:
            return "unknown version not rejected"
        return True
    if r is not True:
        return "unexpected return value"
    if version not in (1, 2):
        return "accepted an unknown version"
    t = v1 if version == 1 else v2
    if sh._fieldsize != (4 if version == 1 else 8) or sh._fieldstruct != ("L" if version == 1 else "Q"):
        return "field size/struct do not match the version"
    if sorted(sh.actual_offsets.keys()) != sorted(FIELDS):
        return "offset table keys wrong"
    for i in range(6):
        if not (sh.actual_offsets[FIELDS[i]] == t[i]):
            return "offset %s is not field %d of the version-%d table" % (FIELDS[i], i, 1 if version == 1 else 2)
    shs = t[5] - t[4]
    bhs = t[4] - t[3]
    if shs < 0 or shs % 34 != 0:
        return "accepted a share-hash region that is not a whole number of (2+32)-byte entries"
    if bhs < 0 or bhs % 32 != 0:
        return "accepted a block-hash region that is not a whole number of 32-byte hashes"
    # consumed bytes are gone, everything else is still there
    if _spans_hold_any(sh._received, 0, 4):
        return "version bytes not retired"
    end = 0x24 if version == 1 else 0x44
    if _spans_hold_any(sh._received, end - (24 if version == 1 else 48), (24 if version == 1 else 48)):
        return "table bytes not retired"
    if have > end and not _spans_cover(sh._received, end, have - end):
        return "data after the table was dropped"
    return True


# ---- 2. UEB gate ---------------------------------------------------------------------------------

class _Finder(object):
    def __init__(self):
        self.n = 0

    def update_num_segments(self):
        self.n += 1


class _OneShot(object):
    def __init__(self):
        self.fired = []

    def fire(self, v):
        self.fired.append(v)


def _mk_node(size, k, n, g_ueb):
    nd = DownloadNode.__new__(DownloadNode)
    nd._verifycap = NS(size=size, needed_shares=k, total_shares=n, uri_extension_hash=M.sym(17 + g_ueb, 0),
                       to_string=lambda: b"cap")
    nd._lp = 0
    nd.have_UEB = False
    nd.segment_size = None
    nd.num_segments = None
    nd.block_size = None
    nd.tail_block_size = None
    nd.share_hash_tree = hashtree.IncompleteHashTree(n)
    nd.guessed_segment_size = 1
    nd.guessed_num_segments = 1
    nd.ciphertext_hash_tree = hashtree.IncompleteHashTree(1)
    nd.ciphertext_hash_tree_leaves = 1
    nd._segsize_observers = _OneShot()
    nd._sharefinder = _Finder()
    nd._download_status = _DS()
    nd._si_prefix = "si"
    return nd


def h_ueb(v2: bool, ulen: int, have: int, u: int, g: int, croot: int, sroot: int, segsize: int) -> bool:
    """
    pre: 0 <= ulen < 2**32 and 0 <= have
    pre: 0 <= u < CMAX and 0 <= g < CMAX
    pre: 1 <= croot < M.K0 and 1 <= sroot < M.K0
    pre: segsize in (2, 4, 6)
    post: _ == True
    """
    O_UE = 200
    fs = 8 if v2 else 4
    img = A.Image(0)
    img.nums[(O_UE, fs)] = ulen
    sh = _mk_share(img, have)
    nd = _mk_node(10, 2, 3, g)
    sh._node = nd
    sh.actual_offsets = {"uri_extension": O_UE}
    sh._fieldsize = fs
    sh._fieldstruct = "Q" if v2 else "L"
    segsize = _real(segsize, 2, 7)
    _h_ueb.seen = []
    parsed = []

    def unpack_extension(data):
        parsed.append(data)
        return {"segment_size": segsize, "crypttext_root_hash": M.sym(croot, 0), "share_root_hash": M.sym(sroot, 0),
                "needed_shares": 99, "total_shares": 99, "size": 12345, "num_segments": 77}

    # content of whatever range gets hashed as "the UEB": symbolic id u
    img.content = lambda off, n: u
    saved = node_mod.uri
    node_mod.uri = NS(unpack_extension=unpack_extension, unpack_extension_readable=lambda d: {})
    try:
        try:
            r = S_ueb(sh)
        finally:
            node_mod.uri = saved
    except BadHashError:
        if u == g:
            return "genuine UEB rejected"
        if nd.have_UEB or parsed or nd.segment_size is not None or nd.share_hash_tree[0] is not None or nd._sharefinder.n:
            return "rejected UEB left traces in the node"
        if not sh.had_corruption or len(sh._signal_corruption.calls) != 1:
            return "corruption not signalled"
        return True
    if r is False:
        if nd.have_UEB or parsed or _h_ueb.seen:
            return "returned False after touching the node"
        if ulen > 0 and have >= O_UE + fs + ulen:
            return "UEB fully available but not consumed"
        return True
    if r is not True:
        return "unexpected return value"
    if not (u == g):
        return "accepted a UEB whose hash is not the one in the cap"
    if len(_h_ueb.seen) != 1 or len(parsed) != 1 or parsed[0] is not _h_ueb.seen[0]:
        return "the bytes that were parsed are not the bytes that were hashed"
    x = parsed[0]
    if not (x.off == O_UE + fs and x.n == ulen):
        return "UEB read from the wrong range"
    if not nd.have_UEB or nd._sharefinder.n != 1:
        return "have_UEB / sharefinder not updated"
    if nd.segment_size != segsize or nd.num_segments != -(-10 // segsize):
        return "sizes not derived from the validated UEB and the cap"
    if nd._codec.required_shares != 2 or nd._codec.max_shares != 3:
        return "k/N taken from the UEB instead of the cap"
    if not M.same(nd.share_hash_tree[0], M.sym(sroot, 0)) or not M.same(nd.ciphertext_hash_tree[0], M.sym(croot, 0)):
        return "tree roots are not the UEB's roots"
    if len(nd.ciphertext_hash_tree) != 2 * M.pow2_at_least(nd.num_segments) - 1 or len(nd.share_hash_tree) != 7:
        return "tree sizes wrong"
    for t in (nd.share_hash_tree, nd.ciphertext_hash_tree):
        for i in range(1, len(t)):
            if t[i] is not None:
                return "tree holds unvalidated nodes"
    return True


# ---- 3. share hash chain gate ---------------------------------------------------------------------

VT = B.get("vtier", 1)
VMAX = M.kmax(VT)


def _leaf_tokens(n, L):
    return [M.sym(L[j], 0) for j in range(n)]


def _leaves_ok(L):
    return all(1 <= x <= CMAX for x in L)


def h_sharehashes(x0: bool, x1: bool, x2: bool, l0: int, l1: int, l2: int, l3: int, m: int,
                  q0: int, v0: int, q1: int, v1: int, q2: int, v2: int, have: int, shnum: int) -> bool:
    """
    pre: M.family_ok(B["n"], [x0, x1, x2], B.get("xs"))
    pre: _leaves_ok([l0, l1, l2, l3])
    pre: 0 <= m <= B["m_max"] and 0 <= have and 0 <= shnum < B["n"]
    pre: not B.get("full") or have == 100 + 34 * B["m_max"] + 7
    pre: B.get("shnum") is None or shnum == B["shnum"]
    pre: B.get("m") is None or m == B["m"]
    pre: all(0 <= q <= 2 * M.pow2_at_least(B["n"]) - 1 for q in (q0, q1, q2))
    pre: all(1 <= v < VMAX for v in (v0, v1, v2))
    post: _ == True
    """
    n = B["n"]
    m = _real(m, 0, B["m_max"] + 1)
    shnum = _real(shnum, 0, n)
    L = [l0, l1, l2, l3]
    gen, iht = M.mk_family(hashtree, n, [x0, x1, x2], _leaf_tokens(n, L))
    before = list(iht)
    O_SH = 100
    O_UE = O_SH + 34 * m
    img = A.Image(0)
    Q = [q0, q1, q2]
    V = [v0, v1, v2]
    for j in range(m):
        img.nums[(O_SH + 34 * j, 2)] = Q[j]
        img.put_hash(O_SH + 34 * j + 2, M.sym(V[j], VT))
    nd = DownloadNode.__new__(DownloadNode)
    nd.share_hash_tree = iht
    sh = _mk_share(img, have, node=nd, shnum=shnum)
    sh.actual_offsets = {"share_hashes": O_SH, "uri_extension": O_UE}
    chunks_before = [(s, d.off, d.n) for (s, d) in sh._received.spans]
    try:
        r = S_sharehashes(sh)
    except (BadHashError, NotEnoughHashesError):
        if not M.tree_unchanged(before, iht):
            return "rejected, but the share hash tree changed"
        if not sh.had_corruption or len(sh._signal_corruption.calls) != 1:
            return "corruption not signalled exactly once"
        (f, start, length) = sh._signal_corruption.calls[0]
        if start != O_SH or length != 34 * m:
            return "corruption range is not the share-hash section"
        return True
    if r is False:
        if not M.tree_unchanged(before, iht) or [(s, d.off, d.n) for (s, d) in sh._received.spans] != chunks_before:
            return "returned False but changed state"
        if m > 0 and have >= O_UE:
            return "section fully available but not consumed"
        return True
    if r is not True:
        return "unexpected return value"
    if m == 0 or have < O_UE:
        return "accepted a section that has not arrived"
    if not M.tree_genuine(gen, iht):
        return "accepted, but the share hash tree holds a non-genuine node"
    if not M.tree_family(iht):
        return "tree left the reachable family"
    last = {}
    for j in range(m):
        last[_real(Q[j], 0, 2 * M.pow2_at_least(n))] = V[j]
    for q in last:
        if q >= len(iht) or iht[q] is None:
            return "accepted hash not remembered"
    if _spans_hold_any(sh._received, O_SH, 34 * m):
        return "consumed section still in _received"
    # the link used by _get_satisfaction: no more hashes needed for my leaf => my leaf is held and genuine
    if not iht.needed_hashes(shnum):
        lf = iht.get_leaf(shnum)
        if lf is None or not M.same(lf, gen.get_leaf(shnum)):
            return "needed_hashes(shnum) empty but the share's leaf is not the genuine block-tree root"
    return True


# ---- 4./5. block hash chain and ciphertext hash chain gates -------------------------------------------

def h_hashchain(x0: bool, x1: bool, x2: bool, l0: int, l1: int, l2: int, l3: int, segnum: int,
                s0: int, s1: int, s2: int, s3: int, s4: int, s5: int, s6: int, have: int, gap: int) -> bool:
    """
    pre: M.family_ok(B["n"], [x0, x1, x2])
    pre: _leaves_ok([l0, l1, l2, l3])
    pre: 0 <= segnum < B["n"] and 0 <= have and 0 <= gap
    pre: all(1 <= v < VMAX for v in (s0, s1, s2, s3, s4, s5, s6))
    post: _ == True
    """
    n = B["n"]
    which = B["which"]          # "block" | "ct"
    segnum = _real(segnum, 0, n)
    L = [l0, l1, l2, l3]
    base = 1 if which == "block" else 9
    gen, iht = M.mk_family(hashtree, n, [x0, x1, x2], [M.sym(base - 1 + L[j], 0) for j in range(n)])
    before = list(iht)
    O = 64 if which == "block" else 640
    O_OTHER = 640 if which == "block" else 64
    img = A.Image(0)
    S = [s0, s1, s2, s3, s4, s5, s6]
    for i in range(len(iht)):
        img.put_hash(O + 32 * i, M.sym(S[i], VT))
    for i in range(len(iht), len(iht) + 2):          # slots just past the tree and the other section hold unrelated hashes,
        img.put_hash(O + 32 * i, M.sym(S[0], VT))    # so that code reading the wrong slot sees data, not a harness error
    for i in range(9):
        img.put_hash(O_OTHER + 32 * i, M.sym(S[(i + 1) % 7], VT))
    nd = DownloadNode.__new__(DownloadNode)
    nd.num_segments = n
    cs = CommonShare.__new__(CommonShare)
    cs._block_hash_tree_is_authoritative = True
    cs._block_hash_tree_leaves = n
    if which == "block":
        cs._block_hash_tree = iht
        nd.ciphertext_hash_tree = None
        needed = cs.get_needed_block_hashes(segnum)
    else:
        cs._block_hash_tree = None
        nd.ciphertext_hash_tree = iht
        needed = nd.get_needed_ciphertext_hashes(segnum)
    assume(len(needed) > 0)         # _get_satisfaction only calls the gate when something is needed
    sh = _mk_share(img, None, node=nd, commonshare=cs)
    # received data: [0, have) and, after a hole, [have+gap+1, ...): models partially arrived hashes
    sh._received.spans = [(0, img.whole(have))] if have > 0 else []
    if gap > 0:
        sh._received.spans.append((have + gap, A.Region(img, have + gap, 10000)))
    sh.actual_offsets = {"block_hashes": O, "crypttext_hash_tree": O_OTHER} if which == "block" else \
                        {"block_hashes": O_OTHER, "crypttext_hash_tree": O}
    all_there = all(_spans_cover(sh._received, O + 32 * i, 32) for i in needed)
    chunks_before = [(s, d.off, d.n) for (s, d) in sh._received.spans]
    try:
        if which == "block":
            r = S_blockhashes(sh, needed)
        else:
            r = S_cthashes(sh, needed)
    except (BadHashError, NotEnoughHashesError):
        if not M.tree_unchanged(before, iht):
            return "rejected, but the tree changed"
        if not sh.had_corruption or len(sh._signal_corruption.calls) != 1:
            return "corruption not signalled exactly once"
        if all(S[i] == gen[i].v for i in needed):
            return "genuine needed hashes rejected"
        return True
    if r is False:
        if not M.tree_unchanged(before, iht) or [(s, d.off, d.n) for (s, d) in sh._received.spans] != chunks_before:
            return "returned False but changed state"
        if all_there:
            return "all needed hashes available but not consumed"
        return True
    if r is not True:
        return "unexpected return value"
    if not all_there:
        return "accepted although a needed hash has not arrived"
    if not M.tree_genuine(gen, iht) or not M.tree_family(iht):
        return "accepted, but the tree holds a non-genuine node"
    for i in needed:
        if not (S[i] == gen[i].v):
            return "accepted a hash that differs from the genuine node"
        if _spans_hold_any(sh._received, O + 32 * i, 32):
            return "consumed hash still in _received"
    if iht.needed_hashes(segnum, include_leaf=True):
        return "still needs hashes for this segment"
    return True


# ---- 6. data block gate -----------------------------------------------------------------------------

def h_datablock(x0: bool, x1: bool, x2: bool, l0: int, l1: int, l2: int, l3: int, segnum: int,
                datastart: int, bs: int, tbs: int, have: int, b: int) -> bool:
    """
    pre: M.family_ok(B["n"], [x0, x1, x2])
    pre: _leaves_ok([l0, l1, l2, l3])
    pre: 0 <= segnum < B["n"] and 0 <= have and 0 <= datastart and 1 <= bs and 1 <= tbs
    pre: 0 <= b < CMAX
    post: _ == True
    """
    n = B["n"]
    segnum = _real(segnum, 0, n)
    L = [l0, l1, l2, l3]
    gen, iht = M.mk_family(hashtree, n, [x0, x1, x2], _leaf_tokens(n, L))
    before = list(iht)
    chain_ready = not iht.needed_hashes(segnum)       # (family: then the leaf itself is held too)
    img = A.Image(0)
    reads = []

    def content(off, ln):
        reads.append((off, ln))
        return b
    img.content = content
    nd = NS(num_segments=n, block_size=bs, tail_block_size=tbs)
    cs = CommonShare.__new__(CommonShare)
    cs._block_hash_tree_is_authoritative = True
    cs._block_hash_tree_leaves = n
    cs._block_hash_tree = iht
    sh = _mk_share(img, have, node=nd, commonshare=cs)
    sh.actual_offsets = {"data": datastart}
    o1, o2 = _Obs(), _Obs()
    other = _Obs()
    sh._requested_blocks = [(segnum, [o1, o2]), (segnum + 1, [other])]
    want_off = datastart + segnum * bs
    want_len = tbs if segnum == n - 1 else bs
    r = S_datablock(sh, segnum, [o1, o2])
    if r is False:
        if o1.events or o2.events or other.events or len(sh._requested_blocks) != 2 or reads:
            return "returned False after acting"
        if have >= want_off + want_len:
            return "block fully available but not consumed"
        if not M.tree_unchanged(before, iht):
            return "tree changed"
        return True
    if r is not True:
        return "unexpected return value"
    if have < want_off + want_len:
        return "retired a block that has not fully arrived"
    if other.events or [s for (s, _o) in sh._requested_blocks] != [segnum + 1]:
        return "request queue not advanced by exactly this segment"
    if len(o1.events) != 1 or len(o2.events) != 1 or o1.events[0] != o2.events[0]:
        return "observers not notified exactly once, identically"
    ev = o1.events[0]
    if len(reads) != 1 or not (reads[0][0] == want_off and reads[0][1] == want_len):
        return "hashed bytes are not [data + segnum*block_size, +blocklen)"
    if ev.get("state") == COMPLETE:
        blk = ev.get("block")
        if not isinstance(blk, A.Region) or not (blk.off == want_off and blk.n == want_len):
            return "delivered block is not the range that was checked"
        if not (b == L[segnum] - 1):
            return "COMPLETE for a block whose hash is not the genuine leaf"
        if sh._signal_corruption.calls or sh.had_corruption:
            return "corruption signalled for a good block"
        if sh._received.spans:
            return "_received not cleared"
        if not M.tree_genuine(gen, iht):
            return "tree holds a non-genuine node"
        return True
    if ev.get("state") != CORRUPT or "block" in ev:
        return "unexpected notification %r" % (sorted(ev.keys()),)
    if chain_ready and b == L[segnum] - 1:
        return "genuine block with a validated chain reported CORRUPT"
    if not M.tree_unchanged(before, iht):
        return "corrupt block changed the tree"
    if len(sh._signal_corruption.calls) != 1 or not sh.had_corruption:
        return "corruption not signalled"
    return True


# ---- 7. ciphertext segment gate and delivery --------------------------------------------------------

def h_ctseg(x0: bool, x1: bool, x2: bool, l0: int, l1: int, l2: int, l3: int, segnum: int,
            segsize: int, seglen: int, c: int) -> bool:
    """
    pre: M.family_ok(B["n"], [x0, x1, x2])
    pre: _leaves_ok([l0, l1, l2, l3])
    pre: 0 <= segnum < B["n"] and 1 <= segsize and 0 <= seglen and 0 <= c < CMAX
    post: _ == True
    """
    n = B["n"]
    segnum = _real(segnum, 0, n)
    L = [l0, l1, l2, l3]
    gen, iht = M.mk_family(hashtree, n, [x0, x1, x2], [M.sym(8 + L[j], 0) for j in range(n)])
    before = list(iht)
    chain_ready = not iht.needed_hashes(segnum)
    nd = DownloadNode.__new__(DownloadNode)
    nd.segment_size = segsize
    nd._download_status = _DS()
    nd._lp = 0
    nd._si_prefix = "si"
    nd.ciphertext_hash_tree = iht
    nd._active_segment = NS(segnum=segnum)
    seg = CID(c, seglen)
    try:
        (offset, seg2, t) = N_checkct(nd, (seg, 0.5), segnum)
    except BadCiphertextHashError:
        if not M.tree_unchanged(before, iht):
            return "rejected, but the ciphertext hash tree changed"
        if chain_ready and c == L[segnum] - 1:
            return "genuine segment with a validated chain rejected"
        return True
    if seg2 is not seg or not (offset == segnum * segsize):
        return "returned segment/offset is not the checked segment at segnum*segment_size"
    if not (c == L[segnum] - 1):
        return "accepted a segment whose hash is not the genuine ciphertext leaf"
    if not M.tree_genuine(gen, iht):
        return "tree holds a non-genuine node"
    return True


class _SegEv(object):
    def __init__(self):
        self.log = []

    def error(self, when):
        self.log.append("error")

    def activate(self, when):
        self.log.append("activate")

    def deliver(self, when, offset, length, decodetime):
        self.log.append("deliver")


def h_deliver(l0: int, l1: int, c: int, decode_fails: bool, cancelled: bool, segsize: int) -> bool:
    """
    pre: _leaves_ok([l0, l1, 1, 1]) and 0 <= c < CMAX and 1 <= segsize
    post: _ == True
    """
    del _EVQ[:]
    del _Log.errors[:]
    L = [l0, l1]
    gen, iht = M.mk_family(hashtree, 2, [True], [M.sym(8 + L[j], 0) for j in range(2)])
    nd = DownloadNode.__new__(DownloadNode)
    nd.segment_size = segsize
    nd._download_status = _DS()
    nd._lp = 0
    nd._si_prefix = "si"
    nd.ciphertext_hash_tree = iht
    fetcher = NS(segnum=1)
    nd._active_segment = fetcher
    started = []
    nd._start_new_segment = lambda: started.append(1)
    seg = CID(c, 5)

    class Boom(Exception):
        pass

    def decode(segnum, blocks):
        if decode_fails:
            return defer.fail(Boom())
        return defer.succeed((seg, 0.25))
    nd._decode_blocks = decode
    res = {}
    reqs = []
    for (name, segnum) in (("a", 1), ("b", 0), ("c", 1)):
        d = defer.Deferred()
        d.addBoth(lambda r, name=name: res.setdefault(name, []).append(r))
        cn = node_mod.Cancel(lambda c_: None)
        reqs.append((segnum, d, cn, _SegEv(), 0))
    if cancelled:
        reqs[2][2].active = False
    nd._segment_requests = list(reqs)
    N_procblocks(nd, 1, {0: b"x"})
    _drain()
    for f in list(_Log.errors) + [x for v in res.values() for x in v]:
        _control(f)
    if _Log.errors:
        return "unhandled error during process_blocks: %r" % (_Log.errors[0],)
    if "b" in res or [t[0] for t in nd._segment_requests] != [0]:
        return "request for another segment was touched"
    if cancelled:
        if "c" in res:
            return "cancelled request was fired"
    elif len(res.get("c", [])) != 1:
        return "waiting request not fired exactly once"
    if len(res.get("a", [])) != 1:
        return "waiting request not fired exactly once"
    good = (not decode_fails) and c == L[1] - 1
    for name in ("a",) if cancelled else ("a", "c"):
        r = res[name][0]
        if good:
            if isinstance(r, Failure):
                return "genuine segment not delivered"
            (offset, s2, t) = r
            if s2 is not seg or not (offset == segsize):
                return "delivered something other than the validated segment"
        else:
            if not isinstance(r, Failure):
                return "data delivered although decode/ciphertext validation failed"
            if not r.check(Boom if decode_fails else BadCiphertextHashError):
                return "wrong failure type"
    if len(started) != 1:
        return "_start_new_segment not called once"
    return True


# ---- 8. block-tree root comes from the validated share hash leaf -----------------------------------

def h_rootlink(x0: bool, x1: bool, x2: bool, l0: int, l1: int, l2: int, l3: int, shnum: int) -> bool:
    """
    pre: M.family_ok(B["n"], [x0, x1, x2])
    pre: _leaves_ok([l0, l1, l2, l3])
    pre: 0 <= shnum < B["n"]
    post: _ == True
    """
    n = B["n"]
    shnum = _real(shnum, 0, n)
    L = [l0, l1, l2, l3]
    gen, iht = M.mk_family(hashtree, n, [x0, x1, x2], _leaf_tokens(n, L))
    nd = NS(have_UEB=True, segment_size=4, num_segments=3, share_hash_tree=iht)
    cs = CommonShare.__new__(CommonShare)
    cs._block_hash_tree = hashtree.IncompleteHashTree(3)
    cs._block_hash_tree_leaves = 3
    cs._block_hash_tree_is_authoritative = True
    sh = _mk_share(A.Image(0), 0, node=nd, commonshare=cs, shnum=shnum)
    sh.actual_offsets = {"share_hashes": 0, "uri_extension": 0}
    asked = []
    sh._satisfy_share_hash_tree = lambda: asked.append(1) and False
    path_complete = True
    x = M.pow2_at_least(n) - 1 + shnum
    while x > 0:
        sib = x + 1 if x % 2 == 1 else x - 1
        if iht[sib] is None:
            path_complete = False
        x = (x - 1) // 2
    r = S_getsat(sh)
    if r is not False:
        return "no segment requested, yet satisfaction reported"
    root = cs._block_hash_tree[0]
    if path_complete:
        if asked:
            return "asked for share hashes although the chain is complete"
        if root is None or not (root.v == L[shnum]):
            return "block hash tree root is not the validated share-hash leaf of this share"
    else:
        if len(asked) != 1:
            return "share hash chain incomplete but not requested"
        if root is not None:
            return "block hash tree root set before the share hash chain was validated"
    for i in range(1, len(cs._block_hash_tree)):
        if cs._block_hash_tree[i] is not None:
            return "block hash tree holds unvalidated nodes"
    return True


# ---- 9. corruption abandons the share -------------------------------------------------------------

def h_loop(e: int, nreq: int) -> bool:
    """
    pre: 0 <= e <= 4 and 0 <= nreq <= 2
    post: _ == True
    """
    e = _real(e, 0, 5)
    nreq = _real(nreq, 0, 3)
    sh = _mk_share(A.Image(0), 0)
    obs = [_Obs() for _ in range(nreq)]
    sh._requested_blocks = [(i, [obs[i]]) for i in range(nreq)]
    exc = [None, BadHashError("x"), NotEnoughHashesError("x"), LayoutInvalid("x"), DataUnavailable("x")][e]
    calls = []

    def do_loop():
        calls.append(1)
        if exc is not None:
            raise exc
    sh._do_loop = do_loop
    S_loop(sh)
    if len(calls) != 1:
        return "_do_loop not run"
    if exc is None:
        if not sh._alive or any(o.events for o in obs):
            return "share abandoned without an error"
        return True
    if sh._alive:
        return "share still alive after corruption"
    for o in obs:
        if len(o.events) != 1 or o.events[0].get("state") != DEAD or o.events[0]["f"].value is not exc:
            return "observer not told DEAD with the failure"
    S_loop(sh)
    if len(calls) != 1:
        return "a dead share ran its loop again"
    # late data for a dead share is ignored
    before = list(sh._received.spans)
    Share._got_data(sh, b"zz", 0, 2, NS(finished=lambda *a: None), 0)
    if sh._received.spans != before:
        return "dead share accepted data"
    return True
