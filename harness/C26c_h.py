"""
C26 (with C27's crawl skeleton) — a share whose leases are all expired is deleted within ONE crawl cycle, whatever the order
in which the file system lists the bucket directories and wherever the time slice is interrupted; shares with a valid lease stay.

Reuses the environment of harness/C27_h.py (real ShareCrawler slice machinery, real state serializers on an in-memory
file system, clock that jumps at a symbolic clock read, permuted directory listings) and runs the real
LeaseCheckingCrawler.process_bucket / process_share with expiration ENABLED on in-memory shares.
"""
from vlib import hlib
from vlib.hlib import NS, assume   # noqa: F401
import C27_h as K
from C27_h import W, B, J
from allmydata.storage import expirer
from allmydata.storage.lease import LeaseInfo

NOTES = list(K.NOTES) + [
    "shares are in-memory objects (one share '0' per bucket, one real LeaseInfo each) handed out by expirer.get_share_file; "
    "cancel_lease on them removes the lease and unlinks the share when none is left (container code itself: process_share obligation / C25)",
]
hlib.encoded(expirer.LeaseCheckingCrawler.process_bucket, expirer.LeaseCheckingCrawler.process_share)
DAY = K.DAY
NOW = 1000            # origin of C27_h's clock


class _Share(object):
    sharetype = "immutable"

    def __init__(self, name, expired):
        self.name = name
        # expired: lease ran out 2 days before the clock's origin; otherwise it runs for another 20 days
        exp = NOW - 2 * DAY if expired else NOW + 20 * DAY
        self.leases = [LeaseInfo(owner_num=1, renew_secret=b"r" * 32, cancel_secret=b"c" * 32, expiration_time=exp, nodeid=b"n" * 20)]
        self.deleted = False
        self.examined = 0

    def get_leases(self):
        return iter(list(self.leases))

    def cancel_lease(self, secret):
        if self.deleted:
            raise IndexError("share is gone")
        keep = [l for l in self.leases if not l.is_cancel_secret(secret)]
        if len(keep) == len(self.leases):
            raise IndexError("no such lease")
        self.leases = keep
        if not keep:
            self.deleted = True
        return 0


class ExpiringCrawler(K.RecLease):
    pass


def h_cycle_deletes_expired(j1: int, perm: int, valid_one: int) -> bool:
    """
    pre: 1 <= j1 <= J
    pre: 0 <= perm < K.MAXPERM
    pre: 0 <= valid_one <= len(K._all_buckets())
    post: _ == True
    """
    W.reset(j1, J + 1000, 0)
    W.perm = perm
    buckets = K._all_buckets()
    shares = {}
    for n, (p, b) in enumerate(buckets):
        shares["shares/%s/%s/0" % (p, b)] = _Share(b, expired=(n != valid_one))

    def get_share_file(fn):
        if fn not in shares:
            raise hlib.HarnessError("crawler opened %r" % (fn,))
        s = shares[fn]
        if s.deleted:
            raise hlib.HarnessError("crawler opened a deleted share")
        s.examined += 1
        return s
    saved = expirer.get_share_file
    expirer.get_share_file = get_share_file
    try:
        err, lcf_seen = K._drive(ExpiringCrawler, ("storage/lease.history", True, "age", None, None, ("mutable", "immutable")), 1)
    finally:
        expirer.get_share_file = saved
    if err:
        return err
    for n, (p, b) in enumerate(buckets):
        s = shares["shares/%s/%s/0" % (p, b)]
        if n == valid_one:
            if s.deleted or len(s.leases) != 1:
                return "a share with a valid lease was deleted / lost its lease"
        else:
            if not s.deleted:
                return "share %s whose only lease expired two days ago survived a complete crawl cycle" % b
        if s.examined != 1:
            return "share %s examined %d times in one uninterrupted-process cycle" % (b, s.examined)
    hist = K._UntracedJSON.loads(W.files["storage/lease.history.json"])
    sr = hist["0"]["space-recovered"]
    want = sum(1 for n in range(len(buckets)) if n != valid_one)
    if sr["actual-shares"] != want or sr["examined-shares"] != len(buckets) or sr["actual-buckets"] != want:
        return "space-recovered counters of the finished cycle disagree with what was deleted"
    return True
