"""
C24 — read-test-write is atomic and guarded by the write enabler.

The real StorageServer.slot_testv_and_readv_and_writev and its helpers
(_collect_mutable_shares_for_storage_index, _evaluate_test_vectors, _evaluate_read_vectors,
_evaluate_write_vectors, _make_lease_info, _add_or_renew_leases, _allocate_slot_share) run
  (a) against recording share objects whose answers (write enabler matches? test vector passes?) are
      symbolic flags: the ORDER of effects is asserted on the call log;
  (b) against real MutableShareFile containers on the in-memory filesystem: all-or-nothing on the bytes.
"""
from vlib import hlib
from vlib.hlib import ProvBuf, assume
import _sharefix as X
from _sharefix import FS, FStruct, MSF, DATA_OFFSET, MLEASE, MAX_SIZE, Garbage
from allmydata.storage import mutable as mut, server as server_mod
from allmydata.interfaces import BadWriteEnablerError

B = hlib.bounds()
NOTES = X.NOTES + [
    "order obligation: MutableShareFile / create_mutable_sharefile names in storage/server.py replaced by recording "
    "share objects with symbolic answers (check_write_enabler, check_testv); everything else is the real server code",
]

for _name in ("slot_testv_and_readv_and_writev", "_evaluate_test_vectors", "_evaluate_write_vectors", "slot_readv"):
    hlib.strip_method(X.SS, _name)
hlib.strip_method(MSF, "check_write_enabler")
hlib.encoded(X.SS._collect_mutable_shares_for_storage_index, X.SS._evaluate_read_vectors, X.SS._make_lease_info,
             X.SS._add_or_renew_leases, X.SS._allocate_slot_share, mut.EmptyShare.check_testv, mut.testv_compare,
             MSF._read_write_enabler_and_nodeid, MSF.check_testv, MSF.readv, MSF.writev)

LOG = []


class FakeShare(object):
    def __init__(self, num, enabler_ok, test_ok, created=False):
        self.num, self.enabler_ok, self.test_ok = num, enabler_ok, test_ok
        self.data = ("data-before", num)

    def check_write_enabler(self, write_enabler, si_s):
        LOG.append(("enabler", self.num))
        if not self.enabler_ok:
            raise BadWriteEnablerError("bad")

    def check_testv(self, testv):
        LOG.append(("test", self.num))
        return self.test_ok

    def readv(self, readv):
        LOG.append(("read", self.num))
        return [self.data for _ in readv]

    def writev(self, datav, new_length):
        LOG.append(("write", self.num, datav, new_length))
        self.data = ("data-after", self.num)

    def unlink(self):
        LOG.append(("unlink", self.num))
        FS.os.unlink(X.share_path(self.num))

    def add_or_renew_lease(self, available_space, lease_info):
        LOG.append(("lease", self.num, available_space, lease_info.renew_secret, lease_info.get_expiration_time()))


SHARES = {}


def _fake_msf(filename, parent=None):
    for (num, sh) in SHARES.items():
        if filename == X.share_path(num):
            return sh
    raise hlib.HarnessError("unexpected share file %r" % (filename,))


def _fake_create(filename, my_nodeid, write_enabler, parent):
    for num in range(4):
        if filename == X.share_path(num):
            sh = FakeShare(num, True, True)
            SHARES[num] = sh
            LOG.append(("create", num, write_enabler))
            FS.put(filename, [], mkdirs=False)
            return sh
    raise hlib.HarnessError("unexpected share file %r" % (filename,))


def _flags(nshares, ex, en, te, na, z, mo):
    return [(ex[i], en[i], te[i], na[i], z[i], mo[i]) for i in range(nshares)]


def _run_order(nshares, flags, renew, now, avail, junk, noread=False, emptyw=False):
    """flags[i] = (exists, enabler_ok, test_ok, named, newlen_zero, missing_test_ok)"""
    del LOG[:]
    SHARES.clear()
    X.reset()
    ss = X.mk_server(clock=X.Clock(now))
    FS.fileutil.avail = avail
    any_file = False
    for i in range(nshares):
        if flags[i][0]:
            SHARES[i] = FakeShare(i, flags[i][1], flags[i][2])
            FS.put(X.share_path(i), [], mkdirs=False)
            any_file = True
    if junk:
        FS.put(X.BUCKET + "/README", [], mkdirs=False)      # a non-numeric entry is not a share
        any_file = True
    if not any_file:
        FS.dirs.discard(X.BUCKET)                           # no bucket directory yet
    tw = {}
    for i in range(nshares):
        (exists, en_ok, te_ok, named, nl0, miss_ok) = flags[i]
        if named:
            specimen = b"" if miss_ok else b"x"              # what a missing share (reads as empty) is compared with
            tw[i] = ([(0, 1, b"eq", specimen)], [] if emptyw else [(0, ("newdata", i))], 0 if nl0 else None)
    secrets = (X.WE_GOOD, X.tok("R", 1), X.tok("C", 1))
    saved = (server_mod.MutableShareFile, server_mod.create_mutable_sharefile)
    server_mod.MutableShareFile, server_mod.create_mutable_sharefile = _fake_msf, _fake_create
    try:
        try:
            res = ss.slot_testv_and_readv_and_writev(X.SI, secrets, tw, [] if noread else [(0, 10)], renew_leases=renew)
        except BadWriteEnablerError:
            res = "bad-enabler"
    finally:
        server_mod.MutableShareFile, server_mod.create_mutable_sharefile = saved
    return res, tw


def _check_order(nshares, flags, renew, now, avail, res, tw, noread=False):
    existing = [i for i in range(nshares) if flags[i][0]]
    named = [i for i in range(nshares) if flags[i][3]]
    effects = [e for e in LOG if e[0] in ("write", "unlink", "create", "lease")]
    if any(not flags[i][1] for i in existing):
        # some existing share was made with another write enabler: refuse before touching anything
        if res != "bad-enabler":
            return "write enabler mismatch on an existing share did not raise BadWriteEnablerError"
        if [e for e in LOG if e[0] != "enabler"]:
            return "a share was read / tested / written although the write enabler does not match every existing share"
        return True
    if res == "bad-enabler":
        return "BadWriteEnablerError although every existing share accepts the write enabler"
    if sorted(e[1] for e in LOG if e[0] == "enabler") != existing:
        return "the write enabler was not checked against every existing share exactly once"
    good = True
    for i in named:
        if flags[i][0]:
            good = good and flags[i][2]
        else:
            good = good and flags[i][5]
    (ok, reads) = res
    if ok != good:
        return "result flag is not the conjunction of the test vectors of the named shares (missing share == empty)"
    if sorted(reads.keys()) != existing or any(reads[i] != ([] if noread else [("data-before", i)]) for i in existing):
        return "read results must be the data of every existing share BEFORE the request"
    first_effect = min([k for k, e in enumerate(LOG) if e[0] in ("write", "unlink", "create", "lease")] or [len(LOG)])
    if any(k > first_effect for k, e in enumerate(LOG) if e[0] in ("read", "test", "enabler")):
        return "a read / test / enabler check happened after the first modification"
    if not good:
        if effects:
            return "a test vector failed but something was modified: %r" % (effects[0][0],)
        return True
    # all tests pass: every named share is written exactly once (or deleted / not created for new_length == 0)
    t = now + 31 * 24 * 60 * 60
    for i in range(nshares):
        mine = [e for e in effects if e[1] == i]
        if i not in named:
            if mine:
                return "a share the request does not name was modified"
            continue
        kinds = [e[0] for e in mine]
        if flags[i][4]:
            if kinds != (["unlink"] if flags[i][0] else []):
                return "new_length == 0 must delete an existing share (once) and never create or write one"
        else:
            want = ([] if flags[i][0] else ["create"]) + ["write"] + (["lease"] if renew else [])
            if kinds != want:
                return "named share must be (created if missing,) written exactly once (and leased iff renew_leases): %r" % (kinds,)
            w = [e for e in mine if e[0] == "write"][0]
            if w[2] is not tw[i][1] or w[3] is not None:
                return "writev got other vectors than the request's"
            if not flags[i][0]:
                c = [e for e in mine if e[0] == "create"][0]
                if c[2] != X.WE_GOOD:
                    return "new share not created with the request's write enabler"
            if renew:
                l = [e for e in mine if e[0] == "lease"][0]
                if l[2] != avail or l[3] != X.tok("R", 1) or l[4] != t:
                    return "lease renewal must use the request's renew secret, now + 31 days and the available space"
    return True


def h_order2(e0: bool, n0: bool, t0: bool, a0: bool, z0: bool, m0: bool,
             e1: bool, n1: bool, t1: bool, a1: bool, z1: bool, m1: bool, renew: bool, junk: bool, now: int, avail: int) -> bool:
    """
    pre: 0 <= now < 2**40 and 0 <= avail
    post: _ == True
    """
    return X.guard(_h_order2, e0, n0, t0, a0, z0, m0, e1, n1, t1, a1, z1, m1, renew, junk, now, avail)


def _h_order2(e0, n0, t0, a0, z0, m0, e1, n1, t1, a1, z1, m1, renew, junk, now, avail):
    flags = _flags(2, (e0, e1), (n0, n1), (t0, t1), (a0, a1), (z0, z1), (m0, m1))
    res, tw = _run_order(2, flags, renew, now, avail, junk)
    return _check_order(2, flags, renew, now, avail, res, tw)


def h_order1(e0: bool, n0: bool, t0: bool, a0: bool, z0: bool, m0: bool, renew: bool, noread: bool, emptyw: bool) -> bool:
    """
    post: _ == True
    """
    return X.guard(_h_order1, e0, n0, t0, a0, z0, m0, renew, noread, emptyw)


def _h_order1(e0, n0, t0, a0, z0, m0, renew, noread, emptyw):
    # one share number; additionally an empty read vector and empty write vectors
    flags = _flags(1, (e0,), (n0,), (t0,), (a0,), (z0,), (m0,))
    res, tw = _run_order(1, flags, renew, 1000, 500, False, noread, emptyw)
    return _check_order(1, flags, renew, 1000, 500, res, tw, noread)


def h_order3(e0: bool, n0: bool, t0: bool, a0: bool, z0: bool, e1: bool, n1: bool, t1: bool, a1: bool, z1: bool,
             e2: bool, n2: bool, t2: bool, a2: bool, z2: bool, m: bool, renew: bool) -> bool:
    """
    post: _ == True
    """
    return X.guard(_h_order3, e0, n0, t0, a0, z0, e1, n1, t1, a1, z1, e2, n2, t2, a2, z2, m, renew)


def _h_order3(e0, n0, t0, a0, z0, e1, n1, t1, a1, z1, e2, n2, t2, a2, z2, m, renew):
    flags = _flags(3, (e0, e1, e2), (n0, n1, n2), (t0, t1, t2), (a0, a1, a2), (z0, z1, z2), (m, m, m))
    res, tw = _run_order(3, flags, renew, 1000, 500, False)
    return _check_order(3, flags, renew, 1000, 500, res, tw)


# ---- the real write-enabler check --------------------------------------------------------------------------

PARENT = X.Parent()
_SLOTS = [X.mlease_rec(1, 1000 + i, X.hashed(2, X.tok("r", i)), X.hashed(2, X.tok("c", i))) for i in range(4)]


def h_enabler(dl: int, elo: int, stored_good: bool, given_good: bool, version: int) -> bool:
    """
    pre: X.mutable_inv(dl, elo) and 1 <= version <= 2
    post: _ == True
    """
    return X.guard(_h_enabler, dl, elo, stored_good, given_good, version)


def _h_enabler(dl, elo, stored_good, given_good, version):
    X.reset()
    X.mk_mutable(X.share_path(0), dl, elo, list(_SLOTS), [], version=version, we=X.WE_GOOD if stored_good else X.WE_BAD,
                 nodeid=X.NODEID2)
    sf = MSF(X.share_path(0), PARENT)
    try:
        sf.check_write_enabler(X.WE_GOOD if given_good else X.WE_BAD, b"si")
        raised = False
    except BadWriteEnablerError:
        raised = True
    if raised != (stored_good != given_good):
        return "check_write_enabler must raise BadWriteEnablerError iff the presented enabler differs from the stored one"
    if FS.nops != 0:
        return "check_write_enabler modified the container"
    return True


# ---- all-or-nothing on real containers ---------------------------------------------------------------------

def h_atomic_real(dl0: int, have1: bool, tl: int, sl: int, ln0: int, good_we: bool, t2ok: bool, t2first: bool) -> bool:
    """
    pre: 0 <= dl0 <= B["len_max"] and have1 == B["have1"]
    pre: 0 <= tl and 0 <= sl and 1 <= ln0 <= B["len_max"] and good_we == B["good_we"]
    post: _ == True
    """
    return X.guard(_h_atomic_real, dl0, have1, tl, sl, ln0, good_we, t2ok, t2first)


def _h_atomic_real(dl0, have1, tl, sl, ln0, good_we, t2ok, t2first):
    p = 0
    ro, rl = 0, 1                  # read vector: the first byte (clipped reads: C23)
    to = so = 0
    off0 = dl0                     # both writes are appends (arbitrary writes on one container: C23)
    dl1, ln1 = 7, 3                # the second share is concrete
    have1 = bool(B["have1"])
    good_we = bool(B["good_we"])
    X.reset()
    FS.split_hint = DATA_OFFSET
    ss = X.mk_server(clock=X.Clock(1000))
    st0 = X.mk_mutable(X.share_path(0), dl0, DATA_OFFSET + dl0, list(_SLOTS), [])
    if have1:
        X.mk_mutable(X.share_path(1), dl1, DATA_OFFSET + dl1, list(_SLOTS), [])
    else:
        dl1 = 0
    off1 = dl1                     # share 1: an append (arbitrary writes on one container: C23)
    # share 0: test bytes [to, to+tl) against the specimen old0[so, so+sl); share 1: test "is empty at 0..1" iff missing
    # share 0 has a TWO-entry test vector: entry A compares [0, tl) with the specimen old[0, sl); entry B reads beyond any
    # possible end (empty) and passes iff t2ok; either order.  The request passes iff BOTH pass.
    ent_a = (to, tl, b"eq", ProvBuf.src("old", sl, so))
    ent_b = (MAX_SIZE + 1, 1, b"eq", b"" if t2ok else ProvBuf.src("zz", 1))
    tw = {0: ([ent_b, ent_a] if t2first else [ent_a, ent_b], [(off0, ProvBuf.src("new0", ln0))], None),
          1: ([], [(off1, ProvBuf.src("new1", ln1))], None)}
    secrets = (X.WE_GOOD if good_we else X.WE_BAD, X.tok("R", 1), X.tok("C", 1))
    try:
        (ok, reads) = ss.slot_testv_and_readv_and_writev(X.SI, secrets, tw, [(ro, rl)], renew_leases=False)
    except BadWriteEnablerError:
        if good_we:
            return "BadWriteEnablerError with the right write enabler"
        if FS.nops != 0:
            return "request with a wrong write enabler modified something"
        return True
    if not good_we:
        return "wrong write enabler accepted"
    end = to + tl if to + tl < dl0 else dl0
    cl = end - to if end > to else 0
    passes = (cl == sl) and (cl == 0 or so == to) and t2ok
    if ok != passes:
        return "result flag is not the outcome of the test vector on the data before the request"
    # reads: data before the request, clipped
    if sorted(reads.keys()) != ([0, 1] if have1 else [0]):
        return "read vector must be answered for every existing share"
    rend = ro + rl if ro + rl < dl0 else dl0
    want = rend - ro if rend > ro else 0
    got = reads[0][0]
    if len(got) != want or (want == 1 and got.at(0) != ("old", p)):
        return "read result is not the data before the request"
    if not passes:
        if FS.nops != 0:
            return "a test vector failed but a share was modified / created"
        return True
    # all writes applied, to every share named
    st1 = FS.get(X.share_path(1))
    if st1 is None:
        return "named missing share was not created"
    for (st, dl, off, ln, tag) in ((st0, dl0, off0, ln0, "new0"), (st1, dl1, off1, ln1, "new1")):
        (dlf,) = X.rec_values(st, MSF.DATA_LENGTH_OFFSET, ">Q")
        n2 = dl if dl > off + ln else off + ln
        if dlf != n2:
            return "a named share does not have the length the write implies"
        if st.at(DATA_OFFSET + off) != (tag, 0) or st.at(DATA_OFFSET + off + ln - 1) != (tag, ln - 1):
            return "a named share does not hold the written bytes"
    return True
