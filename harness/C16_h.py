"""
C16 - capabilities attenuate correctly.

(a) h_derive:        get_readonly()/get_verify_cap()/is_readonly()/is_mutable()/to_string() of every real cap class under an
                     IDEAL HASH (injective token constructor in place of ssk_readkey_hash / ssk_storage_index_hash /
                     storage_index_hash inside uri.py): classes per an independent table, same storage index and
                     fingerprint along write -> read -> verify, no stronger secret in any derived cap.
(b) h_from_string:   the real uri.from_string on (prefix, deep_immutable, kind): alleged read-only / immutable caps are never
                     interpreted as writeable / mutable.
(c) h_unknown_node:  unknown.UnknownNode.__init__ and strip_prefix_for_ro on the same matrix.
(d) h_nodemaker:     nodemaker.NodeMaker.create_from_cap with deep_immutable.

The oracles are tables and rules written from docs/specifications/uri.rst (cap formats, write -> read derivation),
docs/architecture.rst ("Capabilities": verify < read < write), docs/frontends/webapi.rst (LIT files have no verify cap; an
unknown write cap cannot be attenuated; ro./imm. prefixes) and the property statement; nothing is computed with the
functions under test.
"""
import base64 as _base64
from vlib import hlib
from vlib.hlib import NS, assume
hlib.ensure_shims()
from allmydata import uri as U
from allmydata import unknown as UNK
from allmydata import nodemaker as NM
from allmydata.util import base32 as _base32
from allmydata.util import hashutil as _real_hashutil
from allmydata.interfaces import MustBeDeepImmutableError, MustBeReadonlyError, MustNotBeUnknownRWError, IVerifierURI

B = hlib.bounds()
NOTES = [
    "uri.hashutil replaced (once, at import) by a namespace whose ssk_readkey_hash / ssk_storage_index_hash / storage_index_hash are an "
    "ideal hash: an injective constructor returning fresh 16-byte tokens per distinct (function, argument); netstring / "
    "uri_extension_hash stay the real ones",
    "allmydata.util.base32's name `base64` replaced by a wrapper that runs the same C functions outside CrossHair's tracing "
    "(CrossHair models base64 symbolically even on concrete arguments, ~0.2 s per call); all arguments are concrete table entries",
    "h_nodemaker: NodeMaker._create_lit/_create_immutable/_create_immutable_verifier/_create_mutable/_create_dirnode replaced by "
    "recorders that return a tagged stand-in node carrying the cap (is_mutable()/is_readonly() answered by the cap)",
]


class _NativeBase64(object):
    @staticmethod
    def b32encode(b):
        from crosshair.tracers import NoTracing
        from crosshair.core import deep_realize
        with NoTracing():
            return _base64.b32encode(deep_realize(b))

    @staticmethod
    def b32decode(b):
        from crosshair.tracers import NoTracing
        from crosshair.core import deep_realize
        with NoTracing():
            return _base64.b32decode(deep_realize(b))


_base32.base64 = _NativeBase64


class _Ideal(object):
    """Injective token constructor: a fresh 16-byte token for every distinct (function name, argument)."""

    def __init__(self):
        self.table = {}
        self.calls = []

    def reset(self):
        self.table = {}
        self.calls = []

    def h(self, tag, arg):
        if not isinstance(arg, bytes):
            raise hlib.HarnessError("ideal hash called on a non-bytes argument")
        key = (tag, bytes(arg))
        self.calls.append(key)
        if key not in self.table:
            self.table[key] = (tag + b"#%03d" % len(self.table)).ljust(16, b".")
        return self.table[key]

    def ssk_readkey_hash(self, writekey):
        return self.h(b"RK", writekey)

    def ssk_storage_index_hash(self, readkey):
        return self.h(b"SI", readkey)

    def storage_index_hash(self, key):
        return self.h(b"CS", key)


IDEAL = _Ideal()
IDEAL.netstring = _real_hashutil.netstring
IDEAL.uri_extension_hash = _real_hashutil.uri_extension_hash
hlib.encoded(_real_hashutil.ssk_readkey_hash, _real_hashutil.ssk_storage_index_hash, _real_hashutil.storage_index_hash)
U.hashutil = IDEAL

hlib.encoded(U.CHKFileURI, U.CHKFileVerifierURI, U.LiteralFileURI, U.WriteableSSKFileURI, U.ReadonlySSKFileURI, U.SSKVerifierURI,
             U.WriteableMDMFFileURI, U.ReadonlyMDMFFileURI, U.MDMFVerifierURI, U._DirectoryBaseURI, U.DirectoryURI,
             U.ReadonlyDirectoryURI, U._ImmutableDirectoryBaseURI, U.ImmutableDirectoryURI, U.LiteralDirectoryURI,
             U.MDMFDirectoryURI, U.ReadonlyMDMFDirectoryURI, U.MDMFDirectoryURIVerifier, U.DirectoryURIVerifier,
             U.ImmutableDirectoryURIVerifier, U.UnknownURI, U.wrap_dirnode_cap, U.from_string,
             UNK.UnknownNode.__init__, UNK.strip_prefix_for_ro, UNK.UnknownNode.is_alleged_immutable,
             UNK.UnknownNode.is_allowed_in_immutable_directory,
             NM.NodeMaker.create_from_cap, NM.NodeMaker._create_from_single_cap, _base32.b2a, _base32.a2b)


def _conc(i, n):
    """Concrete int equal to the (possibly symbolic) index i in range(n): one fork per value."""
    for v in range(n):
        if i == v:
            return v
    raise hlib.HarnessError("index out of range")


# ---------------------------------------------------------------------------------------------------------------
# key material: distinct concrete tokens selected by symbolic indices
# ---------------------------------------------------------------------------------------------------------------
NKEY = 3
WKEYS = [b"W-key-%d" % i + b"w" * 9 for i in range(NKEY)]          # write keys (16 bytes)
RKEYS = [b"R-key-%d" % i + b"r" * 9 for i in range(NKEY)]          # read keys given directly to a read cap
SIDX = [b"S-idx-%d" % i + b"s" * 9 for i in range(NKEY)]           # storage indexes given directly to a verify cap
CKEYS = [b"C-key-%d" % i + b"c" * 9 for i in range(NKEY)]          # CHK encryption keys
FPS = [b"fingerprint-%d" % i + b"f" * 19 for i in range(NKEY)]     # fingerprints / UEB hashes (32 bytes)
LITS = [b"", b"literal data", b"x"]
for _t in WKEYS + RKEYS + SIDX + CKEYS:
    assert len(_t) == 16
for _t in FPS:
    assert len(_t) == 32

# ---------------------------------------------------------------------------------------------------------------
# (a) the independent table.  Columns: class name, level (w/r/v), family, class of get_readonly(), class of
# get_verify_cap(), is_readonly(), is_mutable() (None = not constrained by the property: verify caps), string prefix.
# Written from docs/specifications/uri.rst (SSK / SSK-RO / DIR2 / DIR2-RO / CHK / LIT), docs/specifications/mutable.rst
# (MDMF) and the cap-kind list in docs/frontends/webapi.rst; verify caps grant neither read nor write authority.
# ---------------------------------------------------------------------------------------------------------------
KINDS = [
    # name                         lvl  family   readonly ->                  verify ->                        ro     mut    prefix
    ("WriteableSSKFileURI",        "w", "ssk",   "ReadonlySSKFileURI",        "SSKVerifierURI",                False, True,  b"URI:SSK:"),
    ("ReadonlySSKFileURI",         "r", "ssk",   "ReadonlySSKFileURI",        "SSKVerifierURI",                True,  True,  b"URI:SSK-RO:"),
    ("SSKVerifierURI",             "v", "ssk",   "SSKVerifierURI",            "SSKVerifierURI",                True,  None,  b"URI:SSK-Verifier:"),
    ("WriteableMDMFFileURI",       "w", "mdmf",  "ReadonlyMDMFFileURI",       "MDMFVerifierURI",               False, True,  b"URI:MDMF:"),
    ("ReadonlyMDMFFileURI",        "r", "mdmf",  "ReadonlyMDMFFileURI",       "MDMFVerifierURI",               True,  True,  b"URI:MDMF-RO:"),
    ("MDMFVerifierURI",            "v", "mdmf",  "MDMFVerifierURI",           "MDMFVerifierURI",               True,  None,  b"URI:MDMF-Verifier:"),
    ("CHKFileURI",                 "r", "chk",   "CHKFileURI",                "CHKFileVerifierURI",            True,  False, b"URI:CHK:"),
    ("CHKFileVerifierURI",         "v", "chk",   "CHKFileVerifierURI",        "CHKFileVerifierURI",            True,  None,  b"URI:CHK-Verifier:"),
    ("LiteralFileURI",             "r", "lit",   "LiteralFileURI",            None,                            True,  False, b"URI:LIT:"),
    ("DirectoryURI",               "w", "ssk",   "ReadonlyDirectoryURI",      "DirectoryURIVerifier",          False, True,  b"URI:DIR2:"),
    ("ReadonlyDirectoryURI",       "r", "ssk",   "ReadonlyDirectoryURI",      "DirectoryURIVerifier",          True,  True,  b"URI:DIR2-RO:"),
    ("DirectoryURIVerifier",       "v", "ssk",   "DirectoryURIVerifier",      "DirectoryURIVerifier",          True,  None,  b"URI:DIR2-Verifier:"),
    ("MDMFDirectoryURI",           "w", "mdmf",  "ReadonlyMDMFDirectoryURI",  "MDMFDirectoryURIVerifier",      False, True,  b"URI:DIR2-MDMF:"),
    ("ReadonlyMDMFDirectoryURI",   "r", "mdmf",  "ReadonlyMDMFDirectoryURI",  "MDMFDirectoryURIVerifier",      True,  True,  b"URI:DIR2-MDMF-RO:"),
    ("MDMFDirectoryURIVerifier",   "v", "mdmf",  "MDMFDirectoryURIVerifier",  "MDMFDirectoryURIVerifier",      True,  None,  b"URI:DIR2-MDMF-Verifier:"),
    ("ImmutableDirectoryURI",      "r", "chk",   "ImmutableDirectoryURI",     "ImmutableDirectoryURIVerifier", True,  False, b"URI:DIR2-CHK:"),
    ("ImmutableDirectoryURIVerifier", "v", "chk", "ImmutableDirectoryURIVerifier", "ImmutableDirectoryURIVerifier", True, None, b"URI:DIR2-CHK-Verifier:"),
    ("LiteralDirectoryURI",        "r", "lit",   "LiteralDirectoryURI",       None,                            True,  False, b"URI:DIR2-LIT:"),
]
NKIND = len(KINDS)
FIRST_DIR = 9
# directory kind -> file kind it wraps (index into KINDS)
INNER = {9: 0, 10: 1, 11: 2, 12: 3, 13: 4, 14: 5, 15: 6, 16: 7, 17: 8}
_ROW = dict((row[0], row) for row in KINDS)
_DIR_VERIFIERS = {11: U.DirectoryURIVerifier, 14: U.MDMFDirectoryURIVerifier, 16: U.ImmutableDirectoryURIVerifier}


def _file_cap(k, i, j):
    """Real constructor of file-cap kind k (0..8) from table entries i (key) and j (fingerprint)."""
    cls = getattr(U, KINDS[k][0])
    lvl, fam = KINDS[k][1], KINDS[k][2]
    if fam == "lit":
        return cls(LITS[i])
    if fam == "chk":
        if lvl == "r":
            return cls(CKEYS[i], FPS[j], 3, 10, 1000 + j)
        return cls(SIDX[i], FPS[j], 3, 10, 1000 + j)
    key = {"w": WKEYS, "r": RKEYS, "v": SIDX}[lvl][i]
    return cls(key, FPS[j])


def _cap(k, i, j):
    if k < FIRST_DIR:
        return _file_cap(k, i, j)
    inner = _file_cap(INNER[k], i, j)
    if k in _DIR_VERIFIERS:
        return _DIR_VERIFIERS[k](inner)
    return U.wrap_dirnode_cap(inner)


def _occurs(obj, secret, depth=0):
    """Does `secret` (raw or base32) occur anywhere in the instance state of obj (recursively)?"""
    if depth > 6:
        raise hlib.HarnessError("cap object graph deeper than expected")
    if isinstance(obj, (bytes, bytearray)):
        return secret in obj or _base32.b2a(secret) in obj
    if isinstance(obj, str):
        return _base32.b2a(secret).decode("ascii") in obj
    if obj is None or isinstance(obj, (int, bool, float)):
        return False
    if isinstance(obj, (list, tuple, set, frozenset)):
        for x in obj:
            if _occurs(x, secret, depth + 1):
                return True
        return False
    if isinstance(obj, dict):
        for kk, vv in obj.items():
            if _occurs(kk, secret, depth + 1) or _occurs(vv, secret, depth + 1):
                return True
        return False
    d = getattr(obj, "__dict__", None)
    if d is None:
        raise hlib.HarnessError("cannot walk the state of %r" % (type(obj),))
    for vv in d.values():
        if _occurs(vv, secret, depth + 1):
            return True
    return False


def _leaks(cap, secret):
    return _occurs(cap, secret) or _base32.b2a(secret) in cap.to_string() or secret in cap.to_string()


def _file_of(cap, k):
    """The file-level cap inside (directory: the wrapped cap, via the real accessor)."""
    if k >= FIRST_DIR:
        return cap.get_filenode_cap()
    return cap


def _shape(cap, name, wrapped_name):
    """cap is exactly of class `name` (and, for a directory class, wraps exactly the expected file-level class)."""
    if type(cap) is not getattr(U, name):
        return False
    if wrapped_name is not None and type(cap.get_filenode_cap()) is not getattr(U, wrapped_name):
        return False
    return True


def _wrapped_name(k, derived_name):
    """For directory kinds: the file-level class a derived directory cap must wrap = the same derivation on the inner kind."""
    if k < FIRST_DIR or derived_name is None:
        return None
    inner_row = KINDS[INNER[k]]
    if derived_name == KINDS[k][3]:
        return inner_row[3]
    return inner_row[4]


def _flags(cap, name):
    row = _ROW[name]
    if cap.is_readonly() is not row[5]:
        return "is_readonly() of %s" % name
    if row[6] is not None and cap.is_mutable() is not row[6]:
        return "is_mutable() of %s" % name
    if not cap.to_string().startswith(row[7]):
        return "to_string() prefix of %s" % name
    return None


def h_derive(k: int, i: int, j: int) -> bool:
    """
    pre: 0 <= k < NKIND and (B.get("kinds") is None or k in B["kinds"])
    pre: 0 <= i < B.get("nkey", 2) and 0 <= j < B.get("nfp", 2)
    post: _ == True
    """
    k, i, j = _conc(k, NKIND), _conc(i, NKEY), _conc(j, NKEY)
    IDEAL.reset()
    name, lvl, fam, ro_name, vf_name, _ro, _mut, _prefix = KINDS[k]
    c = _cap(k, i, j)
    if not _shape(c, name, KINDS[INNER[k]][0] if k >= FIRST_DIR else None):
        raise hlib.HarnessError("constructed an unexpected class")
    bad = _flags(c, name)
    if bad:
        return "start cap: wrong " + bad
    # a start cap that already is a verify cap is only looked at, not diminished further (outside the statement)
    ro = c if lvl == "v" else c.get_readonly()
    vf = c if lvl == "v" else c.get_verify_cap()

    # -- classes -----------------------------------------------------------------------------------------------
    if not _shape(ro, ro_name, _wrapped_name(k, ro_name)):
        return "get_readonly() has the wrong class (or wraps the wrong file cap class)"
    if lvl == "r" and ro is not c:
        return "get_readonly() of a read cap is not the cap itself"
    if vf_name is None:
        if vf is not None:
            return "LIT caps have no verify cap"
    else:
        if not _shape(vf, vf_name, _wrapped_name(k, vf_name)):
            return "get_verify_cap() has the wrong class (or wraps the wrong file cap class)"
        if not IVerifierURI.providedBy(vf):
            return "verify cap does not provide IVerifierURI"
    # -- never reports authority it lacks --------------------------------------------------------------------------
    bad = _flags(ro, ro_name)
    if bad:
        return "read cap: wrong " + bad
    if vf is not None:
        bad = _flags(vf, vf_name)
        if bad:
            return "verify cap: wrong " + bad
    # -- idempotent / commutes ----------------------------------------------------------------------------------------
    if lvl != "v" and ro.get_readonly() is not ro:
        return "get_readonly() is not idempotent"
    rv = vf if lvl == "v" else ro.get_verify_cap()
    if vf is None:
        if rv is not None:
            return "read cap of a LIT cap grew a verify cap"
    else:
        if type(rv) is not type(vf) or rv.to_string() != vf.to_string():
            return "w.get_readonly().get_verify_cap() != w.get_verify_cap()"
        # (get_verify_cap()/get_readonly() applied to a verify cap are outside the property statement: not demanded here)
    # -- same storage index and fingerprint along the chain ------------------------------------------------------------
    fc, fro = _file_of(c, k), _file_of(ro, k)
    fvf = _file_of(vf, k) if vf is not None else None
    if fam in ("ssk", "mdmf"):
        fp, si = FPS[j], None
        if lvl == "w":
            rk = IDEAL.table.get((b"RK", WKEYS[i]))
            if rk is None:
                return "read key is not derived from the write key by ssk_readkey_hash"
            si = IDEAL.table.get((b"SI", rk))
            if si is None:
                return "storage index is not derived from the read key by ssk_storage_index_hash"
            if fro.readkey != rk:
                return "read cap does not carry ssk_readkey_hash(writekey)"
        elif lvl == "r":
            rk = RKEYS[i]
            si = IDEAL.table.get((b"SI", rk))
            if si is None:
                return "storage index is not derived from the read key by ssk_storage_index_hash"
            if fro.readkey != rk:
                return "read cap lost its read key"
        else:
            rk = None
            si = SIDX[i]
        for (what, x) in (("start", c), ("read", ro), ("verify", vf)):
            if x.get_storage_index() != si:
                return "storage index differs along the chain (%s cap)" % what
        for (what, x) in (("start", fc), ("read", fro), ("verify", fvf)):
            if x.fingerprint != fp:
                return "fingerprint differs along the chain (%s cap)" % what
            if x.storage_index != si:
                return "storage_index attribute differs along the chain (%s cap)" % what
        # -- no stronger secret ----------------------------------------------------------------------------------
        if lvl == "w":
            if _leaks(ro, WKEYS[i]):
                return "read cap carries the write key"
            if _leaks(vf, WKEYS[i]):
                return "verify cap carries the write key"
        if rk is not None and _leaks(vf, rk):
            return "verify cap carries the read key"
        if lvl in ("w", "r") and _base32.b2a(rk) not in ro.to_string():
            return "read cap string does not contain the read key"
        if _base32.b2a(si) not in vf.to_string() or _base32.b2a(fp) not in vf.to_string():
            return "verify cap string does not contain storage index and fingerprint"
    elif fam == "chk":
        if lvl == "r":
            si = IDEAL.table.get((b"CS", CKEYS[i]))
            if si is None:
                return "storage index is not derived from the key by storage_index_hash"
            if _leaks(vf, CKEYS[i]):
                return "verify cap carries the encryption key"
        else:
            si = SIDX[i]
        for (what, x) in (("start", c), ("read", ro), ("verify", vf)):
            if x.get_storage_index() != si:
                return "storage index differs along the chain (%s cap)" % what
        for (what, x) in (("start", fc), ("read", fro), ("verify", fvf)):
            if (x.uri_extension_hash, x.needed_shares, x.total_shares, x.size) != (FPS[j], 3, 10, 1000 + j):
                return "UEB hash / k / N / size differ along the chain (%s cap)" % what
        if _base32.b2a(si) not in vf.to_string() or _base32.b2a(FPS[j]) not in vf.to_string():
            return "verify cap string does not contain storage index and UEB hash"
    else:
        if c.get_storage_index() is not None:
            return "LIT caps have no storage index"
        if fro.data != LITS[i]:
            return "LIT data changed"
    return True


def h_verify_of_verify(k: int, i: int, j: int) -> bool:
    """
    pre: 0 <= k < FIRST_DIR
    pre: 0 <= i < B.get("nkey", 2) and 0 <= j < B.get("nfp", 2)
    post: _ == True
    """
    # FILE-level verify caps only.  Verify-cap-of-a-verify-cap is not part of the property statement; in particular the
    # directory verifiers are deliberately left out (MDMFDirectoryURIVerifier / ImmutableDirectoryURIVerifier inherit
    # _DirectoryBaseURI.get_verify_cap and return a DirectoryURIVerifier whose to_string() asserts).
    k, i, j = _conc(k, FIRST_DIR), _conc(i, NKEY), _conc(j, NKEY)
    IDEAL.reset()
    c = _cap(k, i, j)
    vf = c if KINDS[k][1] == "v" else c.get_verify_cap()
    assume(vf is not None)                      # LIT
    vv = vf.get_verify_cap()
    if type(vv) is not type(vf):
        return "get_verify_cap() of a verify cap has another class"
    if vv.to_string() != vf.to_string():
        return "get_verify_cap() of a verify cap is a different cap"
    if vv.get_storage_index() != vf.get_storage_index() or not vv.is_readonly():
        return "get_verify_cap() of a verify cap changes storage index / authority"
    return True


# ---------------------------------------------------------------------------------------------------------------
# (b) uri.from_string: prefix x deep_immutable x kind
# ---------------------------------------------------------------------------------------------------------------
PREFIXES = [b"", b"ro.", b"imm."]
IDEAL.reset()
# (string, expected class name or None for unknown formats, is a write cap, refers to a mutable object [per is_mutable()
#  convention: verify caps are not treated as mutable], well-formed)
STRINGS = []
for _k in range(NKIND):
    _row = KINDS[_k]
    STRINGS.append((_cap(_k, 1, 1).to_string(), _row[0], _row[1] == "w", bool(_row[6]), True))
STRINGS += [
    (b"x-tahoe-future-test-writeable:stuff", None, True, True, True),        # documented test hook: a future write cap
    (b"x-tahoe-future-test-mutable:stuff", None, False, True, True),         # a future read cap to a mutable object
    (b"lafs://from_the_future", None, False, False, True),                   # arbitrary unknown format
    (b"URI:SSK:not-base32!", "WriteableSSKFileURI", True, True, False),      # malformed known kinds
    (b"URI:SSK-RO:not-base32!", "ReadonlySSKFileURI", False, True, False),
    (b"URI:CHK:not-base32!", "CHKFileURI", False, False, False),
    (b"URI:DIR2-MDMF:not-base32!", "MDMFDirectoryURI", True, True, False),
]
NSTR = len(STRINGS)
IDEAL.reset()


def h_from_string(p: int, deep: bool, s: int) -> bool:
    """
    pre: 0 <= p < 3 and 0 <= s < NSTR
    pre: B.get("strs") is None or s in B["strs"]
    post: _ == True
    """
    p, s = _conc(p, 3), _conc(s, NSTR)
    IDEAL.reset()
    body, cls_name, is_write, is_mut, wellformed = STRINGS[s]
    text = PREFIXES[p] + body
    r = U.from_string(text, deep_immutable=deep, name=u"child")
    need_ro = p != 0 or deep
    need_imm = p == 2 or deep
    # what the property says, on the result object itself
    if not isinstance(r, U.UnknownURI):
        if need_ro and not r.is_readonly():
            return "alleged read-only / deep-immutable cap interpreted as a write cap"
        if need_imm and r.is_mutable():
            return "alleged immutable / deep-immutable cap interpreted as mutable"
    refused = (need_ro and is_write) or (need_imm and is_mut)
    if refused:
        if not isinstance(r, U.UnknownURI):
            return "constraint violated but the cap was accepted"
        want = MustBeDeepImmutableError if need_imm else MustBeReadonlyError
        if type(r.get_error()) is not want:
            return "refused cap carries the wrong error"
        if r.to_string() != text:
            return "refused cap does not keep the original string"
        if r.get_readonly() is not None or r.get_verify_cap() is not None:
            return "refused cap can be diminished to something"
        return True
    if cls_name is None:
        if type(r) is not U.UnknownURI or r.get_error() is not None:
            return "unknown cap format not passed through as an error-free UnknownURI"
        if r.to_string() != text:
            return "UnknownURI.to_string() is not the original string including its prefix"
        return True
    if not wellformed:
        if type(r) is not U.UnknownURI or not isinstance(r.get_error(), U.BadURIError):
            return "malformed cap not reported as UnknownURI(BadURIError)"
        if r.to_string() != text:
            return "UnknownURI.to_string() is not the original string including its prefix"
        return True
    if type(r) is not getattr(U, cls_name):
        return "constraint met but the cap was parsed to a different class than without the prefix"
    if r.to_string() != body:
        return "constraint met but to_string() differs from the unprefixed cap"
    return True


# ---------------------------------------------------------------------------------------------------------------
# (c) UnknownNode.__init__ / strip_prefix_for_ro
# ---------------------------------------------------------------------------------------------------------------
_WCAP = STRINGS[0][0]       # URI:SSK:
_RCAP = STRINGS[1][0]       # URI:SSK-RO:
_ICAP = STRINGS[6][0]       # URI:CHK:
_FUT = b"lafs://from_the_future"
_FUTW = b"x-tahoe-future-test-writeable:stuff"
_FUTM = b"x-tahoe-future-test-mutable:stuff"
GIVEN = [None, b"",
         _FUT, b"ro." + _FUT, b"imm." + _FUT,
         _FUTW, b"ro." + _FUTW, b"imm." + _FUTW,
         _FUTM, b"ro." + _FUTM, b"imm." + _FUTM,
         _WCAP, b"ro." + _WCAP, b"imm." + _WCAP,
         _RCAP, b"ro." + _RCAP, b"imm." + _RCAP,
         _ICAP, b"ro." + _ICAP, b"imm." + _ICAP]
NGIVEN_BASE = len(GIVEN)
# wider table (thorough tier): MDMF, directory, LIT and verifier caps in the slots as well
for _s in (3, 4, 9, 10, 12, 15, 8, 2):
    for _p in (0, 1, 2):
        GIVEN.append(PREFIXES[_p] + STRINGS[_s][0])
NGIVEN = len(GIVEN) if B.get("wide") else NGIVEN_BASE
# bodies that the documentation says are write caps or refer to mutable objects (never acceptable behind "imm.")
_MUTABLE_BODIES = [row[0] for row in STRINGS if row[2] or row[3]]


def _unprefixed(x):
    if x.startswith(b"imm."):
        return x[4:]
    if x.startswith(b"ro."):
        return x[3:]
    return x


def _has_prefix(x):
    return x.startswith(b"imm.") or x.startswith(b"ro.")


def h_unknown_node(rw: int, ro: int, deep: bool) -> bool:
    """
    pre: 0 <= rw < NGIVEN and 0 <= ro < NGIVEN
    pre: B.get("rw") is None or rw in B["rw"]
    pre: B.get("ro") is None or ro in B["ro"]
    post: _ == True
    """
    rw, ro = _conc(rw, NGIVEN), _conc(ro, NGIVEN)
    IDEAL.reset()
    g_rw, g_ro = GIVEN[rw], GIVEN[ro]
    n = UNK.UnknownNode(g_rw, g_ro, deep_immutable=deep, name=u"child")
    have_rw, have_ro = bool(g_rw), bool(g_ro)
    if n.error is not None:
        if n.rw_uri is not None or n.ro_uri is not None:
            return "node with an error is not opaque"
        if n.get_uri() is not None or n.get_write_uri() is not None or n.get_readonly_uri() is not None:
            return "node with an error hands out a cap"
        if n.is_alleged_immutable() or n.is_allowed_in_immutable_directory():
            return "node with an error claims to be immutable"
        if not isinstance(n.error, (MustNotBeUnknownRWError, MustBeDeepImmutableError, MustBeReadonlyError, U.BadURIError)):
            return "unexpected error class"
    # a single unprefixed cap in the rw slot cannot be diminished: it must be refused
    if have_rw and not have_ro and not _has_prefix(g_rw) and n.error is None:
        return "single unprefixed cap of unknown strength accepted"
    if n.error is not None:
        return True
    # --- no error from here on ---
    if n.rw_uri is not None:
        if deep:
            return "deep-immutable node keeps a write cap"
        if n.rw_uri != g_rw:
            return "rw_uri is not the given rw cap"
    if n.ro_uri is not None:
        if deep and not n.ro_uri.startswith(b"imm."):
            return "deep-immutable node: ro_uri not marked imm."
        if not _has_prefix(n.ro_uri):
            return "ro_uri carries neither ro. nor imm."
        src = g_ro if have_ro else g_rw
        if src is None or _unprefixed(n.ro_uri) != _unprefixed(src):
            return "ro_uri is not the given cap"
        if src.startswith(b"imm.") and not n.ro_uri.startswith(b"imm."):
            return "an imm. allegation was weakened"
    else:
        if have_ro:
            return "given ro cap dropped without an error"
    if n.is_alleged_immutable():
        if n.rw_uri is not None or (n.ro_uri is not None and not n.ro_uri.startswith(b"imm.")):
            return "is_alleged_immutable() although a write cap or a non-imm. read cap is held"
    else:
        if deep:
            return "deep-immutable error-free node is not alleged immutable"
    if n.is_allowed_in_immutable_directory() and n.rw_uri is not None:
        return "node with a write cap allowed in an immutable directory"
    # whatever ends up in ro_uri is never interpreted as a write cap, nor as mutable when marked imm.
    if n.ro_uri is not None:
        if n.ro_uri.startswith(b"imm.") and _unprefixed(n.ro_uri) in _MUTABLE_BODIES:
            return "error-free node marks as imm. a cap that is known to be mutable"
        c = U.from_string(n.ro_uri)
        if not isinstance(c, U.UnknownURI):
            if not c.is_readonly():
                return "ro_uri parses to a write cap"
            if n.ro_uri.startswith(b"imm.") and c.is_mutable():
                return "imm. ro_uri parses to a mutable cap"
        # (an UnknownURI - with or without error - is not interpreted as anything: no authority)
        # store (pack_children uses strip_prefix_for_ro) and load again in the same context: nothing gained or lost
        stored = UNK.strip_prefix_for_ro(n.ro_uri, deep)
        if stored.startswith(b"ro."):
            return "strip_prefix_for_ro leaves a ro. prefix"
        if deep and stored.startswith(b"imm."):
            return "strip_prefix_for_ro leaves imm. in a deep-immutable context"
        if not deep and n.ro_uri.startswith(b"imm.") and not stored.startswith(b"imm."):
            return "strip_prefix_for_ro drops imm. in a mutable context"
        n2 = UNK.UnknownNode(n.rw_uri, stored, deep_immutable=deep, name=u"child")
        if n2.error is not None or n2.rw_uri != n.rw_uri or n2.ro_uri != n.ro_uri:
            return "store + load of an unknown node changes its caps"
    return True


# ---------------------------------------------------------------------------------------------------------------
# (d) NodeMaker.create_from_cap
# ---------------------------------------------------------------------------------------------------------------
class _FakeNode(object):
    def __init__(self, tag, cap):
        self.tag = tag
        self.cap = cap

    def is_mutable(self):
        return self.cap.is_mutable()

    def is_readonly(self):
        return self.cap.is_readonly()

    def get_cap(self):
        return self.cap

    def get_storage_index(self):
        return self.cap.get_storage_index()


class _RecordingMaker(NM.NodeMaker):
    def _create_lit(self, cap):
        return _FakeNode("lit", cap)

    def _create_immutable(self, cap):
        return _FakeNode("immutable", cap)

    def _create_immutable_verifier(self, cap):
        return _FakeNode("immutable-verifier", cap)

    def _create_mutable(self, cap):
        return _FakeNode("mutable", cap)

    def _create_dirnode(self, filenode):
        return _FakeNode("dir:" + filenode.tag, U.wrap_dirnode_cap(filenode.cap))


# cap strings for create_from_cap: index -> (string, is write cap, is mutable, node-producing)
NM_STR = [None, b""] + [PREFIXES[_p] + STRINGS[_s][0] for _s in (0, 1, 3, 4, 6, 7, 8, 9, 10, 12, 13, 15, 17, 18, 19, 20) for _p in (0, 1, 2)]
NNM = len(NM_STR)


def _facts(text):
    """(unprefixed body, prefix index, row of STRINGS) for a cap string used in h_nodemaker."""
    for pi in (2, 1):
        if text.startswith(PREFIXES[pi]):
            body = text[len(PREFIXES[pi]):]
            break
    else:
        pi, body = 0, text
    for row in STRINGS:
        if row[0] == body:
            return body, pi, row
    raise hlib.HarnessError("unknown table string")


def h_nodemaker(w: int, r: int, deep: bool, prime: bool) -> bool:
    """
    pre: 0 <= w < NNM and 0 <= r < NNM
    pre: B.get("w") is None or w in B["w"]
    pre: B.get("r") is None or r in B["r"]
    post: _ == True
    """
    w, r = _conc(w, NNM), _conc(r, NNM)
    IDEAL.reset()
    wc, rc = NM_STR[w], NM_STR[r]
    nm = _RecordingMaker(None, None, None, None, None, {"k": 3, "n": 10}, None, None)
    if prime:
        # the same caps were asked for before in the opposite context (fills the NodeMaker's node cache)
        primed = nm.create_from_cap(wc, rc, deep_immutable=not deep, name=u"child")
    node = nm.create_from_cap(wc, rc, deep_immutable=deep, name=u"child")
    if not wc and not rc:
        if not isinstance(node, UNK.UnknownNode) or node.rw_uri is not None or node.ro_uri is not None:
            return "no cap given but a node with authority came back"
        return True
    body, pi, row = _facts(wc or rc)
    need_ro = pi != 0 or deep
    need_imm = pi == 2 or deep
    if (need_ro and row[2]) or (need_imm and row[3]):
        # the cap that would be used violates its context: nothing but an opaque error node may come back
        if not isinstance(node, UNK.UnknownNode):
            return "cap violating its constraint produced a known node"
        if node.error is not None:
            if node.rw_uri is not None or node.ro_uri is not None:
                return "error node is not opaque"
            return True
        if deep:
            return "deep-immutable context: a mutable / write cap did not produce an error node"
        # not deep, no error: the strings are kept uninterpreted; whatever was marked ro./imm. must still be marked
        if node.rw_uri is not None and node.rw_uri != wc:
            return "unknown node: rw_uri is not the given string"
        if node.ro_uri is not None:
            src = rc if rc else wc
            if _unprefixed(node.ro_uri) != _unprefixed(src) or not _has_prefix(node.ro_uri):
                return "unknown node: ro_uri is not the given cap with a ro./imm. mark"
            if src.startswith(b"imm.") and not node.ro_uri.startswith(b"imm."):
                return "unknown node: imm. mark weakened"
        return True
    if isinstance(node, UNK.UnknownNode):
        if deep and node.error is None:
            if node.rw_uri is not None:
                return "deep-immutable unknown node keeps a write cap"
            if node.ro_uri is not None and not node.ro_uri.startswith(b"imm."):
                return "deep-immutable unknown node not marked imm."
        chosen = wc or rc
        body, pi, row = _facts(chosen)
        if row[1] is not None and row[4] and node.error is None:
            need_ro = pi != 0 or deep
            need_imm = pi == 2 or deep
            if not ((need_ro and row[2]) or (need_imm and row[3])):
                return "a well-formed known cap that meets its constraints became an unknown node"
        return True
    if not isinstance(node, _FakeNode):
        raise hlib.HarnessError("unexpected node type")
    # a known node was built: from which string?
    chosen = wc or rc            # the documented rule: the write cap is preferred when present
    body, pi, row = _facts(chosen)
    if node.cap.to_string() != body:
        return "node built from a different cap than 'writecap or readcap'"
    need_ro = pi != 0 or deep
    need_imm = pi == 2 or deep
    if need_ro and not node.is_readonly():
        return "read-only / deep-immutable context produced a writeable node"
    if need_imm and node.is_mutable():
        return "deep-immutable context produced a mutable node"
    if (need_ro and row[2]) or (need_imm and row[3]):
        return "cap violating its constraint produced a known node"
    return True


# ---------------------------------------------------------------------------------------------------------------
# (e) NodeMaker.create_from_cap with a WARM node cache: the bare cap was opened first on the same NodeMaker (and the
#     node is kept alive), then the same cap is presented with a contradicting ro./imm. prefix or in a deep-immutable
#     context.  The cache must not hand the writeable / mutable node back.
# ---------------------------------------------------------------------------------------------------------------
WARM_ROWS = [row for row in STRINGS[:NKIND] if row[4]]          # the 18 well-formed known kinds
NWARM = len(WARM_ROWS)
hlib.encoded(NM.NodeMaker.create_from_cap, NM.NodeMaker._create_from_single_cap)


def h_nodemaker_warm(kind: int, pfx: int, slot: int, warm: int, deep: bool) -> bool:
    """
    pre: 0 <= kind < NWARM and 0 <= pfx <= 2 and 0 <= slot <= 1 and 0 <= warm <= 3
    pre: B.get("kinds") is None or kind in B["kinds"]
    post: _ == True
    """
    kind, pfx, slot, warm = _conc(kind, NWARM), _conc(pfx, 3), _conc(slot, 2), _conc(warm, 4)
    IDEAL.reset()
    row = WARM_ROWS[kind]
    body = row[0]
    text = PREFIXES[pfx] + body
    nm = _RecordingMaker(None, None, None, None, None, {"k": 3, "n": 10}, None, None)
    keep = []
    # warm = 0: cold cache; 1: bare cap opened before as write cap; 2: bare cap opened before in the read slot;
    # 3: opened before in both ways (all earlier nodes are kept alive: the cache is a WeakValueDictionary)
    if warm in (1, 3):
        keep.append(nm.create_from_cap(body, None, deep_immutable=False, name=u"first"))
    if warm in (2, 3):
        keep.append(nm.create_from_cap(None, body, deep_immutable=False, name=u"first"))
    if slot == 0:
        node = nm.create_from_cap(text, None, deep_immutable=deep, name=u"child")
    else:
        node = nm.create_from_cap(None, text, deep_immutable=deep, name=u"child")
    need_ro = pfx != 0 or deep
    need_imm = pfx == 2 or deep
    is_write, is_mut = row[2], row[3]
    if isinstance(node, UNK.UnknownNode):
        if (need_ro and is_write) or (need_imm and is_mut):
            if node.error is None and deep:
                return "deep-immutable context: a mutable / write cap did not produce an error node"
            if node.error is not None and (node.rw_uri is not None or node.ro_uri is not None):
                return "error node is not opaque"
            return True
        # constraints met but no node class exists for this kind (verify caps of mutable objects): an unknown node confers no authority;
        # under deep-immutable it must not keep a write cap and must be marked imm.
        if deep and node.error is None and (node.rw_uri is not None or (node.ro_uri is not None and not node.ro_uri.startswith(b"imm."))):
            return "deep-immutable unknown node keeps a write cap / is not marked imm."
        return True
    if not isinstance(node, _FakeNode):
        raise hlib.HarnessError("unexpected node type")
    if need_ro and not node.is_readonly():
        return "alleged read-only / immutable cap came back as a writeable node%s" % (" (warm cache)" if warm else "")
    if need_imm and node.is_mutable():
        return "alleged immutable cap came back as a mutable node%s" % (" (warm cache)" if warm else "")
    if (need_ro and is_write) or (need_imm and is_mut):
        return "cap violating its constraint produced a known node"
    if node.cap.to_string() != body:
        return "node built from a different cap"
    return True
