"""
Adversarial share image model (shared by C02, C45, C10 gate harnesses).

`Region` is a `bytes` subclass standing for the byte range [off, off+n) of ONE share image
whose contents are chosen by the adversary.  It supports exactly what the real reader code
does with received data (len, truthiness, slicing, concatenation of adjacent ranges), so
that the real `DataSpans` bookkeeping and the real slicing arithmetic
(`hashdata[i+2:i+2+HASH_SIZE]`, ...) run unchanged.  The *meaning* of a range is looked up
in an `Image`:

  * a registered 32-byte hash slot at offset o   -> `_merkle.HV` token with a symbolic id
  * a registered integer field (off, size)       -> `Num` token; the fake `struct.unpack`
                                                     returns its symbolic value
  * a registered opaque blob slot (off, n)       -> `Blob` token with a symbolic content id
  * anything else                                 -> a plain Region (opaque bytes)

Reading an integer field that was not registered returns the image's `junk` value, so code
that reads the wrong offset sees unrelated data rather than a harness error.
"""
import struct as _real_struct
from vlib import hlib
import _merkle as M


def _conc(x):
    """True for a plain Python int (CrossHair's symbolic ints carry their z3 term in .var)"""
    return not hasattr(x, "var")


def _symlen_bool(n):
    if n > 0:
        return True
    return False


class Region(bytes):
    def __new__(cls, image, off, n):
        o = bytes.__new__(cls, b"")
        o.image, o.off, o.n = image, off, n
        return o

    def __len__(self):
        return self.n

    def __bool__(self):
        return _symlen_bool(self.n)

    def __getitem__(self, key):
        if not isinstance(key, slice) or key.step not in (None, 1):
            raise hlib.HarnessError("Region: only plain slices are modelled")
        ln = self.n
        start, stop = key.start, key.stop
        if start is None:
            start = 0
        elif start < 0:
            start = start + ln
            if start < 0:
                start = 0
        elif start > ln:
            start = ln
        if stop is None:
            stop = ln
        elif stop < 0:
            stop = stop + ln
            if stop < 0:
                stop = 0
        elif stop > ln:
            stop = ln
        if stop < start:
            stop = start
        return self.image.view(self.off + start, stop - start)

    def __add__(self, other):
        if isinstance(other, (Region, Num, Blob)) or isinstance(other, M.HV) and hasattr(other, "off"):
            if other.image is self.image and self.off + self.n == other.off:
                return Region(self.image, self.off, self.n + other.n)
        if isinstance(other, bytes) and not isinstance(other, Region) and len(other) == 0:
            return self
        raise hlib.HarnessError("Region: concatenation of non-adjacent ranges is not modelled")

    def __radd__(self, other):
        if isinstance(other, bytes) and len(other) == 0:
            return self
        raise hlib.HarnessError("Region: concatenation of non-adjacent ranges is not modelled")

    def __eq__(self, other):
        if isinstance(other, Region):
            if self.image is other.image:
                return self.off == other.off and self.n == other.n
        raise hlib.HarnessError("Region: content comparison is not modelled")

    def __ne__(self, other):
        return not self.__eq__(other)

    __hash__ = None

    def __repr__(self):
        return "Region(%r,+%r)" % (self.off, self.n)


class Num(Region):
    """integer field; value is image.nums[(off, n)]"""


class Blob(Region):
    """opaque content with identity image.blobs[(off, n)] (a symbolic content id)"""

    _cid = None

    @property
    def cid(self):
        if self._cid is not None:
            return self._cid
        return self.image.blobs[(self.off, self.n)]


class Image(object):
    def __init__(self, junk=0):
        self.hashes = {}     # off -> HV token (32 bytes)
        self.nums = {}       # (off, size) -> symbolic int
        self.blobs = {}      # (off, n) -> symbolic content id
        self.junk = junk

    def put_hash(self, off, tok):
        tok.image, tok.off, tok.n = self, off, 32
        self.hashes[off] = tok

    def view(self, off, n):
        if _conc(off) and _conc(n):
            if n == 32 and off in self.hashes:
                return self.hashes[off]
            if (off, n) in self.nums:
                return Num(self, off, n)
            if (off, n) in self.blobs:
                return Blob(self, off, n)
            return Region(self, off, n)
        # symbolic offset/length: let the solver decide whether it coincides with a registered slot
        for k in self.hashes:
            if n == 32 and off == k:
                return self.hashes[k]
        for (o, sz) in self.nums:
            if n == sz and off == o:
                return Num(self, o, sz)
        for (o, sz) in self.blobs:
            if n == sz and off == o:
                return Blob(self, o, sz)
        return Region(self, off, n)

    def whole(self, n):
        return Region(self, 0, n)


class FakeStructA(object):
    """`struct` stand-in for reader code working on an adversarial Image: unpack() of a Region returns the
    image's symbolic integer fields at the offsets the code actually read (junk for unregistered offsets);
    the length check is the real one."""
    error = _real_struct.error
    calcsize = staticmethod(_real_struct.calcsize)
    _SZ = {"B": 1, "H": 2, "L": 4, "I": 4, "Q": 8}

    @classmethod
    def unpack(cls, fmt, data):
        if isinstance(fmt, bytes):
            fmt = fmt.decode("ascii")
        if not isinstance(data, Region):
            raise hlib.HarnessError("FakeStructA.unpack on %r" % (type(data),))
        body = fmt.lstrip("<>!=@")
        want = _real_struct.calcsize(fmt)
        if len(data) != want:
            raise cls.error("unpack requires a buffer of %d bytes" % want)
        out = []
        pos = data.off
        num = ""
        for ch in body:
            if ch.isdigit():
                num += ch
                continue
            for _ in range(int(num or "1")):
                sz = cls._SZ[ch]
                v = data.image.nums.get((pos, sz))
                if v is None:
                    v = data.image.junk
                out.append(v)
                pos += sz
            num = ""
        return tuple(out)

    @classmethod
    def pack(cls, fmt, *a):
        return _real_struct.pack(fmt, *a)


NOTE = ("adversarial share image (harness/_advshare.py): received data are Region tokens (bytes subclass: offset+length of the "
        "share image); hash slots hold ideal-hash tokens with symbolic ids, integer fields symbolic ints via a struct stand-in")
