"""
Shared helpers for the placement/happiness harnesses (C08, C07, C06): solver-decided
oracles for bipartite matchings and constrained placements on *realised* (concrete)
relations, and construction of concrete relations from symbolic bits.

The oracles are z3 queries in a private z3 context, executed with CrossHair tracing
switched off (the inputs are concrete on each path): "there is a matching of size h"
is SAT and "there is a matching of size h+1" is UNSAT.  No augmenting-path code here.
"""
import itertools

import z3

try:
    from crosshair.tracers import NoTracing
except Exception:  # pragma: no cover
    class NoTracing(object):
        def __enter__(self):
            return self

        def __exit__(self, *a):
            return False

_CTX = z3.Context()
_CACHE = {}


def _plain(x):
    """Concrete python int/bool out of a possibly symbolic value (only used on realised data)."""
    return x


def _matching_solver(edges):
    """edges: list of (left, right) pairs.  Returns (solver, size_expr)."""
    s = z3.Solver(ctx=_CTX)
    xs = {}
    for i, (a, b) in enumerate(edges):
        xs[(a, b)] = z3.Bool("x_%d" % i, ctx=_CTX)
    lefts = sorted(set(a for (a, b) in edges), key=repr)
    rights = sorted(set(b for (a, b) in edges), key=repr)
    for l in lefts:
        mine = [xs[e] for e in edges if e[0] == l]
        if len(mine) > 1:
            s.add(z3.AtMost(*(mine + [1])))
    for r in rights:
        mine = [xs[e] for e in edges if e[1] == r]
        if len(mine) > 1:
            s.add(z3.AtMost(*(mine + [1])))
    size = z3.Sum([z3.If(v, 1, 0) for v in xs.values()]) if xs else z3.IntVal(0, ctx=_CTX)
    return s, size


def max_matching_z3(edges):
    """Size of a maximum matching of the bipartite graph given as a collection of (left, right)
    pairs, decided by z3: largest h with SAT(size == h); UNSAT(size == h + 1) is checked."""
    with NoTracing():
        edges = sorted(set(edges), key=repr)
        key = tuple(edges)
        if key in _CACHE:
            return _CACHE[key]
        if not edges:
            _CACHE[key] = 0
            return 0
        s, size = _matching_solver(edges)
        h = 0
        while True:
            s.push()
            s.add(size == h + 1)
            r = s.check()
            s.pop()
            if r == z3.sat:
                h += 1
                continue
            if r != z3.unsat:
                raise RuntimeError("z3 returned %r in matching oracle" % (r,))
            break
        # h is feasible (h == 0 trivially, or the last SAT answer) and h + 1 is infeasible.
        # A matching of size m contains matchings of every smaller size, so h is the maximum.
        _CACHE[key] = h
        return h


def is_matching(pairs, edges):
    """pairs: iterable of (left, right) that must be edges, left-distinct and right-distinct."""
    pairs = list(pairs)
    es = set(edges)
    if any(p not in es for p in pairs):
        return False
    if len(set(a for a, _ in pairs)) != len(pairs):
        return False
    if len(set(b for _, b in pairs)) != len(pairs):
        return False
    return True


def perms(n):
    return list(itertools.permutations(range(n)))


def pick(options, idx):
    """options[idx] for a symbolic idx, as an if-chain (forks once per option instead of realising)."""
    for i in range(len(options)):
        if idx == i:
            return options[i]
    raise AssertionError("index out of range")


def rel_from_bits(bits, P, S):
    """bits: sequence of booleans, row-major P x S (bit p*S+s <=> peer p holds share s).
    Forks on every bit; returns a concrete list of sets rel[p] = {s,...}."""
    rel = []
    for p in range(P):
        row = set()
        for s in range(S):
            if bits[p * S + s]:
                row.add(s)
        rel.append(row)
    return rel


def bits_zero_beyond(bits, n):
    for i in range(n, len(bits)):
        if bits[i]:
            return False
    return True


def bits_fixed(bits, fix):
    """fix: list of 0/1 pinning the first len(fix) bits (case split)."""
    if not fix:
        return True
    for i, v in enumerate(fix):
        if bool(bits[i]) != bool(v):
            return False
    return True


def rel_str(rel, S):
    return ",".join("".join("1" if s in row else "0" for s in range(S)) for row in rel)
