"""
Shared helpers for the placement/happiness harnesses (C08, C07, C06): solver-decided
oracles for bipartite matchings and constrained placements on *realised* (concrete)
relations, and construction of concrete relations from symbolic bits.

The oracles are z3 queries in a private z3 context, executed with CrossHair tracing
switched off (the inputs are concrete on each path): "there is a matching of size h"
is SAT and "there is a matching of size h+1" is UNSAT.  No augmenting-path code here.
"""
import itertools

import z3

try:
    from crosshair.tracers import NoTracing
except Exception:  # pragma: no cover
    class NoTracing(object):
        def __enter__(self):
            return self

        def __exit__(self, *a):
            return False

_CTX = z3.Context()
_CACHE = {}


_ATOMS = (int, bool, str, bytes, type(None), float)


def _check_concrete(x, depth=0):
    """Called with tracing OFF: every value handed to untraced real code must be a plain builtin."""
    t = type(x)
    if t in _ATOMS:
        return
    if t in (list, tuple, set, frozenset):
        for y in x:
            _check_concrete(y, depth + 1)
        return
    if t is dict:
        for k, v in x.items():
            _check_concrete(k, depth + 1)
            _check_concrete(v, depth + 1)
        return
    if hasattr(x, "__verif_concrete__"):
        for v in vars(x).values():
            _check_concrete(v, depth + 1)
        return
    from vlib.hlib import HarnessError
    raise HarnessError("symbolic or unexpected value %r of type %r reached an untraced call" % (x, t))


def run_concrete(fn, *args, **kw):
    """Run real code on REALISED inputs with CrossHair's opcode tracing switched off.

    On a path where every input has already been made concrete by solver-decided forks, traced and
    untraced execution compute the same thing; untraced is ~1000x faster.  The guard refuses anything
    that is not a plain builtin value (a leaked symbolic would otherwise misbehave silently)."""
    with NoTracing():
        _check_concrete(args)
        _check_concrete(kw)
        return fn(*args, **kw)


def _matching_solver(edges):
    """edges: list of (left, right) pairs.  Returns (solver, size_expr)."""
    s = z3.Solver(ctx=_CTX)
    xs = {}
    for i, (a, b) in enumerate(edges):
        xs[(a, b)] = z3.Bool("x_%d" % i, ctx=_CTX)
    lefts = sorted(set(a for (a, b) in edges), key=repr)
    rights = sorted(set(b for (a, b) in edges), key=repr)
    for l in lefts:
        mine = [xs[e] for e in edges if e[0] == l]
        if len(mine) > 1:
            s.add(z3.AtMost(*(mine + [1])))
    for r in rights:
        mine = [xs[e] for e in edges if e[1] == r]
        if len(mine) > 1:
            s.add(z3.AtMost(*(mine + [1])))
    size = z3.Sum([z3.If(v, 1, 0) for v in xs.values()]) if xs else z3.IntVal(0, ctx=_CTX)
    return s, size


def max_matching_z3(edges):
    """Size of a maximum matching of the bipartite graph given as a collection of (left, right)
    pairs, decided by z3: largest h with SAT(size == h); UNSAT(size == h + 1) is checked."""
    with NoTracing():
        edges = sorted(set(edges), key=repr)
        key = tuple(edges)
        if key in _CACHE:
            return _CACHE[key]
        if not edges:
            _CACHE[key] = 0
            return 0
        s, size = _matching_solver(edges)
        h = 0
        while True:
            s.push()
            s.add(size == h + 1)
            r = s.check()
            s.pop()
            if r == z3.sat:
                h += 1
                continue
            if r != z3.unsat:
                raise RuntimeError("z3 returned %r in matching oracle" % (r,))
            break
        # h is feasible (h == 0 trivially, or the last SAT answer) and h + 1 is infeasible.
        # A matching of size m contains matchings of every smaller size, so h is the maximum.
        _CACHE[key] = h
        return h


def is_matching(pairs, edges):
    """pairs: iterable of (left, right) that must be edges, left-distinct and right-distinct."""
    pairs = list(pairs)
    es = set(edges)
    if any(p not in es for p in pairs):
        return False
    if len(set(a for a, _ in pairs)) != len(pairs):
        return False
    if len(set(b for _, b in pairs)) != len(pairs):
        return False
    return True


def perms(n):
    return list(itertools.permutations(range(n)))


def pick(options, idx):
    """options[idx] for a symbolic idx, as an if-chain (forks once per option instead of realising)."""
    for i in range(len(options)):
        if idx == i:
            return options[i]
    raise AssertionError("index out of range")


def rel_from_bits(bits, P, S):
    """bits: sequence of booleans, row-major P x S (bit p*S+s <=> peer p holds share s).
    Forks on every bit; returns a concrete list of lists rel[p] = [s,...] (plain lists: under CrossHair
    tracing `set()` would create a ShellMutableSet stand-in; real sets are built in untraced code)."""
    rel = []
    for p in range(P):
        row = []
        for s in range(S):
            if bits[p * S + s]:
                row.append(s)
        rel.append(row)
    return rel


def bits_zero_beyond(bits, n):
    for i in range(n, len(bits)):
        if bits[i]:
            return False
    return True


def bits_fixed(bits, fix):
    """fix: list of 0/1 pinning the first len(fix) bits (case split)."""
    if not fix:
        return True
    for i, v in enumerate(fix):
        if bool(bits[i]) != bool(v):
            return False
    return True


def rel_str(rel, S):
    return ",".join("".join("1" if s in row else "0" for s in range(S)) for row in rel)


# ---- constrained placements (C07) -------------------------------------------------------------

_PCACHE = {}


def max_spread_z3(shares, allowed):
    """Largest number of distinct servers used by any total assignment share -> server that only uses
    pairs in `allowed` (a collection of (server, share)); None if no total assignment exists.
    z3: Bool y[server, share] for each allowed pair, exactly one server per share, used[server] <-> OR y;
    the optimum h is the value with SAT(#used >= h) and UNSAT(#used >= h + 1)."""
    with NoTracing():
        shares = sorted(set(shares))
        allowed = sorted(set(allowed), key=repr)
        key = (tuple(shares), tuple(allowed))
        if key in _PCACHE:
            return _PCACHE[key]
        s = z3.Solver(ctx=_CTX)
        y = {}
        for i, (p, sh) in enumerate(allowed):
            y[(p, sh)] = z3.Bool("y_%d" % i, ctx=_CTX)
        for sh in shares:
            mine = [y[e] for e in allowed if e[1] == sh]
            if not mine:
                _PCACHE[key] = None
                return None
            s.add(z3.AtMost(*(mine + [1])))
            s.add(z3.Or(*mine))
        servers = sorted(set(p for (p, _) in allowed), key=repr)
        used = []
        for j, p in enumerate(servers):
            u = z3.Bool("u_%d" % j, ctx=_CTX)
            s.add(u == z3.Or(*[y[e] for e in allowed if e[0] == p]))
            used.append(z3.If(u, 1, 0))
        total = z3.Sum(used)
        h = 0
        while True:
            s.push()
            s.add(total >= h + 1)
            r = s.check()
            s.pop()
            if r == z3.sat:
                h += 1
                continue
            if r != z3.unsat:
                raise RuntimeError("z3 returned %r in placement oracle" % (r,))
            break
        _PCACHE[key] = h
        return h


def max_merged_happiness_z3(shares, allowed, existing):
    """max over total assignments a (within `allowed`) of the maximum matching of existing U a.
    One z3 problem: assignment variables y, matching variables m over (existing U chosen) edges."""
    with NoTracing():
        shares = sorted(set(shares))
        allowed = sorted(set(allowed), key=repr)
        existing = sorted(set(existing), key=repr)
        key = ("h", tuple(shares), tuple(allowed), tuple(existing))
        if key in _PCACHE:
            return _PCACHE[key]
        s = z3.Solver(ctx=_CTX)
        y = {}
        for i, e in enumerate(allowed):
            y[e] = z3.Bool("y_%d" % i, ctx=_CTX)
        for sh in shares:
            mine = [y[e] for e in allowed if e[1] == sh]
            if not mine:
                _PCACHE[key] = None
                return None
            s.add(z3.AtMost(*(mine + [1])))
            s.add(z3.Or(*mine))
        alledges = sorted(set(allowed) | set(existing), key=repr)
        m = {}
        ex = set(existing)
        for i, e in enumerate(alledges):
            m[e] = z3.Bool("m_%d" % i, ctx=_CTX)
            if e not in ex:
                s.add(z3.Implies(m[e], y[e]))      # a non-existing edge can be matched only if it was placed
        for p in sorted(set(p for (p, _) in alledges), key=repr):
            mine = [m[e] for e in alledges if e[0] == p]
            if len(mine) > 1:
                s.add(z3.AtMost(*(mine + [1])))
        for sh in sorted(set(sh for (_, sh) in alledges)):
            mine = [m[e] for e in alledges if e[1] == sh]
            if len(mine) > 1:
                s.add(z3.AtMost(*(mine + [1])))
        total = z3.Sum([z3.If(v, 1, 0) for v in m.values()]) if m else z3.IntVal(0, ctx=_CTX)
        h = 0
        while True:
            s.push()
            s.add(total >= h + 1)
            r = s.check()
            s.pop()
            if r == z3.sat:
                h += 1
                continue
            if r != z3.unsat:
                raise RuntimeError("z3 returned %r in happiness oracle" % (r,))
            break
        _PCACHE[key] = h
        return h
