"""
A small symbolic interpreter for a subset of Python, used to turn the *current source* of byte-string
functions (util.netstring.netstring / split_netstring) into solver queries (engine E2):

  * the function's AST (inspect.getsource of the live module object) is interpreted over z3 terms: byte strings are
    z3 strings (sequences of characters), Python ints are z3 Ints, containers/None/bools stay concrete;
  * every symbolic branch forks (decision-replay, no solver needed while exploring); a path is
    (path condition, outcome) with outcome = ("return", value) | ("raise", exception name) | ("unsupported", why);
  * obligations are discharged per path: pre /\\ path-condition /\\ not post(outcome) must be unsat (cvc5 with
    --strings-exp through SMT-LIB text; z3 as cross-check when it answers).

Python semantics that are made explicit (and where the encoding refuses instead of guessing):
  b"%d" % n          n >= 0: the canonical decimal numeral (fresh string L with L in 0|[1-9][0-9]* and str.to_int(L) = n); n < 0: unsupported
  int(b)             b in [0-9]+ : str.to_int(b); anything else (sign, blanks, underscores, garbage): unsupported
  b[i:j]             i, j >= 0 (or None): str.substr(b, i, j-i) (== Python clipping); negative bounds: unsupported
  b[i]               0 <= i < len(b): the code of str.at(b, i); i >= len(b): IndexError; i < 0: unsupported
  b.index(sub, i)    i >= 0: str.indexof >= 0, else ValueError; i < 0: unsupported
An "unsupported" path makes the obligation inconclusive unless its path condition is unsatisfiable under the precondition.
"""
import ast
import inspect
import os
import re
import subprocess
import sys
import tempfile
import textwrap
import time

import z3


class Unsupported(Exception):
    pass


class _Return(Exception):
    def __init__(self, value):
        self.value = value


class _Raise(Exception):
    def __init__(self, name):
        self.name = name


class _Break(Exception):
    pass


class SymBytes(object):
    """a Python bytes value represented by a z3 string term"""
    __slots__ = ("t",)

    def __init__(self, t):
        self.t = t

    def __repr__(self):
        return "SymBytes(%s)" % (self.t,)


class SymByte(object):
    """result of b[i] (an int 0..255): represented by the 1-character string term"""
    __slots__ = ("t",)

    def __init__(self, t):
        self.t = t


def _is_sym(x):
    return isinstance(x, (z3.ExprRef, SymBytes, SymByte))


_DIGIT = z3.Range("0", "9")
CANON_NUM = z3.Union(z3.Re("0"), z3.Concat(z3.Range("1", "9"), z3.Star(_DIGIT)))
DIGITS = z3.Plus(_DIGIT)
NUMERAL_LEMMA_SEPARATORS = (":", ",")


def to_term(x):
    if isinstance(x, SymBytes):
        return x.t
    if isinstance(x, bytes):
        return z3.StringVal(x.decode("latin-1"))
    raise Unsupported("not a byte string: %r" % (x,))


class Path(object):
    def __init__(self, pc, outcome, extra, trace=()):
        self.pc = pc                # list of z3 BoolRef
        self.outcome = outcome      # ("return", v) | ("raise", name) | ("unsupported", why)
        self.extra = extra          # definitional constraints of fresh variables (always conjoined)
        self.trace = list(trace)    # assignments of symbolic values: (variable, occurrence, z3 term, number of path conditions before it)

    def __repr__(self):
        return "Path(%s, %d conds)" % (self.outcome[:2], len(self.pc))


class Interp(object):
    def __init__(self, fn, loop_bound=8):
        raw = fn
        while hasattr(raw, "__wrapped__"):
            raw = raw.__wrapped__
        self.fn = raw
        src = textwrap.dedent(inspect.getsource(raw))
        self.src = src
        self.tree = ast.parse(src).body[0]
        if not isinstance(self.tree, ast.FunctionDef):
            raise Unsupported("not a plain function")
        self.globals = raw.__globals__
        self.loop_bound = loop_bound
        self.fresh = 0

    # ---- exploration ---------------------------------------------------------------------------
    def explore(self, args, max_paths=200):
        """args: dict name -> value (concrete, z3 Int, SymBytes). Returns list of Path."""
        work = [[]]
        paths = []
        while work:
            prefix = work.pop()
            self.prefix = prefix
            self.k = 0
            self.taken = []
            self.decided = {}
            self.trace = []
            self.pc = []
            self.extra = []
            self.pending = []
            self.fresh_path = 0
            try:
                env = self._bind(args)
                self._block(self.tree.body, env)
                outcome = ("return", None)
            except _Return as r:
                outcome = ("return", r.value)
            except _Raise as r:
                outcome = ("raise", r.name)
            except Unsupported as u:
                outcome = ("unsupported", str(u))
            paths.append(Path(list(self.pc), outcome, list(self.extra), list(self.trace)))
            work.extend(self.pending)
            if len(paths) > max_paths:
                raise Unsupported("more than %d paths" % max_paths)
        return paths

    def _bind(self, args):
        env = {}
        a = self.tree.args
        names = [x.arg for x in a.args]
        defaults = [None] * (len(names) - len(a.defaults)) + list(a.defaults)
        for (n, d) in zip(names, defaults):
            if n in args:
                env[n] = args[n]
            elif d is not None:
                env[n] = self._expr(d, env)
            else:
                raise Unsupported("missing argument %s" % n)
        return env

    def choose(self, cond):
        """decide a branch condition; symbolic conditions fork"""
        if isinstance(cond, bool):
            return cond
        if isinstance(cond, z3.BoolRef):
            c = z3.simplify(cond)
            if z3.is_true(c):
                return True
            if z3.is_false(c):
                return False
            key = c.sexpr()
            if key in self.decided:
                return self.decided[key]
            if self.k < len(self.prefix):
                d = self.prefix[self.k]
            else:
                d = True
                self.pending.append(self.taken + [False])
            self.k += 1
            self.taken.append(d)
            self.pc.append(c if d else z3.Not(c))
            self.decided[key] = d
            return d
        if cond is None or isinstance(cond, (int, list, tuple, bytes, str, dict)):
            return bool(cond)
        raise Unsupported("truth value of %r" % (cond,))

    def require(self, cond, why):
        """the encoding only covers `cond`; the other side becomes an 'unsupported' path"""
        if not self.choose(cond):
            raise Unsupported(why)

    def new_str(self, hint):
        self.fresh += 1
        self.fresh_path += 1
        return z3.String("_%s_%d_%d" % (hint, len(self.prefix), self.fresh_path))

    # ---- statements ----------------------------------------------------------------------------
    def _block(self, stmts, env):
        for st in stmts:
            self._stmt(st, env)

    def _stmt(self, st, env):
        if isinstance(st, ast.Expr):
            if isinstance(st.value, ast.Constant) and isinstance(st.value.value, str):
                return  # docstring
            self._expr(st.value, env)
        elif isinstance(st, ast.Assert):
            if not self.choose(self._expr(st.test, env)):
                raise _Raise("AssertionError")
        elif isinstance(st, ast.Assign):
            v = self._expr(st.value, env)
            for tg in st.targets:
                self._assign(tg, v, env)
        elif isinstance(st, ast.AugAssign):
            cur = self._expr(ast.Name(id=st.target.id, ctx=ast.Load()), env) if isinstance(st.target, ast.Name) else None
            if cur is None:
                raise Unsupported("augmented assignment target")
            env[st.target.id] = self._binop(st.op, cur, self._expr(st.value, env))
            self._record(st.target.id, env[st.target.id])
        elif isinstance(st, ast.If):
            if self.choose(self._expr(st.test, env)):
                self._block(st.body, env)
            else:
                self._block(st.orelse, env)
        elif isinstance(st, ast.While):
            n = 0
            try:
                while self.choose(self._expr(st.test, env)):
                    n += 1
                    if n > self.loop_bound:
                        raise Unsupported("loop bound %d exceeded" % self.loop_bound)
                    self._block(st.body, env)
                else:
                    self._block(st.orelse, env)
            except _Break:
                pass
        elif isinstance(st, ast.Break):
            raise _Break()
        elif isinstance(st, ast.Return):
            raise _Return(self._expr(st.value, env) if st.value is not None else None)
        elif isinstance(st, ast.Raise):
            exc = st.exc
            name = None
            if isinstance(exc, ast.Call) and isinstance(exc.func, ast.Name):
                name = exc.func.id
            elif isinstance(exc, ast.Name):
                name = exc.id
            if name is None:
                raise Unsupported("raise of a computed exception")
            raise _Raise(name)
        elif isinstance(st, ast.Pass):
            pass
        else:
            raise Unsupported("statement %s" % type(st).__name__)

    def _record(self, name, v):
        t = v.t if isinstance(v, (SymBytes, SymByte)) else v
        if isinstance(t, z3.ExprRef):
            occ = sum(1 for x in self.trace if x[0] == name)
            self.trace.append((name, occ, t, len(self.pc)))

    def _assign(self, tg, v, env):
        if isinstance(tg, ast.Name):
            env[tg.id] = v
            self._record(tg.id, v)
        elif isinstance(tg, (ast.Tuple, ast.List)):
            if not isinstance(v, (tuple, list)) or len(v) != len(tg.elts):
                raise Unsupported("unpacking")
            for (t, x) in zip(tg.elts, v):
                self._assign(t, x, env)
        else:
            raise Unsupported("assignment target %s" % type(tg).__name__)

    # ---- expressions ---------------------------------------------------------------------------
    def _expr(self, e, env):
        if isinstance(e, ast.Constant):
            return e.value
        if isinstance(e, ast.Name):
            if e.id in env:
                return env[e.id]
            if e.id in self.globals:
                return self.globals[e.id]
            import builtins
            if hasattr(builtins, e.id):
                return getattr(builtins, e.id)
            raise Unsupported("name %s" % e.id)
        if isinstance(e, ast.Tuple):
            return tuple(self._expr(x, env) for x in e.elts)
        if isinstance(e, ast.List):
            return [self._expr(x, env) for x in e.elts]
        if isinstance(e, ast.BinOp):
            return self._binop(e.op, self._expr(e.left, env), self._expr(e.right, env))
        if isinstance(e, ast.UnaryOp):
            v = self._expr(e.operand, env)
            if isinstance(e.op, ast.Not):
                if isinstance(v, z3.BoolRef):
                    return z3.Not(v)
                return not self.choose(v)
            if isinstance(e.op, ast.USub):
                return -v
            raise Unsupported("unary op")
        if isinstance(e, ast.BoolOp):
            # short-circuit with forking (Python semantics: the value is only used as a truth value here)
            if isinstance(e.op, ast.And):
                for x in e.values:
                    if not self.choose(self._expr(x, env)):
                        return False
                return True
            for x in e.values:
                if self.choose(self._expr(x, env)):
                    return True
            return False
        if isinstance(e, ast.Compare):
            left = self._expr(e.left, env)
            result = True
            for (op, rhs) in zip(e.ops, e.comparators):
                right = self._expr(rhs, env)
                c = self._compare(op, left, right)
                if len(e.ops) == 1:
                    return c
                if not self.choose(c):
                    return False
                left = right
            return result
        if isinstance(e, ast.Call):
            return self._call(e, env)
        if isinstance(e, ast.Subscript):
            return self._subscript(self._expr(e.value, env), e.slice, env)
        raise Unsupported("expression %s" % type(e).__name__)

    def _compare(self, op, a, b):
        if isinstance(op, ast.Is):
            if _is_sym(a) or _is_sym(b):
                return False if (a is None or b is None) else (a is b)
            return a is b
        if isinstance(op, ast.IsNot):
            r = self._compare(ast.Is(), a, b)
            return not r
        if isinstance(a, SymByte) or isinstance(b, SymByte):
            if isinstance(b, SymByte):
                a, b = b, a
            if not isinstance(b, int):
                raise Unsupported("byte compared with %r" % (b,))
            eq = a.t == z3.StringVal(chr(b))
            if isinstance(op, ast.Eq):
                return eq
            if isinstance(op, ast.NotEq):
                return z3.Not(eq)
            raise Unsupported("ordering of bytes")
        if isinstance(a, (SymBytes, bytes)) and isinstance(b, (SymBytes, bytes)) and (isinstance(a, SymBytes) or isinstance(b, SymBytes)):
            eq = to_term(a) == to_term(b)
            if isinstance(op, ast.Eq):
                return eq
            if isinstance(op, ast.NotEq):
                return z3.Not(eq)
            raise Unsupported("ordering of byte strings")
        if isinstance(a, (SymBytes, SymByte)) or isinstance(b, (SymBytes, SymByte)):
            raise Unsupported("comparison of %r and %r" % (a, b))
        table = {ast.Eq: lambda x, y: x == y, ast.NotEq: lambda x, y: x != y, ast.Lt: lambda x, y: x < y,
                 ast.LtE: lambda x, y: x <= y, ast.Gt: lambda x, y: x > y, ast.GtE: lambda x, y: x >= y}
        f = table.get(type(op))
        if f is None:
            raise Unsupported("comparison operator")
        return f(a, b)

    def _binop(self, op, a, b):
        if isinstance(op, ast.Add):
            if isinstance(a, (SymBytes, bytes)) and isinstance(b, (SymBytes, bytes)):
                if isinstance(a, bytes) and isinstance(b, bytes):
                    return a + b
                return SymBytes(z3.Concat(to_term(a), to_term(b)))
            if isinstance(a, (SymBytes, SymByte)) or isinstance(b, (SymBytes, SymByte)):
                raise Unsupported("+ on %r, %r" % (a, b))
            return a + b
        if isinstance(op, ast.Sub):
            return a - b
        if isinstance(op, ast.Mod) and isinstance(a, bytes):
            return self._format(a, b)
        raise Unsupported("binary operator %s" % type(op).__name__)

    def _format(self, fmt, args):
        if not isinstance(args, tuple):
            args = (args,)
        parts = re.split(rb"(%[ds])", fmt)
        out = []
        i = 0
        for p in parts:
            if p in (b"%d", b"%s"):
                if i >= len(args):
                    raise Unsupported("format arity")
                v = args[i]
                i += 1
                if p == b"%d":
                    if isinstance(v, int):
                        out.append(z3.StringVal(str(v)))
                    elif isinstance(v, z3.ArithRef):
                        self.require(v >= 0, "%d of a negative number")
                        L = self.new_str("num")
                        self.extra.append(z3.InRe(L, CANON_NUM))
                        self.extra.append(z3.StrToInt(L) == v)
                        for sep in NUMERAL_LEMMA_SEPARATORS:
                            # redundant consequences of L in 0|[1-9][0-9]* (they help the string solver with indexof)
                            self.extra.append(z3.Not(z3.Contains(L, z3.StringVal(sep))))
                        self.extra.append(z3.Length(L) >= 1)
                        out.append(L)
                    else:
                        raise Unsupported("%%d of %r" % (v,))
                else:
                    out.append(to_term(v))
            elif p:
                if b"%" in p:
                    raise Unsupported("format directive in %r" % (p,))
                out.append(z3.StringVal(p.decode("latin-1")))
        if i != len(args):
            raise Unsupported("format arity")
        if len(out) == 1:
            return SymBytes(out[0])
        return SymBytes(z3.Concat(*out))

    def _call(self, e, env):
        if isinstance(e.func, ast.Attribute):
            obj = self._expr(e.func.value, env)
            args = [self._expr(a, env) for a in e.args]
            if isinstance(obj, list) and e.func.attr == "append":
                obj.append(args[0])
                return None
            if isinstance(obj, (SymBytes, bytes)) and e.func.attr == "index":
                if isinstance(obj, bytes) and not any(_is_sym(a) for a in args):
                    try:
                        return obj.index(*args)
                    except ValueError:
                        raise _Raise("ValueError")
                start = args[1] if len(args) > 1 else 0
                if len(args) > 2:
                    raise Unsupported("index with end")
                self.require(start >= 0 if _is_sym(start) else bool(start >= 0), "index() from a negative start")
                idx = z3.IndexOf(to_term(obj), to_term(args[0]), start if _is_sym(start) else z3.IntVal(start))
                if self.choose(idx >= 0):
                    return idx
                raise _Raise("ValueError")
            raise Unsupported("method %s" % e.func.attr)
        f = self._expr(e.func, env)
        args = [self._expr(a, env) for a in e.args]
        if e.keywords:
            raise Unsupported("keyword arguments")
        if f is len:
            x = args[0]
            if isinstance(x, SymBytes):
                return z3.Length(x.t)
            return len(x)
        if f is isinstance:
            x, t = args
            if isinstance(x, SymBytes):
                return (t is bytes) or (isinstance(t, tuple) and bytes in t)
            if isinstance(x, z3.ArithRef):
                return (t is int) or (isinstance(t, tuple) and int in t)
            return isinstance(x, t)
        if f is int:
            x = args[0]
            if isinstance(x, SymBytes):
                self._record("int()", x)
                self.require(z3.InRe(x.t, DIGITS), "int() of something that is not a plain digit string")
                return z3.StrToInt(x.t)
            if _is_sym(x):
                raise Unsupported("int() of %r" % (x,))
            try:
                return int(x)
            except ValueError:
                raise _Raise("ValueError")
        if inspect.isfunction(f):
            # call into another pure-Python function of the module (e.g. netstring): interpret it inline
            sub = Interp(f, self.loop_bound)
            sub.pc, sub.extra, sub.trace = self.pc, self.extra, []
            sub.choose = self.choose
            sub.require = self.require
            sub.new_str = self.new_str
            names = [a.arg for a in sub.tree.args.args]
            try:
                sub._block(sub.tree.body, sub._bind(dict(zip(names, args))))
                return None
            except _Return as r:
                return r.value
        raise Unsupported("call of %r" % (f,))

    def _subscript(self, obj, sl, env):
        if isinstance(sl, ast.Slice):
            if sl.step is not None:
                raise Unsupported("slice step")
            lo = self._expr(sl.lower, env) if sl.lower is not None else 0
            hi = self._expr(sl.upper, env) if sl.upper is not None else None
            if isinstance(obj, bytes) and not _is_sym(lo) and not _is_sym(hi):
                return obj[lo:hi]
            if not isinstance(obj, (SymBytes, bytes)):
                raise Unsupported("slice of %r" % (obj,))
            t = to_term(obj)
            if _is_sym(lo):
                self.require(lo >= 0, "negative slice start")
            elif lo < 0:
                raise Unsupported("negative slice start")
            if hi is None:
                hi = z3.Length(t)
            elif _is_sym(hi):
                self.require(hi >= 0, "negative slice end")
            elif hi < 0:
                raise Unsupported("negative slice end")
            return SymBytes(z3.SubString(t, lo, hi - lo))
        idx = self._expr(sl, env)
        if isinstance(obj, (list, tuple)) and isinstance(idx, int):
            return obj[idx]
        if isinstance(obj, bytes) and isinstance(idx, int):
            return obj[idx]
        if isinstance(obj, (SymBytes, bytes)):
            t = to_term(obj)
            self.require(idx >= 0, "negative index")
            if not self.choose(idx < z3.Length(t)):
                raise _Raise("IndexError")
            return SymByte(z3.SubString(t, idx, 1))
        raise Unsupported("subscript of %r" % (obj,))


# ---------------------------------------------------------------------------------------------------
# solving
# ---------------------------------------------------------------------------------------------------

_CVC5_DRIVER = r'''
import sys, cvc5
slv = cvc5.Solver()
slv.setOption("strings-exp", "true")
slv.setOption("produce-models", "true")
slv.setOption("tlimit", sys.argv[2])
slv.setOption("seed", sys.argv[3])
p = cvc5.InputParser(slv)
p.setFileInput(cvc5.InputLanguage.SMT_LIB_2_6, sys.argv[1])
sm = p.getSymbolManager()
while True:
    c = p.nextCommand()
    if c.isNull():
        break
    r = c.invoke(slv, sm)
    if r.strip():
        print(r.strip())
'''


def _smt_unescape(s):
    s = s.replace('""', '"')
    return re.sub(r"\\u\{([0-9a-fA-F]+)\}", lambda m: chr(int(m.group(1), 16)), s)


def solve(constraints, variables, timeout_s=60, seed=0, workdir=None, use_z3=True):
    """
    Decide satisfiability of the conjunction with cvc5 (SMT-LIB text generated by z3's printer).
    Returns (status, model) with status in 'unsat' | 'sat' | 'unknown'; model = {name: python value} for `variables` on sat.
    z3 is run as well with a short timeout; a disagreement yields 'unknown'.
    """
    s = z3.Solver()
    s.add(*constraints)
    text = "(set-logic ALL)\n(set-option :produce-models true)\n" + s.to_smt2()
    if variables:
        text += "(get-value (%s))\n" % " ".join(v.sexpr() for v in variables)
    fd, path = tempfile.mkstemp(suffix=".smt2", dir=workdir)
    with os.fdopen(fd, "w") as f:
        f.write(text)
    t0 = time.time()
    try:
        p = subprocess.run([sys.executable, "-c", _CVC5_DRIVER, path, str(int(timeout_s * 1000)), str(int(seed) % (2 ** 31))],
                           capture_output=True, text=True, timeout=timeout_s + 30)
        out = p.stdout.strip()
        err = p.stderr
    except subprocess.TimeoutExpired:
        out, err = "unknown", "cvc5 wall timeout"
    finally:
        try:
            os.unlink(path)
        except OSError:
            pass
    lines = out.splitlines()
    status = lines[0].strip() if lines else "unknown"
    if status not in ("sat", "unsat"):
        status = "unknown"
    # get-value after an unsat answer is an error by definition; any other error line invalidates the answer
    errs = [ln for ln in lines[1:] if "(error" in ln and "cannot get value unless" not in ln.lower() and "cannot get model" not in ln.lower()]
    if status == "unsat":
        errs = [ln for ln in errs if "unless after a sat" not in ln.lower() and "get-value" not in ln.lower() and "model" not in ln.lower()]
    if errs or "Traceback" in err:
        status = "unknown"
    model = {}
    if status == "sat":
        body = "\n".join(lines[1:])
        for v in variables:
            name = v.sexpr()
            m = re.search(r"\(%s\s+(\"(?:[^\"]|\"\")*\"|\(-\s*\d+\)|-?\d+|true|false)\)" % re.escape(name), body)
            if not m:
                continue
            val = m.group(1)
            if val.startswith('"'):
                model[str(v)] = _smt_unescape(val[1:-1])
            elif val in ("true", "false"):
                model[str(v)] = (val == "true")
            else:
                model[str(v)] = int(val.replace("(", "").replace(")", "").replace(" ", ""))
    info = {"cvc5_s": round(time.time() - t0, 2)}
    if status == "unknown":
        info["solver_output"] = (out + " | " + err)[-300:]
    if use_z3 and status != "unknown":
        s2 = z3.Solver()
        s2.set("timeout", 5000)
        s2.set("random_seed", int(seed) % (2 ** 31))
        s2.add(*constraints)
        r = str(s2.check())
        info["z3"] = r
        if r in ("sat", "unsat") and r != status:
            status = "unknown"
            info["disagreement"] = True
    return status, model, info


class Prover(object):
    """
    Discharges per-path obligations with staged lemmas: `hint(variable, occurrence)` may give the expected value of an
    intermediate assignment; the equality is first PROVED from the precondition, the path conditions decided before the
    assignment and the lemmas proved so far, and only then assumed (cut rule: only proved facts are ever added).
    """

    def __init__(self, pre, timeout_s=60, seed=0, workdir=None):
        self.pre = list(pre)
        self.timeout_s, self.seed, self.workdir = timeout_s, seed, workdir
        self.cache = {}
        self.queries = 0
        self.solver_s = 0.0

    def check(self, cons, variables=()):
        key = tuple(sorted(c.sexpr() for c in cons))
        if key in self.cache and not variables:
            return self.cache[key]
        st, model, info = solve(self.pre + list(cons), list(variables), timeout_s=self.timeout_s, seed=self.seed, workdir=self.workdir)
        self.queries += 1
        self.solver_s += info.get("cvc5_s", 0)
        self.cache[key] = (st, model, info)
        return st, model, info

    def lemmas(self, path, hint):
        out = []
        for (name, occ, term, npc) in path.trace:
            exp = hint(name, occ) if hint else None
            if exp is None:
                continue
            lemma = term == exp
            st, _m, _i = self.check(path.extra + path.pc[:npc] + out + [z3.Not(lemma)])
            if st == "unsat":
                out.append(lemma)
        return out
