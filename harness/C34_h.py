"""
C34 — introducer announcements are authentic and fresh.

Real code executed: IntroducerClient.got_announcements / _process_announcement / _deliver_announcements,
introducer.common.unsign_from_foolscap, IntroducerService._publish (server side of the same rule).

Ideal signatures: ed25519.verify_signature is a symbolic Boolean per announcement (raises BadSignature when
False); everything else of allmydata.crypto.ed25519 (key parsing) is the real module.  Announcement bodies are
dicts whose sequence numbers are symbolic integers (one-step obligations) or concrete JSON documents (batch obligations).
"""
import json as _json
from vlib import hlib
from vlib.hlib import NS, assume
hlib.ensure_shims()
from allmydata.introducer import client as client_mod, common as common_mod, server as server_mod
from allmydata.introducer.client import IntroducerClient
from allmydata.crypto import ed25519 as real_ed25519
from allmydata.crypto.error import BadSignature
from allmydata.util import base32
from allmydata.util.observer import ObserverList

B = hlib.bounds()
NOTES = [
    "IntroducerClient built without its constructor (no Tub): _local_subscribers, _inbound_announcements, _debug_counts set directly; "
    "_save_announcements (YAML cache file) replaced by a recorder; log calls stripped / answered with 0",
    "time.time in introducer.client / introducer.server replaced by a constant",
    "introducer.common.ed25519 is a proxy of the real module: verifying_key_from_string is the real function (argument realised, compiled call made "
    "with CrossHair tracing off) whose key is re-wrapped as a Python Ed25519PublicKey with the same bytes; verify_signature is the REAL "
    "allmydata.crypto.ed25519.verify_signature; only the backend call key.verify(sig, data) is ideal: InvalidSignature unless the signature has 64 "
    "bytes and the harness's symbolic outcome for that announcement is True",
    "introducer.common.json.loads runs the real jsonbytes.loads on the realised (concrete) document with CrossHair tracing off",
    "IntroducerService built without its constructor: _announcements, _subscribers, _debug_counts set directly; subscribers are recorders of callRemote",
]
_process = hlib.strip_logs(IntroducerClient._process_announcement)
# got_announcements is run UNSTRIPPED: the arguments of its log call in the exception handler are computed from the (possibly
# malformed) announcement tuple and can raise themselves; the tuples are concrete, so eager formatting costs nothing
_got = IntroducerClient.got_announcements
hlib.encoded(IntroducerClient.got_announcements)
_srv_publish = hlib.strip_logs(server_mod.IntroducerService._publish)
hlib.encoded(IntroducerClient._deliver_announcements, common_mod.unsign_from_foolscap)


class _ConstTime(object):
    @staticmethod
    def time():
        return 1000.0


client_mod.time = _ConstTime
server_mod.time = _ConstTime

FURL = "pb://" + "a" * 32 + "@tcp:nowhere:1/swissnum"
KEY_A = b"v0-" + base32.b2a(b"A" * 32)
KEY_B = b"v0-" + base32.b2a(b"B" * 32)
KEY_C = b"v0-" + base32.b2a(b"C" * 32)


def _mk_client(subscribed):
    c = IntroducerClient.__new__(IntroducerClient)
    c._debug_counts = {"inbound_message": 0, "inbound_announcement": 0, "wrong_service": 0, "duplicate_announcement": 0,
                       "update": 0, "new_announcement": 0, "outbound_message": 0}
    c._inbound_announcements = {}
    c._local_subscribers = {}
    c.delivered = []
    c.saves = []
    c.log = lambda *a, **kw: 0
    c._save_announcements = lambda: c.saves.append(dict(c._inbound_announcements))
    c._process_announcement = lambda ann, key_s: _process(c, ann, key_s)
    if subscribed:
        obs = ObserverList()
        obs.subscribe(lambda key_s, ann: c.delivered.append((key_s, ann)))
        c._local_subscribers["storage"] = obs
    return c


def _ann(seq_kind, seq, nonce):
    a = {"service-name": "storage", "anonymous-storage-FURL": FURL, "nickname": "nick", "nonce": nonce}
    if seq_kind == 0:
        a["seqnum"] = seq             # an int
    elif seq_kind == 2:
        a["seqnum"] = "7"             # present but not an int
    elif seq_kind == 3:
        a["seqnum"] = 7.5
    return a                          # seq_kind 1: no seqnum


def h_process_announcement(subscribed: bool, stored: bool, old_has_seq: bool, old_seq: int,
                           new_kind: int, new_seq: int, same_body: bool, other_seq: int) -> bool:
    """
    pre: 0 <= new_kind <= 3
    post: _ == True
    """
    c = _mk_client(subscribed)
    old = _ann(0 if old_has_seq else 1, old_seq, "n-old")
    other = _ann(0, other_seq, "n-other")
    other_entry = (other, KEY_B, 5.0)
    c._inbound_announcements[("storage", KEY_B)] = other_entry
    old_entry = (old, KEY_A, 5.0)
    if stored:
        c._inbound_announcements[("storage", KEY_A)] = old_entry
    if same_body:
        # a replay: byte-for-byte the stored announcement (only meaningful when something is stored)
        assume(stored)
        new = dict(old)
    else:
        new = _ann(new_kind, new_seq, "n-new")
    _process(c, new, KEY_A)
    now_entry = c._inbound_announcements.get(("storage", KEY_A))
    replaced = now_entry is not None and now_entry[0] is new
    # the rule, stated independently
    fresh = True
    if stored:
        if same_body:
            fresh = False
        elif old_has_seq:
            fresh = (new_kind == 0) and (new_seq > old_seq)
    want = subscribed and fresh
    if replaced != want:
        if replaced:
            return "stored announcement replaced by one that is not newer (equal/lower/missing/non-integer seqnum, replay, or unsubscribed service)"
        return "a newer announcement was not accepted"
    if replaced:
        if now_entry[1] != KEY_A:
            return "accepted announcement attributed to another key"
        if len(c.delivered) != 1 or c.delivered[0][0] != KEY_A or c.delivered[0][1] is not new:
            return "accepted announcement not delivered exactly once to the subscriber with its key"
        if len(c.saves) != 1:
            return "cache not saved"
    else:
        if c.delivered:
            return "a rejected announcement was delivered to subscribers"
        if stored:
            if now_entry is not old_entry:
                return "stored entry changed although the announcement was rejected"
        elif now_entry is not None:
            return "rejected announcement stored"
    if c._inbound_announcements.get(("storage", KEY_B)) is not other_entry or len(c._inbound_announcements) != (2 if (stored or replaced) else 1):
        return "entry of another key was touched"
    return True


# ---- unsign_from_foolscap -----------------------------------------------------------------------------

from cryptography.hazmat.primitives.asymmetric.ed25519 import Ed25519PublicKey as _PubKeyABC      # noqa: E402
from cryptography.exceptions import InvalidSignature as _InvalidSignature                          # noqa: E402


class _IdealKey(_PubKeyABC):
    """an Ed25519 public key whose verify() is the ideal check (what the `cryptography` backend would do for a key whose signatures the
    harness decides): a signature that is not 64 bytes long never verifies; otherwise the harness's outcome function decides"""

    def __init__(self, raw, world):
        self.raw = raw
        self.world = world

    def public_bytes_raw(self):
        return self.raw

    def public_bytes(self, encoding, format):
        return self.raw

    def verify(self, signature, data):
        w = self.world
        ok = False
        if len(signature) == 64 and w.outcome_for_msg(data, self.raw, signature):
            ok = True
        w.calls.append((self.raw, signature, data, ok))
        if not ok:
            raise _InvalidSignature()

    def __eq__(self, other):
        return isinstance(other, _IdealKey) and other.raw == self.raw

    def __hash__(self):
        return hash(self.raw)

    def __copy__(self):
        return self

    def __deepcopy__(self, memo):
        return self


class _IdealEd25519(object):
    """proxy of allmydata.crypto.ed25519: verifying_key_from_string is the real function (its result re-wrapped as an _IdealKey with the
    decoded key bytes); verify_signature is the REAL allmydata.crypto.ed25519.verify_signature, which ends in key.verify() = the ideal check.
    calls = the backend verifications that took place: (raw key, signature, message, outcome)"""

    def __init__(self, outcome_for_msg):
        self.outcome_for_msg = outcome_for_msg
        self.calls = []
        self.returned = []      # what the real verify_signature returned when it returned normally

    def __getattr__(self, name):
        return getattr(real_ed25519, name)

    def verifying_key_from_string(self, s):
        # the real function ends in a compiled extension that insists on a plain `bytes` object; under CrossHair even concrete
        # bytes come out of base32.a2b as a bytes proxy, so the argument is realised and the FFI call made with tracing off
        from crosshair import deep_realize, NoTracing
        s = deep_realize(s)
        with NoTracing():
            raw = real_ed25519.verifying_key_from_string(s).public_bytes_raw()
        return _IdealKey(raw, self)

    def verify_signature(self, key, sig, msg):
        from crosshair import deep_realize
        r = real_ed25519.verify_signature(key, deep_realize(sig), deep_realize(msg))
        self.returned.append(r)
        return r


class _UntracedJSON(object):
    """introducer.common.json (allmydata.util.jsonbytes): loads() of the realised document with CrossHair tracing off
    (the documents are concrete; CrossHair's traced pure-Python json costs ~0.3 s per path)"""

    @staticmethod
    def loads(s, *a, **kw):
        from crosshair import deep_realize, NoTracing
        from allmydata.util import jsonbytes
        s = deep_realize(s)
        with NoTracing():
            return jsonbytes.loads(s, *a, **kw)

    def __getattr__(self, name):
        from allmydata.util import jsonbytes
        return getattr(jsonbytes, name)


common_mod.json = _UntracedJSON()


def _msg(i, seq):
    a = {"service-name": "storage", "anonymous-storage-FURL": FURL, "nickname": "nick-%d" % i, "nonce": "n%d" % i, "seqnum": seq}
    return _json.dumps(a).encode("utf-8")


def h_unsign(valid: bool, use_b: bool) -> bool:
    """
    post: _ == True
    """
    key_vs = KEY_B if use_b else KEY_A
    raw_key = b"B" * 32 if use_b else b"A" * 32
    msg = _msg(1, 3)
    sig_raw = b"S" * 64
    ann_t = (msg, b"v0-" + base32.b2a(sig_raw), key_vs)
    ideal = _IdealEd25519(lambda m, k, s: valid)
    saved = common_mod.ed25519
    common_mod.ed25519 = ideal
    out = None
    err = None
    try:
        try:
            out = common_mod.unsign_from_foolscap(ann_t)
        except BadSignature as e:
            err = e
    finally:
        common_mod.ed25519 = saved
    if len(ideal.calls) != 1:
        return "verify_signature not called exactly once"
    (k, s, m, ok) = ideal.calls[0]
    if k != raw_key or s != sig_raw or m != msg:
        return "signature checked against another key / signature / message than the announcement's"
    if valid:
        if err is not None or out is None:
            return "valid announcement rejected"
        (ann, key_s) = out
        if key_s != key_vs:
            return "announcement attributed to a key other than the verifying key"
        if ann != _json.loads(msg.decode("utf-8")):
            return "returned body is not the signed message"
    else:
        if out is not None or err is None:
            return "a message was returned although the signature did not verify"
    return True


import contextlib as _ctxlib
_nullctx = _ctxlib.nullcontext


def h_unsign_twice(first_valid: bool, same_msg: bool, same_sig: bool) -> bool:
    """
    post: _ == True
    """
    # two calls in ONE process: the verdict for the second tuple must depend on its own (message, key, signature)
    # only -- nothing learned while checking the first (a cache of verified keys/signatures) may vouch for it.
    # The ideal signature scheme accepts exactly one triple: (msg1, KEY_A, sig1) when first_valid, none otherwise.
    msg1, msg2 = _msg(1, 1), (_msg(1, 1) if same_msg else _msg(1, 2))
    sig1, sig2 = b"S" * 64, (b"S" * 64 if same_sig else b"T" * 64)
    raw_key = b"A" * 32
    ideal = _IdealEd25519(lambda m, k, sg: first_valid and m == msg1 and k == raw_key and sg == sig1)
    # a FRESH copy of the module for every path: module-level state (e.g. a cache of verified signatures) must not leak
    # from one explored path into the next, or the engine's counterexample would not replay in a fresh process
    import importlib.util
    with hlib.untraced() if hasattr(hlib, "untraced") else _nullctx():
        spec = importlib.util.spec_from_file_location("allmydata.introducer._common_fresh_copy", common_mod.__file__)
        fresh = importlib.util.module_from_spec(spec)
        spec.loader.exec_module(fresh)
    fresh.ed25519 = ideal
    fresh.json = common_mod.json
    outs = []
    for (m, sg) in ((msg1, sig1), (msg2, sig2)):
        try:
            outs.append(("ok", fresh.unsign_from_foolscap((m, b"v0-" + base32.b2a(sg), KEY_A))))
        except BadSignature:
            outs.append(("bad", None))
    want1 = first_valid
    want2 = first_valid and same_msg and same_sig
    for (i, (got, want, m)) in enumerate(((outs[0], want1, msg1), (outs[1], want2, msg2))):
        if want:
            if got[0] != "ok":
                return "valid announcement rejected (call %d)" % (i + 1)
            (ann, key_s) = got[1]
            if key_s != KEY_A or ann != _json.loads(m.decode("utf-8")):
                return "returned body/key is not the signed message's (call %d)" % (i + 1)
        elif got[0] == "ok":
            return "call %d returned a message whose own (message, key, signature) does not verify%s" % (
                i + 1, " -- after an earlier successful verification with the same key" if i == 1 and first_valid else "")
    return True


# ---- batches --------------------------------------------------------------------------------------------

EXCLUDED = []
BATCH_CLASS = "batch-aborted-by-exception-other-than-BadSignature"
_KEYS = [KEY_A, KEY_B, KEY_C]
# kinds of announcement tuples: 0 well-formed (verify outcome symbolic), 1.. malformed encodings
KIND_OK, KIND_NOSIG, KIND_SIGPREFIX, KIND_KEYPREFIX, KIND_KEYGARBAGE, KIND_BODY = 0, 1, 2, 3, 4, 5
KIND_UNSIGNED, KIND_STRKEY, KIND_SHORT, KIND_INTKEY, KIND_NOTTUPLE = 6, 7, 8, 9, 10
NKINDS = 11


def _ann_t(i, kind):
    msg = _msg(i, 1)
    sig = b"v0-" + base32.b2a(bytes([48 + i]) * 64)
    key = _KEYS[i]
    if kind == KIND_NOSIG:
        sig = None                                   # unsigned announcement
    elif kind == KIND_SIGPREFIX:
        sig = b"v1-" + sig[3:]
    elif kind == KIND_KEYPREFIX:
        key = b"v9-" + key[3:]
    elif kind == KIND_KEYGARBAGE:
        key = b"v0-" + b"a" * 10                     # not a 32-byte key
    elif kind == KIND_BODY:
        msg = b"{not json" + bytes([48 + i])         # signed by the key owner, but not a JSON document
    elif kind == KIND_UNSIGNED:
        return (msg, None, None)                     # old-style unsigned announcement
    elif kind == KIND_STRKEY:
        key = key.decode("ascii")                    # key is text instead of bytes
    elif kind == KIND_SHORT:
        return (msg, sig)                            # tuple shorter than 3
    elif kind == KIND_INTKEY:
        key = 12345                                  # key is not a string at all
    elif kind == KIND_NOTTUPLE:
        return None
    return (msg, sig, key)


# built once at import time (concrete data; building them under CrossHair's tracing costs ~0.4 s per path)
_ANN_T = [[_ann_t(i, kind) for kind in range(NKINDS)] for i in range(3)]


def _run_batch(kinds, valids):
    c = _mk_client(True)
    batch = [_ANN_T[i][kinds[i]] for i in range(len(kinds))]
    by_msg = dict((_ANN_T[i][KIND_BODY if kinds[i] == KIND_BODY else KIND_OK][0], i) for i in range(len(batch)))
    ideal = _IdealEd25519(lambda m, k, s: valids[by_msg[m]])
    saved = common_mod.ed25519
    common_mod.ed25519 = ideal
    exc = None
    try:
        try:
            _got(c, batch)
        except Exception as e:       # what the remote caller (the introducer) would get back as an error
            exc = e
    finally:
        common_mod.ed25519 = saved
    return c, batch, ideal, exc


def _batch_verdict(kinds, valids, c, batch, ideal, exc):
    n = len(kinds)
    for i in range(n):
        good = (kinds[i] == KIND_OK) and valids[i]
        got = [d for d in c.delivered if d[0] == _KEYS[i]]
        if good:
            if len(got) != 1:
                if exc is not None:
                    return "a bad announcement (%s) stopped a good one in the same batch from being processed" % (type(exc).__name__,)
                return "a good announcement was not delivered"
            if got[0][1] != _json.loads(_ANN_T[i][KIND_OK][0].decode("utf-8")):
                return "delivered body differs from the signed message"
            ent = c._inbound_announcements.get(("storage", _KEYS[i]))
            if ent is None or ent[1] != _KEYS[i]:
                return "accepted announcement not stored under its signing key"
            if not any(call[2] == batch[i][0] and call[3] for call in ideal.calls):
                return "announcement accepted without a successful signature check"
        else:
            if got or ("storage", _KEYS[i]) in c._inbound_announcements:
                return "an announcement that failed verification / is malformed was accepted"
    if len(c.delivered) != sum(1 for i in range(n) if kinds[i] == KIND_OK and valids[i]):
        return "spurious delivery"
    return True


def h_batch_bad_signature(v0: bool, v1: bool, v2: bool) -> bool:
    """
    post: _ == True
    """
    kinds = [KIND_OK, KIND_OK, KIND_OK]
    valids = [v0, v1, v2]
    c, batch, ideal, exc = _run_batch(kinds, valids)
    if exc is not None:
        return "got_announcements raised %s" % (type(exc).__name__,)
    return _batch_verdict(kinds, valids, c, batch, ideal, exc)


def h_batch_malformed(k0: int, k1: int, k2: int, v0: bool, v1: bool, v2: bool) -> bool:
    """
    pre: 0 <= k0 < NKINDS and 0 <= k1 < NKINDS and 0 <= k2 < NKINDS
    pre: B.get("kinds") is None or (k0 in B["kinds"] and k1 in B["kinds"] and k2 in B["kinds"])
    post: _ == True
    """
    kinds = [k0, k1, k2]
    valids = [v0, v1, v2]
    c, batch, ideal, exc = _run_batch(kinds, valids)
    v = _batch_verdict(kinds, valids, c, batch, ideal, exc)
    if v is not True and BATCH_CLASS in EXCLUDED and v.startswith("a bad announcement"):
        assume(False)
    return v


def _classify_batch(k0, k1, k2, v0, v1, v2):
    v = h_batch_malformed(k0, k1, k2, v0, v1, v2)
    if v is True:
        return "held"
    return BATCH_CLASS if v.startswith("a bad announcement") else "oracle:" + v


CLASSIFY = {"h_batch_malformed": _classify_batch}


# ---- server side of the sequence-number rule ---------------------------------------------------------------

class _Subscriber(object):
    def __init__(self):
        self.calls = []

    def callRemote(self, name, *args):
        from twisted.internet import defer
        self.calls.append((name, args))
        return defer.succeed(None)


def h_server_publish(stored: bool, old_has_seq: bool, old_seq: int, new_kind: int, new_seq: int, same_body: bool, valid: bool) -> bool:
    """
    pre: 0 <= new_kind <= 3
    post: _ == True
    """
    s = server_mod.IntroducerService.__new__(server_mod.IntroducerService)
    s._debug_counts = {"inbound_message": 0, "inbound_duplicate": 0, "inbound_no_seqnum": 0, "inbound_old_replay": 0,
                       "inbound_update": 0, "outbound_message": 0, "outbound_announcements": 0, "inbound_subscribe": 0}
    s._debug_outstanding = 0
    s._announcements = {}
    sub = _Subscriber()
    s._subscribers = {"storage": {sub: ("info", 1.0)}}
    s.log = lambda *a, **kw: 0
    old = _ann(0 if old_has_seq else 1, old_seq, "n-old")
    old_entry = (("old-msg", b"sig", KEY_A), None, old, 5.0)
    if stored:
        s._announcements[("storage", KEY_A)] = old_entry
    if same_body:
        assume(stored)
        new = dict(old)
    else:
        new = _ann(new_kind, new_seq, "n-new")
    ann_t = ("new-msg", b"sig-new", KEY_A)

    def unsign(t):
        if t is not ann_t:
            raise hlib.HarnessError("unsign of something else")
        if not valid:
            raise BadSignature()
        return (new, KEY_A)
    saved = server_mod.unsign_from_foolscap
    server_mod.unsign_from_foolscap = unsign
    err = None
    try:
        try:
            _srv_publish(s, ann_t, None, 0)
        except BadSignature as e:
            err = e
    finally:
        server_mod.unsign_from_foolscap = saved
    ent = s._announcements.get(("storage", KEY_A))
    replaced = ent is not None and ent[2] is new
    fresh = valid
    if valid and stored:
        if same_body:
            fresh = False
        elif old_has_seq:
            fresh = (new_kind == 0) and (new_seq > old_seq)
    if replaced != fresh:
        return "introducer %s an announcement against the sequence-number / signature rule" % ("accepted" if replaced else "dropped")
    if (err is not None) != (not valid):
        return "BadSignature must be reported to the publisher iff the signature is bad"
    if replaced:
        if ent[0] is not ann_t or sub.calls != [("announce_v2", (set([ann_t]),))]:
            return "accepted announcement not relayed as the signed tuple to the subscriber"
    else:
        if sub.calls:
            return "rejected announcement relayed to subscribers"
        if stored and ent is not old_entry:
            return "stored announcement changed"
        if not stored and ent is not None:
            return "rejected announcement stored"
    return True


# ---- one key, one identity: spellings of the same verifying key must not open a second index entry ----------------

def _alias_last_char(b32, bit=1):
    """same 32 bytes, non-canonical last character: 52 base32 characters carry 260 bits, the 4 spare bits of the last one set to non-zero"""
    alphabet = b"abcdefghijklmnopqrstuvwxyz234567"
    v = alphabet.index(b32[-1:])
    return b32[:-1] + alphabet[v | bit:(v | bit) + 1]


_B32_A = base32.b2a(b"A" * 32)
SPELLINGS = [KEY_A,                                   # 0 canonical
             b"v0-" + _B32_A.upper(),                 # 1 upper-cased base32
             KEY_A + b" ",                            # 2 trailing blank
             KEY_A + b"\n",                           # 3 trailing newline
             b"v0- " + _B32_A,                        # 4 blank after the version prefix
             b"V0-" + _B32_A,                         # 5 upper-cased version prefix
             b"v0-" + _alias_last_char(_B32_A),       # 6 non-canonical last character (spare bits set)
             b"v0-" + _B32_A[:26].upper() + _B32_A[26:],   # 7 mixed case
             b"v0-" + _alias_last_char(_B32_A, 8)]    # 8 non-canonical last character (highest spare bit set)
_MSG_SEQ = {1: _msg(0, 1), 2: _msg(0, 2)}
_SIG = b"v0-" + base32.b2a(b"S" * 64)


def h_key_identity(spelling: int, alt_first: bool) -> bool:
    """
    pre: 0 <= spelling < len(SPELLINGS)
    post: _ == True
    """
    c = _mk_client(True)
    newer = (_MSG_SEQ[2], _SIG, KEY_A)                       # seqnum 2 under the canonical spelling
    older = (_MSG_SEQ[1], _SIG, SPELLINGS[spelling])         # replay of seqnum 1, key spelled differently
    batch = [older, newer] if alt_first else [newer, older]
    # ideal signatures keyed on the DECODED key: both messages were signed by the holder of key bytes A*32
    ideal = _IdealEd25519(lambda m, k, s: k == b"A" * 32)
    saved = common_mod.ed25519
    common_mod.ed25519 = ideal
    try:
        try:
            _got(c, batch)
        except Exception as e:
            return "got_announcements raised %s" % (type(e).__name__,)
    finally:
        common_mod.ed25519 = saved
    # which verifying key (raw bytes) vouched for each message
    signer = {}
    for (raw, sig, msg, ok) in ideal.calls:
        if ok:
            signer[msg] = raw
    entries = {}
    for (service, key_s), (ann, k2, when) in c._inbound_announcements.items():
        msg = _MSG_SEQ.get(ann.get("seqnum"))
        if msg is None or msg not in signer:
            return "stored announcement was never verified"
        entries.setdefault((service, signer[msg]), []).append(key_s)
    for (service, raw), names in entries.items():
        if len(names) > 1:
            return "announcements verified by one and the same key are stored under %d different identities" % len(names)
    seqs = [ann["seqnum"] for (key_s, ann) in c.delivered]
    for a in range(len(seqs) - 1):
        if not (seqs[a] < seqs[a + 1]):
            return "a replay with a lower sequence number was delivered after a newer announcement of the same key"
    if 2 not in seqs:
        return "the genuine newest announcement was not delivered"
    return True


# ---- correctly signed announcements with malformed CONTENT ------------------------------------------------------------
# (any key holder can sign these; verify_signature succeeds when the position's symbolic bit says so)

C_LIST, C_NOSVC, C_NICK, C_FURLINT, C_FURLSTR, C_SEQ = 11, 12, 13, 14, 15, 16
CONTENT_KINDS = (KIND_OK, C_LIST, C_NOSVC, C_NICK, C_FURLINT, C_FURLSTR, C_SEQ)


def _content_msgs(i, kind):
    """the signed message(s) that position i contributes (C_SEQ: two announcements from the same key, in this order)"""
    base = {"service-name": "storage", "anonymous-storage-FURL": FURL, "nickname": "nick-%d" % i, "nonce": "n%d" % i, "seqnum": 1}
    if kind == KIND_OK:
        return [_msg(i, 1)]
    if kind == C_LIST:
        return [_json.dumps([1, 2, i]).encode("utf-8")]                     # body is not a dict
    if kind == C_NOSVC:
        d = dict(base)
        del d["service-name"]
        return [_json.dumps(d).encode("utf-8")]
    if kind == C_NICK:
        return [_json.dumps(dict(base, nickname=5)).encode("utf-8")]
    if kind == C_FURLINT:
        d = dict(base)
        d["anonymous-storage-FURL"] = 7
        return [_json.dumps(d).encode("utf-8")]
    if kind == C_FURLSTR:
        d = dict(base)
        d["anonymous-storage-FURL"] = "x"
        return [_json.dumps(d).encode("utf-8")]
    if kind == C_SEQ:
        return [_json.dumps(dict(base, seqnum="x", nonce="first-%d" % i)).encode("utf-8"),
                _json.dumps(dict(base, seqnum=2, nonce="second-%d" % i)).encode("utf-8")]
    raise hlib.HarnessError("kind %r" % (kind,))


_CONTENT = dict(((i, k), _content_msgs(i, k)) for i in range(3) for k in CONTENT_KINDS)      # concrete, built at import time
_BODIES = dict((key, [_json.loads(m.decode("utf-8")) for m in msgs]) for key, msgs in _CONTENT.items())
_SIGS = [b"v0-" + base32.b2a(bytes([48 + i]) * 64) for i in range(3)]


def h_batch_signed_content(k0: int, k1: int, k2: int, v0: bool, v1: bool, v2: bool) -> bool:
    """
    pre: 0 <= k0 < len(CONTENT_KINDS) and 0 <= k1 < len(CONTENT_KINDS) and 0 <= k2 < len(CONTENT_KINDS)
    pre: B.get("kinds") is None or (k0 in B["kinds"] and k1 in B["kinds"] and k2 in B["kinds"])
    post: _ == True
    """
    # k0..k2 index CONTENT_KINDS: 0 good, 1 list body, 2 no service-name, 3 nickname 5, 4 FURL 7, 5 FURL "x", 6 seqnum "x" then 2
    kinds = [CONTENT_KINDS[k0], CONTENT_KINDS[k1], CONTENT_KINDS[k2]]
    valids = [v0, v1, v2]
    c = _mk_client(True)
    batch = []
    owner = {}
    for i in range(3):
        for m in _CONTENT[(i, kinds[i])]:
            owner[m] = i
            batch.append((m, _SIGS[i], _KEYS[i]))
    ideal = _IdealEd25519(lambda m, k, s: valids[owner[m]])
    saved = common_mod.ed25519
    common_mod.ed25519 = ideal
    exc = None
    try:
        try:
            _got(c, batch)
        except Exception as e:       # what the remote caller (the introducer) would get back as an error
            exc = e
    finally:
        common_mod.ed25519 = saved
    verified = [call[2] for call in ideal.calls if call[3]]
    for i in range(3):
        got = [d[1] for d in c.delivered if d[0] == _KEYS[i]]
        ent = c._inbound_announcements.get(("storage", _KEYS[i]))
        msgs = _CONTENT[(i, kinds[i])]
        bodies = _BODIES[(i, kinds[i])]
        if kinds[i] == KIND_OK and valids[i]:
            if got != bodies:
                if exc is not None:
                    return "a correctly signed but malformed announcement (%s) stopped a good one from another key in the same batch" % (type(exc).__name__,)
                return "a good announcement was not delivered exactly once"
            if ent is None or ent[0] != bodies[0] or ent[1] != _KEYS[i]:
                return "good announcement not stored under its signing key"
            continue
        if not valids[i] or kinds[i] in (C_LIST, C_NOSVC):
            # forged, or something that is not an announcement for any service: nothing may come of it
            if got or ent is not None:
                return "a forged announcement / a signed non-announcement was delivered or stored"
            continue
        # a signed dict for our service with odd fields: the client may accept or skip it, but only as what was signed
        pos = 0
        for body in got:
            while pos < len(bodies) and bodies[pos] != body:
                pos += 1
            if pos == len(bodies):
                return "something was delivered for a key that this key did not sign (or out of order / twice)"
            if msgs[pos] not in verified:
                return "delivered without a successful signature check"
            pos += 1
        if (ent is None) != (len(got) == 0) or (ent is not None and (ent[0] != got[-1] or ent[1] != _KEYS[i])):
            return "stored entry and deliveries disagree for a key"
    for d in c.delivered:
        if d[0] not in _KEYS:
            return "delivery attributed to an unknown key"
    return True


# ---- signatures of the wrong length: the real ed25519.verify_signature must RAISE, never return ----------------------------

hlib.encoded(real_ed25519.verify_signature, real_ed25519.verifying_key_from_string)
_SIG_LENGTHS = [0, 1, 32, 63, 64, 65, 128]
_SIG_BLOBS = [b"v0-" + base32.b2a(b"S" * n) for n in _SIG_LENGTHS]        # concrete, built at import time


def h_sig_length(li: int, valid: bool, through_batch: bool) -> bool:
    """
    pre: 0 <= li < len(_SIG_LENGTHS)
    post: _ == True
    """
    n = _SIG_LENGTHS[li]
    msg = _MSG_SEQ[1]
    ann_t = (msg, _SIG_BLOBS[li], KEY_A)
    ideal = _IdealEd25519(lambda m, k, s: valid)
    saved = common_mod.ed25519
    common_mod.ed25519 = ideal
    out = None
    err = None
    c = _mk_client(True)
    try:
        try:
            if through_batch:
                _got(c, [ann_t])
            else:
                out = common_mod.unsign_from_foolscap(ann_t)
        except Exception as e:
            err = e
    finally:
        common_mod.ed25519 = saved
    for r in ideal.returned:
        if r is not None:
            return "ed25519.verify_signature returned %r instead of raising BadSignature / returning None" % (r,)
    want = valid and n == 64
    if through_batch:
        if err is not None:
            return "got_announcements raised %s" % (type(err).__name__,)
        accepted = len(c.delivered) == 1
    else:
        accepted = out is not None
        if not accepted and not isinstance(err, BadSignature):
            return "a signature that cannot verify must be reported as BadSignature, got %s" % (type(err).__name__,)
    if accepted and not want:
        return "an announcement whose signature is %d bytes long / does not verify was accepted under the claimed key" % n
    if want and not accepted:
        return "a valid 64-byte signature was rejected"
    if accepted and not any(call[3] and call[1] == b"S" * n and call[2] == msg for call in ideal.calls):
        return "accepted without a successful backend verification of this signature over this message"
    return True


# ---- a forged copy of an announcement (same message, same claimed key, other signature) must not suppress the genuine one ---------

_FORGED_SIG = b"v0-" + base32.b2a(b"F" * 64)


def h_batch_forged_copy(pos: int, forged_first: bool, other_valid: bool, copies: int) -> bool:
    """
    pre: 0 <= pos <= 2 and 1 <= copies <= 2
    post: _ == True
    """
    msg = _MSG_SEQ[1]
    genuine = (msg, _SIG, KEY_A)
    forged = (msg, _FORGED_SIG, KEY_A)
    pair = [forged] * copies + [genuine] if forged_first else [genuine] + [forged] * copies
    other = _ANN_T[1][KIND_OK]                       # a well-formed announcement of key B
    batch = list(pair)
    batch.insert(pos if pos <= len(batch) else len(batch), other)
    ideal = _IdealEd25519(lambda m, k, s: (s == b"S" * 64) if k == b"A" * 32 else other_valid)
    c = _mk_client(True)
    saved = common_mod.ed25519
    common_mod.ed25519 = ideal
    try:
        try:
            _got(c, batch)
        except Exception as e:
            return "got_announcements raised %s" % (type(e).__name__,)
    finally:
        common_mod.ed25519 = saved
    got_a = [d for d in c.delivered if d[0] == KEY_A]
    got_b = [d for d in c.delivered if d[0] == KEY_B]
    if len(got_a) != 1:
        return "the genuine announcement was delivered %d times although a correctly signed copy is in the batch (forged copy %s it)" % (
            len(got_a), "before" if forged_first else "after")
    if got_a[0][1] != _json.loads(msg.decode("utf-8")) or ("storage", KEY_A) not in c._inbound_announcements:
        return "delivered body / stored entry wrong"
    if not any(call[3] and call[0] == b"A" * 32 and call[1] == b"S" * 64 and call[2] == msg for call in ideal.calls):
        return "accepted without verifying the genuine signature"
    if len(got_b) != (1 if other_valid else 0):
        return "the other key's announcement was mishandled"
    return True
