"""
Shared by C11/C14 (builder-F): populate a REAL allmydata.mutable.servermap.ServerMap from a few symbolic
version descriptors, and the independent model of what that map contains.

A version descriptor is (seqnum, root-hash rank, k, distinct share count, extra copies):
  * shares 0..count-1 of the version sit on that version's own server (a (server, shnum) slot holds one version),
  * `extra copies` = d further copies of share 0, each on another server (copies must not count as distinct shares:
    a version with fewer than k DISTINCT share numbers is unrecoverable however many copies exist),
  * two descriptors with equal (seqnum, rank) denote the SAME version (same signed prefix, hence same k):
    their shares merge.
Everything that ends up inside a verinfo tuple is hashed by ServerMap (dict key), i.e. realised by
CrossHair: the bounds are small and the obligations are path-per-input (DESIGN 1.4).
"""
from vlib import hlib
hlib.ensure_shims()
from zope.interface import implementer
from allmydata.interfaces import IDisplayableServer
from allmydata.mutable import servermap as sm_mod

ROOTS = [bytes([65 + i]) * 32 for i in range(4)]
N_TOTAL = 4


@implementer(IDisplayableServer)
class Srv(object):
    def __init__(self, name):
        self.name = name

    def get_name(self):
        return self.name.encode("ascii")

    def get_nickname(self):
        return self.name

    def get_longname(self):
        return ("long-" + self.name)

    def get_serverid(self):
        return (self.name.encode("ascii") + b"\x00" * 20)[:20]

    def __repr__(self):
        return "<Srv %s>" % self.name


# signed prefixes, one per (seqnum, rank, k), built at import: `bytes([...])` under CrossHair yields a symbolic
# bytes object whose every hash deep-realises it (measured: 15 hashes and 150 solver queries per path)
_SEQ_VALUES = list(range(0, 8)) + [9, 10, 11, 99, 100, 101, 999, 1000, 1001]
_PREFIX = dict(((s, r, k), b"prefix-%d-%d-%d" % (s, r, k)) for s in _SEQ_VALUES for r in range(4) for k in range(0, 8))


def verinfo(seq, rank, k, n=N_TOTAL):
    return (seq, ROOTS[rank], b"I" * 16, 12, 10, k, n, _PREFIX[(seq, rank, k)], (("signature", 9),))


def descriptors_ok(nv, descs, B):
    """bounds; one k per run (B["k"]), so equal (seq, rank) => equal k holds (reachable-state invariant: same signed prefix)"""
    if not (0 <= nv <= B["nv"]):
        return False
    k0 = B["k"]
    for i in range(nv):
        (s, r, k, c, d) = descs[i]
        if not (1 <= s <= B["seq_max"] and 0 <= r <= B["rank_max"] and k == k0):
            return False
        if B.get("cs") is not None:
            ok = False
            for v in B["cs"]:
                if c == v:
                    ok = True
            if not ok:
                return False
        elif not (k0 + B["c_lo"] <= c <= k0 + B["c_hi"]):
            return False
        if not (0 <= d <= (B.get("dmax", 1) if B.get("dups", True) else 0)):
            return False
    return True


def populate(nv, descs, servermap=None, n=N_TOTAL):
    """returns (ServerMap, model) with model = {verinfo: (k, set(shnums), [(server, shnum)...])}"""
    sm = servermap if servermap is not None else sm_mod.ServerMap()
    model = {}
    for i in range(nv):
        (s, r, k, c, d) = descs[i]
        v = verinfo(s, r, k, n)
        srv = Srv("v%d" % i)
        entry = model.setdefault(v, (k, set(), []))
        for sh in range(c):
            sm.add_new_share(srv, sh, v, 1000 + i)
            entry[1].add(sh)
            entry[2].append((srv, sh))
        if c >= 1:
            for x in range(d):          # d further COPIES of share 0 on other servers: copies are not distinct shares
                extra = Srv("d%d_%d" % (i, x))
                sm.add_new_share(extra, 0, v, 2000 + i)
                entry[2].append((extra, 0))
    for v in list(model):
        if not model[v][2]:
            del model[v]          # a version without shares is not in the map at all
    return sm, model


def recoverable(model):
    return set(v for v in model if len(model[v][1]) >= model[v][0])


def pin(x, lo, hi):
    """one path per value (see C11_h._pin)"""
    for v in range(lo, hi):
        if x == v:
            return v
    return hi


def pin_in(x, values):
    for v in values[:-1]:
        if x == v:
            return v
    return values[-1]


def pinb(x):
    return True if x else False


def concrete(descs, nv, B):
    """pin the descriptor values (they end up in dict keys anyway)"""
    out = []
    for i in range(len(descs)):
        if i < nv:
            (s, r, k, c, d) = descs[i]
            if B.get("cs") is not None:
                c = pin_in(c, B["cs"])
            else:
                c = pin(c, B["k"] + B["c_lo"], B["k"] + B["c_hi"])
            s = pin(s, 1, B["seq_max"])
            if B.get("seqs") is not None:
                s = B["seqs"][s - 1]          # the descriptor's seqnum index names an actual sequence number (e.g. 9, 10, 100)
            out.append((s, pin(r, 0, B["rank_max"]), B["k"], c,
                        pin(d, 0, B.get("dmax", 1)) if B.get("dups", True) else 0))
        else:
            out.append((0, 0, 0, 0, 0))
    return out


def unrecoverable(model):
    return set(v for v in model if len(model[v][1]) < model[v][0])
