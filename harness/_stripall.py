"""Shared helper (builder-H harnesses): strip log statements (and optionally replace literals) in EVERY method of a class,
so that a helper method extracted from an already-stripped method by a behaviour-preserving refactor is stripped too."""
import types
from vlib import hlib


def strip_all(cls, consts=None, skip=()):
    done = []
    for name, attr in list(vars(cls).items()):
        if name in skip or not isinstance(attr, (types.FunctionType, staticmethod, classmethod)):
            continue
        fn = attr.__func__ if isinstance(attr, (staticmethod, classmethod)) else attr
        raw = fn
        while hasattr(raw, "__wrapped__"):
            raw = raw.__wrapped__
        if getattr(raw, "__code__", None) is None or raw.__code__.co_freevars:
            continue            # super() / closures cannot be recompiled standalone: left untouched
        try:
            if consts:
                hlib.strip_method(cls, name, consts=consts)
            else:
                hlib.strip_method(cls, name)
            done.append(name)
        except (hlib.HarnessError, SyntaxError, OSError, TypeError):
            continue
    return done
