"""
C28 — storage space reservations are honoured.

Real StorageServer.allocate_buckets / allocated_size / get_available_space / bucket_writer_closed and the
real BucketWriter (its constructor creates the incoming container; close/abort call back into the server)
on the in-memory filesystem.  Disk free space, reserved space, sizes of uploads in progress, the requested
size and which shares already exist / are being uploaded are symbolic.
"""
from vlib import hlib
from vlib.hlib import ProvBuf, assume
import _sharefix as X
from _sharefix import FS, FStruct, SF, ILEASE, Garbage
from allmydata.storage import immutable as imm, server as server_mod
from allmydata.storage.lease import LeaseInfo
from allmydata.interfaces import NoSpace
from allmydata.util import fileutil as real_fileutil

B = hlib.bounds()
EXCLUDED = []
NOTES = X.NOTES + [
    "fileutil.get_available_space in storage/server.py: returns the harness's symbolic value (statvfs arithmetic is the "
    "separate `disk_stats` obligation, with os.statvfs replaced by symbolic numbers)",
    "BucketWriter timers: recording clock",
]
hlib.strip_method(X.SS, "allocate_buckets")
hlib.strip_method(imm.BucketWriter, "abort")
hlib.strip_method(imm.BucketWriter, "_abort_due_to_timeout")
hlib.encoded(X.SS.allocated_size, X.SS.get_available_space, X.SS.bucket_writer_closed, X.SS.get_shares, X.SS._add_or_renew_leases,
             imm.BucketWriter.__init__, imm.BucketWriter.allocated_size, imm.BucketWriter.close, imm.BucketWriter.disconnected,
             real_fileutil.get_available_space, real_fileutil.get_disk_stats)

RS, CS = X.tok("R", 1), X.tok("C", 1)
SI2 = b"\x00\x01" + b"\x00" * 14      # base32 'aaaq...': same prefix directory 'aa' as X.SI


class _InProgress(object):
    """an upload already in progress (another storage index)"""

    def __init__(self, path, size):
        self.incominghome, self.size = path, size

    def allocated_size(self):
        return self.size


def _setup(avail, readonly, s1, s2, ex, inc):
    X.reset()
    FS.split_hint = 0xc
    clock = X.Clock(1000)
    ss = X.mk_server(readonly=readonly, clock=clock)
    FS.fileutil.avail = avail
    for (k, s) in enumerate((s1, s2)):
        if s is not None:
            w = _InProgress("/s/shares/incoming/zz/zz%d/0" % k, s)
            ss._bucket_writers[w.incominghome] = w
    for i in range(3):
        if ex[i]:
            rec = X.ilease_rec(1, X.hashed(2, X.tok("r", 0)), X.hashed(2, X.tok("c", 0)), 77)
            X.mk_immutable(X.share_path(i), 5, [rec])
        if inc[i]:
            FS.add_dirs(X.INBUCKET)
            FS.put(X.incoming_path(i), [], mkdirs=False)
    return ss, clock


def _cls(readonly, size):
    return "readonly-server-accepts-zero-size-allocation" if (readonly and size == 0) else "other"


def h_allocate(avail: int, readonly: bool, n_inprog: int, s1: int, s2: int, size: int,
               x0: bool, x1: bool, x2: bool, i0: bool, i1: bool, i2: bool, r0: bool, r1: bool, r2: bool) -> bool:
    """
    pre: 0 <= avail and 0 <= n_inprog <= 2 and 0 <= s1 and 0 <= s2 and 0 <= size <= B["size_max"]
    pre: not (x0 and i0) and not (x1 and i1) and not (x2 and i2)
    pre: B["nsh"] >= 3 or not (x2 or i2 or r2)
    pre: B.get("s0") is None or [x0, i0, r0] == B["s0"]
    post: _ == True
    """
    return X.guard(_h_allocate, avail, readonly, n_inprog, s1, s2, size, x0, x1, x2, i0, i1, i2, r0, r1, r2)


def _h_allocate(avail, readonly, n_inprog, s1, s2, size, x0, x1, x2, i0, i1, i2, r0, r1, r2):
    assume(_cls(readonly, size) not in EXCLUDED)
    ex, inc, req = (x0, x1, x2), (i0, i1, i2), (r0, r1, r2)
    ss, clock = _setup(avail, readonly, s1 if n_inprog >= 1 else None, s2 if n_inprog >= 2 else None, ex, inc)
    inprog = (s1 if n_inprog >= 1 else 0) + (s2 if n_inprog >= 2 else 0)
    if ss.allocated_size() != inprog:
        return "allocated_size is not the sum of the uploads in progress"
    sharenums = set(i for i in range(3) if req[i])
    try:
        already, writers = ss.allocate_buckets(X.SI, RS, CS, sharenums, size)
    except NoSpace:
        # renewing the lease on an already stored share needs 72 bytes
        if not (any(ex) and ILEASE > (0 if readonly else avail)):
            return "NoSpace raised although leases fit"
        if len(ss._bucket_writers) != n_inprog:
            return "failed allocation left a reservation behind"
        return True
    if already != set(i for i in range(3) if ex[i]):
        return "alreadygot must list every share the server holds for this storage index"
    got = sorted(writers.keys())
    cand = [i for i in range(3) if req[i] and not ex[i] and not inc[i]]
    for i in got:
        if i not in cand:
            return "a writer was handed out for a share that is not requested / already stored / already being uploaded"
    k = len(got)
    free = (0 if readonly else avail) - inprog          # what may still be promised
    if readonly and k != 0:
        return "a read-only server accepted an allocation"
    if k * size > (free if free > 0 else 0):
        return "accepted allocations + uploads in progress exceed the available space"
    if not readonly and k < len(cand) and (k + 1) * size <= free:
        return "allocation refused although it fits"
    if ss.allocated_size() != inprog + k * size:
        return "accepted allocations are not counted as reserved"
    for i in got:
        if writers[i].allocated_size() != size or not FS.os.path.exists(X.incoming_path(i)):
            return "writer does not reserve the requested size / has no incoming file"
    return True


def h_release(avail: int, size: int, ev: int, size2: int, avail2: int, other_si: bool) -> bool:
    """
    pre: 0 <= avail and 1 <= size <= B["size_max"] and 2 * size <= avail and 0 <= ev <= 3
    pre: 1 <= size2 <= B["size_max"] and 0 <= avail2
    post: _ == True
    """
    return X.guard(_h_release, avail, size, ev, size2, avail2, other_si)


def _h_release(avail, size, ev, size2, avail2, other_si):
    ss, clock = _setup(avail, False, None, None, (False,) * 3, (False,) * 3)
    if other_si:
        # the second upload belongs to ANOTHER storage index with the same 2-character prefix directory (incoming/aa/...)
        already, writers = ss.allocate_buckets(X.SI, RS, CS, set([0]), size)
        already_b, writers_b = ss.allocate_buckets(SI2, RS, CS, set([0]), size)
        other_incoming = "%s/%s/0" % (X.INCOMING, server_mod.storage_index_to_dir(SI2))
        if sorted(writers.keys()) != [0] or sorted(writers_b.keys()) != [0]:
            return "two allocations that fit were not both accepted"
    else:
        already, writers = ss.allocate_buckets(X.SI, RS, CS, set([0, 1]), size)
        other_incoming = X.incoming_path(1)
        if sorted(writers.keys()) != [0, 1]:
            return "two allocations that fit were not both accepted"
    if ss.allocated_size() != 2 * size:
        return "two accepted allocations are not both reserved"
    bw = writers[0]
    if ev == 0:
        bw.close()
    elif ev == 1:
        bw.abort()
    elif ev == 2:
        clock.timers[0].fire()
    else:
        bw.disconnected()
    if ss.allocated_size() != size:
        return "reservation not released when the upload completed / was aborted"
    if sorted(ss._bucket_writers.keys()) != [other_incoming]:
        return "wrong writer removed from the in-progress table"
    if not FS.os.path.exists(other_incoming):
        return "ending one upload removed another upload's incoming file"
    if not bw.closed or clock.timers[0].active():
        return "ended upload is not marked closed / its timer is still pending"
    # the released space can be promised again: share 2, new free-space reading
    FS.fileutil.avail = avail2
    try:
        already2, writers2 = ss.allocate_buckets(X.SI, RS, CS, set([2]), size2)
    except NoSpace:
        assume(False)
    fits = avail2 - size >= size2
    if (sorted(writers2.keys()) == [2]) != fits:
        return "after the release the next allocation must be decided against free space minus the ONE upload still in progress"
    return True


class _VFS(object):
    def __init__(self, frsize, blocks, bfree, bavail):
        self.f_frsize, self.f_blocks, self.f_bfree, self.f_bavail = frsize, blocks, bfree, bavail


def h_disk_stats(blocks: int, bfree: int, bavail: int, reserved: int, readonly: bool, fails: bool) -> bool:
    """
    pre: 0 <= bavail <= bfree <= blocks and 0 <= reserved
    post: _ == True
    """
    return X.guard(_h_disk_stats, blocks, bfree, bavail, reserved, readonly, fails)


def _h_disk_stats(blocks, bfree, bavail, reserved, readonly, fails):
    frsize = B["frsize"]
    X.reset()
    ss = X.mk_server(readonly=readonly, reserved=reserved)

    class _OS(object):
        @staticmethod
        def statvfs(path):
            if fails:
                raise OSError(5, "EIO")
            return _VFS(frsize, blocks, bfree, bavail)
    saved = (real_fileutil.os, server_mod.fileutil, real_fileutil.have_GetDiskFreeSpaceExW)
    real_fileutil.os, server_mod.fileutil, real_fileutil.have_GetDiskFreeSpaceExW = _OS, real_fileutil, False
    try:
        got = ss.get_available_space()
    finally:
        real_fileutil.os, server_mod.fileutil, real_fileutil.have_GetDiskFreeSpaceExW = saved
    free = frsize * bavail
    want = 0 if (readonly or fails) else (free - reserved if free > reserved else 0)
    if got != want:
        return "available space must be max(0, free for non-root - reserved_space); 0 when read-only or the OS call fails"
    return True


CLASSIFY = {
    "h_allocate": lambda avail, readonly, n_inprog, s1, s2, size, *rest: _cls(readonly, size),
}
