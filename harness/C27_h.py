"""
C27 — the share crawler covers every bucket in every cycle, under time-slice interruptions and restarts.

Executed for real: ShareCrawler.__init__/load_state/save_state/startService/start_slice/start_current_prefix/
process_prefixdir/get_state, _LeaseStateSerializer (+ _confirm_json_format/_dump_json_to_file, real json round trip),
and for the lease-checker obligations LeaseCheckingCrawler.__init__/add_initial_state/started_cycle/process_bucket/
process_share/finished_cycle/get_state/add_lease_age_to_histogram and _HistorySerializer.

Environment (all harness-owned):
  * an in-memory file system behind twisted's FilePath / fileutil.move_into_place (survives "process kills"),
  * os.listdir over a fixed bucket layout, prefixes cut to 3 entries,
  * reactor.callLater records the timer; the harness fires it,
  * the clock stands still except that it jumps past the slice budget at the j1-th and j2-th *clock read*
    (symbolic 1 <= j1 < j2 <= J): the crawler can only be interrupted where it reads the clock, so this ranges over
    every interruption pattern with at most two interruptions,
  * a symbolic crash index c: right after the c-th event (a process_bucket call or a file commit) the in-memory
    crawler is thrown away and a new one is constructed from what is on the in-memory disk.
"""
import io
import os as _real_os
from vlib import hlib
from vlib.hlib import NS, assume
hlib.ensure_shims()
from allmydata.storage import crawler as crawler_mod, expirer
from allmydata.storage.crawler import ShareCrawler
from allmydata.storage.lease import LeaseInfo
from allmydata.storage import lease as lease_mod

B = hlib.bounds()
# PREFIXES is the order in which the constructor *generates* the prefixes (the real table is generated in base32-alphabet
# order, a..z then 2..7, which is not ASCII order: "bq" is generated before "b3"); the crawl must follow ASCII order
PREFIXES = B.get("prefixes", ["aa", "ab", "ac"])
LAYOUT = B.get("layout", [["aa1", "aa2"], [], ["ac1"]])      # LAYOUT[i] = buckets of PREFIXES[i]
J = B.get("J", 40)
MAXSLICES = 14
TRANSIENT = "ab5"
MAXPERM = 6 if max(len(x or []) for x in LAYOUT) >= 3 else 2      # distinct listing orders worth trying for this layout

NOTES = [
    "ShareCrawler.prefixes cut from 1024 to 3 entries (aa, ab, ac): during construction `range(2**10)` in storage.crawler yields 3 values and "
    "si_b2a maps them to aa/ab/ac, so the real constructor builds the short table itself (the full table costs 2.6 s per path under tracing)",
    "twisted FilePath / fileutil.move_into_place in storage.crawler and storage.expirer replaced by an in-memory file system that survives restarts",
    "os.listdir in storage.crawler / storage.expirer answers from a fixed bucket layout",
    "json in storage.crawler / storage.expirer: the real module, executed with CrossHair tracing off (state is concrete)",
    "reactor.callLater in storage.crawler records the timer; the harness fires it (no reactor)",
    "time.time in storage.crawler / storage.expirer / storage.lease: concrete clock that jumps by 5 s at the j1-th and j2-th read (symbolic indices)",
    "process kill: a harness exception (BaseException subclass) thrown right after the c-th event; afterwards only the in-memory disk is kept",
    "lease-checker obligations: expirer.get_share_file returns an in-memory share with one lease; LeaseCheckingCrawler.stat stubbed",
]
hlib.encoded(ShareCrawler.__init__, ShareCrawler.load_state, ShareCrawler.save_state, ShareCrawler.startService,
             ShareCrawler.start_slice, ShareCrawler.start_current_prefix, ShareCrawler.process_prefixdir,
             ShareCrawler.get_state, crawler_mod._LeaseStateSerializer, crawler_mod._confirm_json_format,
             crawler_mod._dump_json_to_file)


class _Crash(BaseException):
    """the process is killed here"""


class _World(object):
    """everything that outlives one harness call is reset in reset()"""

    def reset(self, j1, j2, crash_at):
        self.files = {}
        self.reads = 0
        self.now = 1000.0
        self.jumps = [j1, j2]      # increasing; consumed front to back
        self.events = 0
        self.crash_at = crash_at
        self.crashed = 0
        self.timers = []
        self.log = []          # (incarnation, kind, ...)
        self.incarnation = 0
        self.listings = 0
        self.perm = None       # None: listings come reversed; else index of the permutation applied to every directory listing
        self.torn_writes = False   # kills may also hit between open(..., "wb") and close of a file written in place
        self.new_bucket_after_cycle0 = False   # bucket TRANSIENT is created right after cycle 0 has finished
        self.finished_count = 0
        self.restart_after = 0  # clean stop + restart after this many completed slices (0 = never)
        self.slices_done = 0
        self.transient = None  # (k, appears): bucket TRANSIENT exists from / until the k-th prefix listing

    def event(self):
        self.events += 1
        if self.events == self.crash_at:
            self.crashed += 1
            raise _Crash()


W = _World()


class _Clock(object):
    def time(self):
        W.reads += 1
        if W.jumps and W.reads == W.jumps[0]:
            W.jumps.pop(0)
            W.now = W.now + 5.0
        return W.now


class _WFile(object):
    """a file opened for writing.  Opening truncates: from that moment until the close the file on disk is empty / partial
    (modelled as empty).  A file named *.tmp is scratch space that is later renamed over the real file (atomic); anything else is
    written IN PLACE, so the moment between open and close is one more point where the process can be killed (W.torn_writes)."""

    def __init__(self, path):
        self.path = path
        self.buf = []
        W.files[path] = b""
        if W.torn_writes and not path.endswith(".tmp"):
            W.event()

    def write(self, data):
        self.buf.append(data)

    def __enter__(self):
        return self

    def __exit__(self, et, ev, tb):
        if et is None:
            W.files[self.path] = b"".join(self.buf)
            if not self.path.endswith(".tmp"):
                W.event()
        return False


class FakeFilePath(object):
    def __init__(self, path):
        self.path = path

    def exists(self):
        return self.path in W.files

    def siblingExtension(self, ext):
        return FakeFilePath(self.path + ext)

    def open(self, mode="r"):
        if "w" in mode:
            return _WFile(self.path)
        if self.path not in W.files:
            raise FileNotFoundError(self.path)
        return io.BytesIO(W.files[self.path])

    def remove(self):
        del W.files[self.path]


def _move_into_place(src, dst):
    W.files[dst] = W.files.pop(src)
    W.event()


_PERMS = {0: [[]], 1: [[0]], 2: [[1, 0], [0, 1]],
          3: [[2, 1, 0], [0, 1, 2], [0, 2, 1], [1, 0, 2], [1, 2, 0], [2, 0, 1]]}


def _permuted(names, perm):
    """directory entries in the order the file system happens to return them"""
    table = _PERMS[len(names)]
    order = table[0] if perm is None else table[perm % len(table)]
    return [names[i] for i in order]


class _DirEntry(object):
    def __init__(self, d, name):
        self.name = name
        self.path = d + "/" + name

    def is_dir(self, follow_symlinks=True):
        return True

    def is_file(self, follow_symlinks=True):
        return False


class _ScanDir(list):
    def __enter__(self):
        return self

    def __exit__(self, *a):
        return False

    def close(self):
        pass


class _FakeOS(object):
    path = _real_os.path

    def scandir(self, d):
        return _ScanDir([_DirEntry(d, n) for n in self.listdir(d)])

    def listdir(self, d):
        if d.startswith("shares/"):
            rest = d[len("shares/"):]
            if rest in PREFIXES:
                if LAYOUT[PREFIXES.index(rest)] is None:
                    raise FileNotFoundError(d)                          # this prefix directory does not exist
                out = _permuted(sorted(LAYOUT[PREFIXES.index(rest)]), W.perm)   # unsorted on purpose
                W.listings += 1
                if W.new_bucket_after_cycle0 and W.finished_count >= 1 and rest == TRANSIENT[:2]:
                    out.append(TRANSIENT)
                if W.transient is not None and rest == TRANSIENT[:2]:
                    (k, appears) = W.transient
                    if (W.listings >= k) == appears:
                        out.append(TRANSIENT)
                return out
            if "/" in rest:
                return ["0"]                                            # a bucket directory: one share
        raise FileNotFoundError(d)


class _Reactor(object):
    def callLater(self, delay, fn):
        t = NS(delay=delay, fn=fn, cancelled=False)
        t.cancel = lambda: setattr(t, "cancelled", True)
        W.timers.append(t)
        return t


class _UntracedJSON(object):
    """the real json module; calls run with CrossHair's tracing switched off (the crawler state is concrete in these harnesses -
    only schedule indices are symbolic - and CrossHair's traced pure-Python json costs ~0.2 s per path)"""

    @staticmethod
    def dumps(obj, *a, **kw):
        import json
        from crosshair.tracers import NoTracing
        with NoTracing():
            return json.dumps(obj, *a, **kw)

    @staticmethod
    def load(f, *a, **kw):
        import json
        from crosshair.tracers import NoTracing
        data = f.read()
        with NoTracing():
            return json.loads(data, *a, **kw)

    @staticmethod
    def loads(data, *a, **kw):
        import json
        from crosshair.tracers import NoTracing
        with NoTracing():
            return json.loads(data, *a, **kw)


crawler_mod.json = _UntracedJSON
expirer.json = _UntracedJSON
crawler_mod.FilePath = FakeFilePath
crawler_mod.fileutil = NS(move_into_place=_move_into_place)
expirer.fileutil = crawler_mod.fileutil      # the history file is also written as *.tmp + move_into_place (atomic on the in-memory disk)
crawler_mod.os = _FakeOS()
crawler_mod.reactor = _Reactor()
crawler_mod.time = _Clock()
expirer.FilePath = FakeFilePath
expirer.os = crawler_mod.os
expirer.time = crawler_mod.time
lease_mod.time = crawler_mod.time


class RecCrawler(ShareCrawler):
    """the crawler under test: a subclass that records the hook calls"""
    cpu_slice = 1.0
    minimum_cycle_time = 300

    def process_bucket(self, cycle, prefix, prefixdir, storage_index_b32):
        W.log.append((W.incarnation, "bucket", cycle, prefix, storage_index_b32))
        if prefixdir != "shares/" + prefix:
            W.log.append((W.incarnation, "bad-prefixdir", prefixdir))
        W.event()

    def started_cycle(self, cycle):
        W.log.append((W.incarnation, "started", cycle))

    def finished_cycle(self, cycle):
        W.log.append((W.incarnation, "finished", cycle))
        W.finished_count += 1

    def yielding(self, sleep_time):
        W.log.append((W.incarnation, "yield", sleep_time, self.state["current-cycle"]))


_real_range = range


def _short_range(*a):
    # ShareCrawler.__init__ builds the table of all 2**10 two-character prefixes (about 2.6 s per path under CrossHair's
    # tracing); here it builds a table of 3
    if a == (2 ** 10,):
        return _real_range(len(PREFIXES))
    return _real_range(*a)


def _short_si_b2a(packed):
    import struct
    (v,) = struct.unpack(">H", packed)
    return PREFIXES[v >> 6].encode("ascii") + b"xx"


def _new_crawler(cls, *extra):
    W.incarnation += 1
    saved = crawler_mod.si_b2a
    crawler_mod.range = _short_range
    crawler_mod.si_b2a = _short_si_b2a
    try:
        c = cls(NS(sharedir="shares"), "storage/crawler.state", *extra)
    finally:
        del crawler_mod.range
        crawler_mod.si_b2a = saved
    if sorted(c.prefixes) != sorted(PREFIXES):
        raise hlib.HarnessError("prefix table cut failed: %r" % (c.prefixes,))
    c.startService()
    return c


CORRUPT = "corrupt"


def _disk_state():
    p = "storage/crawler.state.json"
    if p not in W.files:
        return None
    try:
        return _UntracedJSON.loads(W.files[p])
    except ValueError:
        return CORRUPT


def _all_buckets():
    out = []
    for p in sorted(PREFIXES):              # the documented crawl order: prefixes ascending, buckets ascending
        i = PREFIXES.index(p)
        for b in sorted(LAYOUT[i] or []):
            out.append((p, b))
    return out


def _boot(cls, extra):
    """start a process: construct the crawler from the disk; a kill during construction (the lease checker creates its
    history file there) is followed by another start"""
    for attempt in range(3):
        try:
            return _new_crawler(cls, *extra)
        except _Crash:
            W.timers[:] = []
    raise hlib.HarnessError("more than one kill")


def _drive(cls, extra, want_cycles):
    """fire timers until `want_cycles` cycles are on disk as finished; returns (error or None, lcf_history)"""
    c = _boot(cls, extra)
    lcf_seen = []
    for step in range(MAXSLICES):
        if not W.timers:
            return "crawler stopped re-arming its timer", lcf_seen
        t = W.timers.pop()
        if W.timers:
            return "more than one timer pending", lcf_seen
        if t.cancelled:
            return "pending timer was cancelled", lcf_seen
        try:
            t.fn()
        except _Crash:
            W.timers[:] = []
            st = _disk_state()
            if st == CORRUPT:
                return "a kill inside a state write left no readable copy of the crawler state (position and cycle counter lost)", lcf_seen
            if st is not None and (not lcf_seen or lcf_seen[-1] != st["last-cycle-finished"]):
                lcf_seen.append(st["last-cycle-finished"])
            if st is not None and st["last-cycle-finished"] is not None and st["last-cycle-finished"] >= want_cycles - 1:
                return None, lcf_seen
            c = _boot(cls, extra)
            continue
        st = _disk_state()
        if st is None or st == CORRUPT:
            return "no readable state on disk after a slice", lcf_seen
        lcf = st["last-cycle-finished"]
        if not lcf_seen or lcf_seen[-1] != lcf:
            lcf_seen.append(lcf)
        # sleeping: a full pause after a finished cycle, a short one after an interrupted slice
        if len(W.timers) != 1:
            return "slice did not schedule exactly one wake-up", lcf_seen
        nt = W.timers[0]
        if st["current-cycle"] is None:
            if nt.delay < cls.minimum_cycle_time:
                return "pause between cycles shorter than minimum_cycle_time", lcf_seen
        elif not (0 <= nt.delay <= 299):
            return "sleep after an interrupted slice outside [0, 299]", lcf_seen
        if lcf is not None and lcf >= want_cycles - 1:
            return None, lcf_seen
        W.slices_done += 1
        if W.slices_done == W.restart_after:
            # the node is shut down cleanly between two slices (real stopService: timer cancelled, state saved) and started again
            c.stopService()
            if not nt.cancelled or c.timer is not None:
                return "stopService left the wake-up timer armed", lcf_seen
            W.timers[:] = []
            c = _boot(cls, extra)
    return "did not finish %d cycles within %d slices" % (want_cycles, MAXSLICES), lcf_seen


def _check_lcf(lcf_seen, want_cycles):
    # last-cycle-finished on disk: None (possibly never seen), then 0, 1, ... in steps of one
    seq = [x for x in lcf_seen if x is not None]
    if seq != list(range(want_cycles))[:len(seq)] or len(seq) != want_cycles:
        return "last-cycle-finished on disk did not count 0,1,.. in steps of one: %r" % (lcf_seen,)
    if None in lcf_seen and lcf_seen[0] is not None:
        return "last-cycle-finished went back to None"
    return None


def _check_coverage(want_cycles, exact):
    buckets = _all_buckets()
    for k in range(want_cycles):
        calls = [(e[3], e[4]) for e in W.log if e[1] == "bucket" and e[2] == k]
        if W.transient is not None:
            # a bucket that does not exist throughout the cycle may be processed or not, but at most once without a crash
            if exact and calls.count((TRANSIENT[:2], TRANSIENT)) > 1:
                return "transient bucket processed twice in cycle %d" % k
            calls = [c for c in calls if c != (TRANSIENT[:2], TRANSIENT)]
        for b in buckets:
            n = calls.count(b)
            if n == 0:
                return "cycle %d never processed bucket %s" % (k, b[1])
            if exact and n != 1:
                return "cycle %d processed bucket %s %d times without a crash" % (k, b[1], n)
        for b in calls:
            if b not in buckets:
                return "processed a bucket that does not exist: %r" % (b,)
        if exact and calls != buckets:
            return "cycle %d: buckets not processed in sorted order" % k
    for e in W.log:
        if e[1] == "bad-prefixdir":
            return "process_bucket got prefixdir %r" % (e[2],)
        if e[1] == "bucket" and not (0 <= e[2] < want_cycles):
            return "process_bucket called with cycle number %r" % (e[2],)
    # within one incarnation the order of calls never goes backwards inside a cycle
    for inc in range(1, W.incarnation + 1):
        for k in range(want_cycles):
            calls = [e[4] for e in W.log if e[0] == inc and e[1] == "bucket" and e[2] == k]
            if calls != sorted(calls) or len(set(calls)) != len(calls):
                return "one process processed a bucket twice / out of order within a cycle"
    fin = [e[2] for e in W.log if e[1] == "finished"]
    sta = [e[2] for e in W.log if e[1] == "started"]
    if exact:
        if fin != list(range(want_cycles)) or sta != list(range(want_cycles)):
            return "started_cycle/finished_cycle not called exactly once per cycle, in order: %r %r" % (sta, fin)
    else:
        for k in range(want_cycles):
            if k not in fin or k not in sta:
                return "cycle %d never started/finished" % k
        if fin != sorted(fin) or sta != sorted(sta):
            return "cycle numbers went backwards"
    return None


def h_crawl_no_crash(j1: int, j2: int) -> bool:
    """
    pre: 1 <= j1 < j2 <= J
    post: _ == True
    """
    W.reset(j1, j2, 0)
    err, lcf_seen = _drive(RecCrawler, (), 2)
    if err:
        return err
    if W.crashed:
        return "harness: crash without crash index"
    err = _check_lcf(lcf_seen, 2) or _check_coverage(2, True)
    if err:
        return err
    return True


def h_crawl_transient(j1: int, k: int, appears: bool) -> bool:
    """
    pre: 1 <= j1 <= J
    pre: 1 <= k <= 7
    post: _ == True
    """
    W.reset(j1, J + 1000, 0)
    W.transient = (k, appears)
    err, lcf_seen = _drive(RecCrawler, (), 2)
    if err:
        return err
    err = _check_lcf(lcf_seen, 2) or _check_coverage(2, True)
    if err:
        return err
    return True


def h_crawl_order(j1: int, perm: int) -> bool:
    """
    pre: 1 <= j1 <= J
    pre: 0 <= perm < MAXPERM
    post: _ == True
    """
    W.reset(j1, J + 1000, 0)
    W.perm = perm
    err, lcf_seen = _drive(RecCrawler, (), 2)
    if err:
        return err
    err = _check_lcf(lcf_seen, 2) or _check_coverage(2, True)
    if err:
        return err
    return True


def h_crawl_clean_restart(j1: int, j2: int, restart_after: int) -> bool:
    """
    pre: 1 <= j1 < j2 <= J + 1
    pre: B.get("two_jumps", False) or j2 == J + 1
    pre: 1 <= restart_after <= B.get("restart_max", 5)
    post: _ == True
    """
    W.reset(j1, j2, 0)
    W.restart_after = restart_after
    err, lcf_seen = _drive(RecCrawler, (), 2)
    if err:
        return err
    # nobody was killed in the middle of a slice: exactly once
    err = _check_lcf(lcf_seen, 2) or _check_coverage(2, True)
    if err:
        return err
    return True


def h_crawl_new_bucket(j1: int, j2: int) -> bool:
    """
    pre: 1 <= j1 < j2 <= J + 1
    pre: B.get("two_jumps", False) or j2 == J + 1
    post: _ == True
    """
    W.reset(j1, j2, 0)
    W.new_bucket_after_cycle0 = True
    err, lcf_seen = _drive(RecCrawler, (), 2)
    if err:
        return err
    err = _check_lcf(lcf_seen, 2)
    if err:
        return err
    buckets = _all_buckets()
    c0 = [(e[3], e[4]) for e in W.log if e[1] == "bucket" and e[2] == 0]
    c1 = [(e[3], e[4]) for e in W.log if e[1] == "bucket" and e[2] == 1]
    if c0 != buckets:
        return "cycle 0 did not process exactly the buckets that existed, in order"
    # the bucket was created after cycle 0 finished and exists throughout cycle 1 (same process, no restart)
    want = sorted(buckets + [(TRANSIENT[:2], TRANSIENT)])
    if c1 != want:
        if (TRANSIENT[:2], TRANSIENT) not in c1:
            return "a bucket created between two cycles was not crawled in the next cycle of the same process"
        return "cycle 1 did not process every bucket exactly once, in order"
    return True


def h_crawl_crash(j1: int, crash_at: int) -> bool:
    """
    pre: 1 <= j1 <= J
    pre: 1 <= crash_at <= B.get("crash_max", 16)
    post: _ == True
    """
    W.reset(j1, J + 1000, crash_at)
    W.torn_writes = True
    err, lcf_seen = _drive(RecCrawler, (), 2)
    if err:
        return err
    err = _check_lcf(lcf_seen, 2) or _check_coverage(2, W.crashed == 0)
    if err:
        return err
    return True


# ---- the lease checker's overrides on the same skeleton ------------------------------------------------

hlib.encoded(expirer.LeaseCheckingCrawler.__init__, expirer.LeaseCheckingCrawler.add_initial_state,
             expirer.LeaseCheckingCrawler.started_cycle, expirer.LeaseCheckingCrawler.finished_cycle,
             expirer.LeaseCheckingCrawler.get_state, expirer.LeaseCheckingCrawler.process_bucket,
             expirer.LeaseCheckingCrawler.process_share, expirer.LeaseCheckingCrawler.add_lease_age_to_histogram,
             expirer.LeaseCheckingCrawler.convert_lease_age_histogram, expirer._HistorySerializer)

DAY = 24 * 60 * 60


class _OneLeaseShare(object):
    sharetype = "immutable"

    def __init__(self):
        # granted 11 days before the harness clock's origin (1000.0): expires in 20 days
        self.lease = LeaseInfo(owner_num=1, renew_secret=b"r" * 32, cancel_secret=b"c" * 32,
                               expiration_time=1000 + 20 * DAY, nodeid=b"n" * 20)

    def get_leases(self):
        return iter([self.lease])

    def cancel_lease(self, secret):
        raise hlib.HarnessError("expiration is disabled in this harness")


expirer.get_share_file = lambda fn: _OneLeaseShare()


class RecLease(expirer.LeaseCheckingCrawler):
    cpu_slice = 1.0
    minimum_cycle_time = 300
    slow_start = 360

    def stat(self, fn):
        return NS(st_size=100, st_blocks=1)

    def process_bucket(self, cycle, prefix, prefixdir, storage_index_b32):
        W.log.append((W.incarnation, "bucket", cycle, prefix, storage_index_b32))
        if prefixdir != "shares/" + prefix:
            W.log.append((W.incarnation, "bad-prefixdir", prefixdir))
        expirer.LeaseCheckingCrawler.process_bucket(self, cycle, prefix, prefixdir, storage_index_b32)
        W.event()

    def started_cycle(self, cycle):
        W.log.append((W.incarnation, "started", cycle))
        expirer.LeaseCheckingCrawler.started_cycle(self, cycle)

    def finished_cycle(self, cycle):
        W.log.append((W.incarnation, "finished", cycle))
        expirer.LeaseCheckingCrawler.finished_cycle(self, cycle)


EXCLUDED = []       # witness classes listed in known_findings.json are assumed away when the worker puts them here
RESTART_CLASS = "restart-mid-cycle:lease-age-histogram-reloaded-as-list"
HISTORY_CLASS = "kill-inside-history-write:history-file-unreadable"


def _exc_class(e):
    import traceback
    names = [f.name for f in traceback.extract_tb(e.__traceback__)]
    if isinstance(e, (TypeError, ValueError)) and ("add_lease_age_to_histogram" in names or "convert_lease_age_histogram" in names):
        return RESTART_CLASS
    files = [f.filename for f in traceback.extract_tb(e.__traceback__)]
    if isinstance(e, ValueError) and any(fn.endswith("expirer.py") and nm == "load" for fn, nm in zip(files, names)):
        return HISTORY_CLASS
    return "exception:" + type(e).__name__


def _classify_restart(j1, crash_at):
    try:
        r = h_lease_cycle_restart(j1, crash_at)
    except Exception as e:
        return _exc_class(e)
    return "held" if r is True else "oracle:" + str(r)


CLASSIFY = {"h_lease_cycle_restart": _classify_restart}
_LEASE_ARGS = ("storage/lease.history", False, "age", None, None, ("mutable", "immutable"))


def _check_history(want_cycles, exact):
    p = "storage/lease.history.json"
    if p not in W.files:
        return "no history file"
    hist = _UntracedJSON.loads(W.files[p])
    nb = len(_all_buckets())
    for k in range(want_cycles):
        h = hist.get(str(k))
        if h is None:
            return "history has no entry for finished cycle %d" % k
        sr = h["space-recovered"]
        n = sr["examined-buckets"]
        if n < nb or (exact and n != nb):
            return "history of cycle %d: examined-buckets == %r with %d buckets" % (k, n, nb)
        if sr["examined-shares"] != n or sr["actual-shares"] != 0:
            return "history of cycle %d: share counters" % k
        lah = h["lease-age-histogram"]
        if len(lah) != 1 or list(lah[0][:2]) != [11 * DAY, 12 * DAY] or lah[0][2] != n:
            return "history of cycle %d: lease-age histogram %r" % (k, lah)
        if h["leases-per-share-histogram"] != {"1": n}:
            return "history of cycle %d: leases-per-share histogram" % k
    if sorted(hist.keys()) != [str(k) for k in range(want_cycles)]:
        return "history has entries for cycles that did not finish: %r" % (sorted(hist.keys()),)
    return None


def h_lease_cycle_no_crash(j1: int, j2: int) -> bool:
    """
    pre: 1 <= j1 < j2 <= J + 1
    pre: B.get("two_jumps", True) or j2 == J + 1
    post: _ == True
    """
    W.reset(j1, j2, 0)
    err, lcf_seen = _drive(RecLease, _LEASE_ARGS, 2)
    if err:
        return err
    err = _check_lcf(lcf_seen, 2) or _check_coverage(2, True) or _check_history(2, True)
    if err:
        return err
    return True


def h_lease_cycle_restart(j1: int, crash_at: int) -> bool:
    """
    pre: 1 <= j1 <= J
    pre: 1 <= crash_at <= B.get("crash_max", 16)
    post: _ == True
    """
    W.reset(j1, J + 1000, crash_at)
    W.torn_writes = B.get("torn_writes", True)
    try:
        err, lcf_seen = _drive(RecLease, _LEASE_ARGS, 2)
    except Exception as e:
        if _exc_class(e) in EXCLUDED:
            assume(False)
        raise
    if err:
        return err
    exact = (W.crashed == 0)
    err = _check_lcf(lcf_seen, 2) or _check_coverage(2, exact) or _check_history(2, exact)
    if err:
        return err
    return True
