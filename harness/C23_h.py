"""
C23 — mutable share containers behave like growable byte arrays.

The real MutableShareFile methods run on the in-memory filesystem of _fakefile.py.  One operation
from an ARBITRARY consistent container state (symbolic data length, extra-lease offset, stale bytes
in the slack, 0..2 extra leases), arbitrary operands, and a universally quantified probe position p.
Integers are bounded only by the representation invariant (header fields < 2^64, container <= MAX_SIZE).
"""
from vlib import hlib
from vlib.hlib import ProvBuf, assume
import _sharefix as X
from _sharefix import FS, FStruct, MSF, DATA_OFFSET, MLEASE, MAX_SIZE, Garbage
from allmydata.storage import mutable as mut, server as server_mod
from allmydata.storage.common import DataTooLargeError

B = hlib.bounds()
NOTES = X.NOTES + [
    "b'\\x00' * n in MutableShareFile._write_share_data/_change_container_size recompiled to yield a provenance run of n zeros",
]
hlib.encoded(MSF._read_share_data, MSF._read_data_length, MSF._write_data_length, MSF._read_extra_lease_offset,
             MSF._write_extra_lease_offset, MSF._read_num_extra_leases, MSF.writev, MSF.readv, MSF.check_testv,
             MSF.__init__, mut.testv_compare, mut.EmptyShare.check_testv)

PATH = "/s/shares/aa/aaaa/0"
PARENT = X.Parent()


_SLOTS = [X.mlease_rec(1, 1000 + i, X.tok("r", i), X.tok("c", i)) for i in range(4)]
_EXTRAS = [X.mlease_rec(1, 2000 + i, X.tok("xr", i), X.tok("xc", i)) for i in range(3)]


def _slots():
    return list(_SLOTS)


def _extras(n):
    return _EXTRAS[:n]


def _model_byte(dl, off, ln, p):
    """byte-array model of one write: what position p holds afterwards (p < new length)."""
    if off <= p < off + ln:
        return ("new", p - off)
    if p < dl:
        return ("old", p)
    return (ProvBuf.ZERO, 0)


def _check_leases(st, elo2, slots, extras):
    """in-header slots and the extra-lease block hold exactly the records of the pre-state."""
    for i in range(4):
        got = X.rec_values(st, X.HEADER_SIZE + i * MLEASE, ">LL32s32s20s")
        if got != tuple(slots[i].values):
            return "in-header lease slot %d changed by a data write" % i
    (cnt,) = X.rec_values(st, elo2, ">L")
    if isinstance(cnt, Garbage) or cnt != len(extras):
        return "extra lease count lost"
    for i in range(len(extras)):
        got = X.rec_values(st, elo2 + 4 + i * MLEASE, ">LL32s32s20s")
        if got != tuple(extras[i].values):
            return "extra lease %d lost or altered" % i
    if st.size != elo2 + 4 + len(extras) * MLEASE:
        return "file does not end with the extra lease block"
    return None


def _check_header(st, dl2):
    """-> (error, extra lease offset now in the header)"""
    (magic, nodeid, we, dlf, elof) = X.rec_values(st, 0, ">32s20s32sQQ")
    if magic != X.MAGIC[2] or nodeid != X.NODEID or we != X.WE_GOOD:
        return "magic / nodeid / write enabler altered", None
    if isinstance(dlf, Garbage) or dlf != dl2:
        return "data length field is not the byte-array length", None
    if isinstance(elof, Garbage) or not X.mutable_inv(dl2, elof):
        return "container invariant broken: need 468 + data_length <= extra_lease_offset <= 468 + MAX_SIZE", None
    return None, elof


def _do_write(dl, elo, nx, off, ln):
    """-> (file state, slots, extras, rejected?)"""
    FS.reset()
    slots, extras = _slots(), _extras(nx)
    st = X.mk_mutable(PATH, dl, elo, slots, extras)
    sf = MSF(PATH, PARENT)
    data = ProvBuf.src("new", ln)
    try:
        with FS.open(PATH, "rb+") as f:
            sf._write_share_data(f, off, data)
    except DataTooLargeError:
        return st, slots, extras, True
    return st, slots, extras, False


def h_write(dl: int, elo: int, nx: int, off: int, ln: int, p: int) -> bool:
    """
    pre: X.mutable_inv(dl, elo) and nx == B["nx"]
    pre: 0 <= off and 0 <= ln and 0 <= p
    post: _ == True
    """
    st, slots, extras, rejected = _do_write(dl, elo, nx, off, ln)
    if rejected:
        if off + ln <= MAX_SIZE:
            return "DataTooLargeError for a write that fits"
        if FS.nops != 0:
            return "rejected write changed the file"
        return True
    if off + ln > MAX_SIZE:
        return "write beyond MAX_SIZE accepted"
    dl2 = dl if dl > off + ln else off + ln
    (dlf,) = X.rec_values(st, MSF.DATA_LENGTH_OFFSET, ">Q")
    if isinstance(dlf, Garbage) or dlf != dl2:
        return "data length field is not the byte-array length"
    if p < dl2:
        if st.at(DATA_OFFSET + p) != _model_byte(dl, off, ln, p):
            return "byte at probe is not what the byte-array model says"
    return True


def h_write_leases(dl: int, elo: int, nx: int, off: int, ln: int) -> bool:
    """
    pre: X.mutable_inv(dl, elo) and nx == B["nx"]
    pre: 0 <= off and 0 <= ln and off + ln <= MAX_SIZE
    post: _ == True
    """
    st, slots, extras, rejected = _do_write(dl, elo, nx, off, ln)
    if rejected:
        return "DataTooLargeError for a write that fits"
    dl2 = dl if dl > off + ln else off + ln
    bad, elo2 = _check_header(st, dl2)
    bad = bad or _check_leases(st, elo2, slots, extras)
    if bad:
        return bad
    return True


def h_read(dl: int, elo: int, nx: int, off: int, ln: int, p: int) -> bool:
    """
    pre: X.mutable_inv(dl, elo) and 0 <= nx <= 1
    pre: 0 <= off and 0 <= ln and 0 <= p
    post: _ == True
    """
    FS.reset()
    st = X.mk_mutable(PATH, dl, elo, _slots(), _extras(nx))
    sf = MSF(PATH, PARENT)
    with FS.open(PATH, "rb") as f:
        got = sf._read_share_data(f, off, ln)
    end = off + ln if off + ln < dl else dl
    want_len = end - off if end > off else 0
    if len(got) != want_len:
        return "read is not clipped at the data length"
    if p < want_len and got.at(p) != ("old", off + p):
        return "read returned the wrong bytes"
    if sf.get_length() != dl:
        return "get_length"
    if FS.nops != 0:
        return "read modified the file"
    return True
