"""
C23 — mutable share containers behave like growable byte arrays.

The real MutableShareFile methods run on the in-memory filesystem of _fakefile.py.  One operation
from an ARBITRARY consistent container state (symbolic data length, extra-lease offset, stale bytes
in the slack, 0..2 extra leases), arbitrary operands, and a universally quantified probe position p.
Integers are bounded only by the representation invariant (header fields < 2^64, container <= MAX_SIZE).
"""
from vlib import hlib
from vlib.hlib import ProvBuf, assume
import _sharefix as X
from _sharefix import FS, FStruct, MSF, DATA_OFFSET, MLEASE, MAX_SIZE, Garbage
from allmydata.storage import mutable as mut, server as server_mod
from allmydata.storage.common import DataTooLargeError

B = hlib.bounds()
NOTES = X.NOTES + [
    "b'\\x00' * n in MutableShareFile._write_share_data/_change_container_size recompiled to yield a provenance run of n zeros",
]
hlib.encoded(MSF._read_share_data, MSF._read_data_length, MSF._write_data_length, MSF._read_extra_lease_offset,
             MSF._write_extra_lease_offset, MSF._read_num_extra_leases, MSF.writev, MSF.readv, MSF.check_testv,
             MSF.__init__, mut.testv_compare, mut.EmptyShare.check_testv)

PATH = X.share_path(0)
PARENT = X.Parent()


_SLOTS = [X.mlease_rec(1, 1000 + i, X.tok("r", i), X.tok("c", i)) for i in range(4)]
_EXTRAS = [X.mlease_rec(1, 2000 + i, X.tok("xr", i), X.tok("xc", i)) for i in range(3)]


def _slots():
    return list(_SLOTS)


def _extras(n):
    return _EXTRAS[:n]


def _model_byte(dl, off, ln, p):
    """byte-array model of one write: what position p holds afterwards (p < new length)."""
    if off <= p < off + ln:
        return ("new", p - off)
    if p < dl:
        return ("old", p)
    return (ProvBuf.ZERO, 0)


def _check_leases(st, elo2, slots, extras):
    """in-header slots and the extra-lease block hold exactly the records of the pre-state."""
    for i in range(4):
        got = X.rec_values(st, X.HEADER_SIZE + i * MLEASE, ">LL32s32s20s")
        if got != tuple(slots[i].values):
            return "in-header lease slot %d changed by a data write" % i
    (cnt,) = X.rec_values(st, elo2, ">L")
    if isinstance(cnt, Garbage) or cnt != len(extras):
        return "extra lease count lost"
    for i in range(len(extras)):
        got = X.rec_values(st, elo2 + 4 + i * MLEASE, ">LL32s32s20s")
        if got != tuple(extras[i].values):
            return "extra lease %d lost or altered" % i
    if st.size != elo2 + 4 + len(extras) * MLEASE:
        return "file does not end with the extra lease block"
    return None


def _check_header(st, dl2):
    """-> (error, extra lease offset now in the header)"""
    (magic, nodeid, we, dlf, elof) = X.rec_values(st, 0, ">32s20s32sQQ")
    if magic != X.MAGIC[2] or nodeid != X.NODEID or we != X.WE_GOOD:
        return "magic / nodeid / write enabler altered", None
    if isinstance(dlf, Garbage) or dlf != dl2:
        return "data length field is not the byte-array length", None
    if isinstance(elof, Garbage) or not X.mutable_inv(dl2, elof):
        return "container invariant broken: need 468 + data_length <= extra_lease_offset <= 468 + MAX_SIZE", None
    return None, elof


def _do_write(dl, elo, nx, off, ln):
    """-> (file state, slots, extras, rejected?)"""
    X.reset()
    slots, extras = _slots(), _extras(nx)
    st = X.mk_mutable(PATH, dl, elo, slots, extras)
    sf = MSF(PATH, PARENT)
    data = ProvBuf.src("new", ln)
    try:
        with FS.open(PATH, "rb+") as f:
            sf._write_share_data(f, off, data)
    except DataTooLargeError:
        return st, slots, extras, True
    return st, slots, extras, False


def h_write(dl: int, elo: int, nx: int, off: int, ln: int, p: int) -> bool:
    """
    pre: X.mutable_inv(dl, elo) and nx == B["nx"]
    pre: 0 <= off and 0 <= ln and 0 <= p
    post: _ == True
    """
    return X.guard(_h_write, dl, elo, nx, off, ln, p)


def _h_write(dl, elo, nx, off, ln, p):
    st, slots, extras, rejected = _do_write(dl, elo, nx, off, ln)
    if rejected:
        if off + ln <= MAX_SIZE:
            return "DataTooLargeError for a write that fits"
        if FS.nops != 0:
            return "rejected write changed the file"
        return True
    if off + ln > MAX_SIZE:
        return "write beyond MAX_SIZE accepted"
    dl2 = dl if dl > off + ln else off + ln
    (dlf,) = X.rec_values(st, MSF.DATA_LENGTH_OFFSET, ">Q")
    if isinstance(dlf, Garbage) or dlf != dl2:
        return "data length field is not the byte-array length"
    if p < dl2:
        if st.at(DATA_OFFSET + p) != _model_byte(dl, off, ln, p):
            return "byte at probe is not what the byte-array model says"
    return True


def h_write_leases(dl: int, elo: int, nx: int, off: int, ln: int) -> bool:
    """
    pre: X.mutable_inv(dl, elo) and nx == B["nx"]
    pre: 0 <= off and 0 <= ln and off + ln <= MAX_SIZE
    post: _ == True
    """
    return X.guard(_h_write_leases, dl, elo, nx, off, ln)


def _h_write_leases(dl, elo, nx, off, ln):
    st, slots, extras, rejected = _do_write(dl, elo, nx, off, ln)
    if rejected:
        return "DataTooLargeError for a write that fits"
    dl2 = dl if dl > off + ln else off + ln
    bad, elo2 = _check_header(st, dl2)
    bad = bad or _check_leases(st, elo2, slots, extras)
    if bad:
        return bad
    return True


def h_read(dl: int, elo: int, nx: int, off: int, ln: int, p: int) -> bool:
    """
    pre: X.mutable_inv(dl, elo) and 0 <= nx <= 1
    pre: 0 <= off and 0 <= ln and 0 <= p
    post: _ == True
    """
    return X.guard(_h_read, dl, elo, nx, off, ln, p)


def _h_read(dl, elo, nx, off, ln, p):
    X.reset()
    st = X.mk_mutable(PATH, dl, elo, _slots(), _extras(nx))
    sf = MSF(PATH, PARENT)
    with FS.open(PATH, "rb") as f:
        got = sf._read_share_data(f, off, ln)
    end = off + ln if off + ln < dl else dl
    want_len = end - off if end > off else 0
    if len(got) != want_len:
        return "read is not clipped at the data length"
    if p < want_len and got.at(p) != ("old", off + p):
        return "read returned the wrong bytes"
    if sf.get_length() != dl:
        return "get_length"
    if FS.nops != 0:
        return "read modified the file"
    return True


def h_writev_truncate(dl: int, elo: int, off: int, ln: int, has_new: bool, newlen: int, p: int) -> bool:
    """
    pre: X.mutable_inv(dl, elo)
    pre: 0 <= off and 0 <= ln and off + ln <= MAX_SIZE and 0 <= p and 0 <= newlen
    post: _ == True
    """
    return X.guard(_h_writev_truncate, dl, elo, off, ln, has_new, newlen, p)


def _h_writev_truncate(dl, elo, off, ln, has_new, newlen, p):
    X.reset()
    slots, extras = _slots(), _extras(0)
    st = X.mk_mutable(PATH, dl, elo, slots, extras)
    sf = MSF(PATH, PARENT)
    nl = newlen if has_new else None
    sf.writev([(off, ProvBuf.src("new", ln))], nl)
    l1 = dl if dl > off + ln else off + ln
    l2 = newlen if (has_new and newlen < l1) else l1
    bad, elo2 = _check_header(st, l2)
    if bad:
        return bad
    if p < l2 and st.at(DATA_OFFSET + p) != _model_byte(dl, off, ln, p):
        return "byte at probe after writev is not what the byte-array model says"
    return True


class _Rec(object):
    def __init__(self):
        self.calls = []


def h_writev_order(dl: int, nvec: int, o1: int, o2: int, o3: int, has_new: bool, newlen: int) -> bool:
    """
    pre: X.mutable_inv(dl, DATA_OFFSET + dl) and 0 <= nvec <= 3 and 0 <= newlen
    pre: 0 <= o1 <= MAX_SIZE and 0 <= o2 <= MAX_SIZE and 0 <= o3 <= MAX_SIZE
    post: _ == True
    """
    return X.guard(_h_writev_order, dl, nvec, o1, o2, o3, has_new, newlen)


def _h_writev_order(dl, nvec, o1, o2, o3, has_new, newlen):
    # writev == apply _write_share_data to each vector in order on one open file, then truncate:
    # the real writev runs with a recording _write_share_data (whose effect on the length field is the
    # byte-array one, as established by the `write` obligation)
    X.reset()
    st = X.mk_mutable(PATH, dl, DATA_OFFSET + dl, _slots(), _extras(0))
    sf = MSF(PATH, PARENT)
    calls = []
    cur = [dl]

    def rec(f, offset, data):
        calls.append((f, offset, data))
        if offset + len(data) > cur[0]:
            cur[0] = offset + len(data)
        sf._write_data_length(f, cur[0])
    sf._write_share_data = rec
    vecs = [(o1, ProvBuf.src("d1", 1)), (o2, ProvBuf.src("d2", 2)), (o3, ProvBuf.src("d3", 3))][:nvec]
    sf.writev(vecs, newlen if has_new else None)
    if len(calls) != nvec:
        return "writev did not apply every write vector exactly once"
    for i in range(nvec):
        if calls[i][1] is not vecs[i][0] or calls[i][2] is not vecs[i][1] or calls[i][0] is not calls[0][0]:
            return "writev applied the vectors out of order / on different files"
    want = newlen if (has_new and newlen < cur[0]) else cur[0]
    (dlf,) = X.rec_values(st, MSF.DATA_LENGTH_OFFSET, ">Q")
    if dlf != want:
        return "writev truncation: length must become min(length after the writes, new_length)"
    return True


def h_writev_two(dl: int, elo: int, o1: int, l1: int, o2: int, l2: int, p: int) -> bool:
    """
    pre: X.mutable_inv(dl, elo) and elo == DATA_OFFSET + B["cont_max"]
    pre: 0 <= o1 and 0 <= l1 and o1 + l1 <= B["cont_max"] and 0 <= o2 and 0 <= l2 and o2 + l2 <= B["cont_max"] and 0 <= p
    post: _ == True
    """
    return X.guard(_h_writev_two, dl, elo, o1, l1, o2, l2, p)


def _h_writev_two(dl, elo, o1, l1, o2, l2, p):
    X.reset()
    slots, extras = _slots(), _extras(0)
    st = X.mk_mutable(PATH, dl, elo, slots, extras)
    sf = MSF(PATH, PARENT)
    sf.writev([(o1, ProvBuf.src("new", l1)), (o2, ProvBuf.src("new2", l2))], None)
    n1 = dl if dl > o1 + l1 else o1 + l1
    n2 = n1 if n1 > o2 + l2 else o2 + l2
    bad, elo2 = _check_header(st, n2)
    if bad:
        return bad
    if p < n2:
        if o2 <= p < o2 + l2:
            want = ("new2", p - o2)
        elif p < n1:
            want = _model_byte(dl, o1, l1, p)
        else:
            want = (ProvBuf.ZERO, 0)
        if st.at(DATA_OFFSET + p) != want:
            return "two write vectors are not applied in order on the byte array"
    return True


def _clip(dl, o, l):
    end = o + l if o + l < dl else dl
    return end - o if end > o else 0


def h_readv(dl: int, elo: int, o1: int, l1: int, o2: int, l2: int, p: int) -> bool:
    """
    pre: X.mutable_inv(dl, elo)
    pre: 0 <= o1 and 0 <= l1 and 0 <= o2 and 0 <= l2 and 0 <= p
    post: _ == True
    """
    return X.guard(_h_readv, dl, elo, o1, l1, o2, l2, p)


def _h_readv(dl, elo, o1, l1, o2, l2, p):
    X.reset()
    X.mk_mutable(PATH, dl, elo, _slots(), _extras(0))
    sf = MSF(PATH, PARENT)
    got = sf.readv([(o1, l1), (o2, l2)])
    if len(got) != 2:
        return "readv result count"
    for (o, l, g) in ((o1, l1, got[0]), (o2, l2, got[1])):
        want_len = _clip(dl, o, l)
        if len(g) != want_len:
            return "readv not clipped at the data length"
        if p < want_len and g.at(p) != ("old", o + p):
            return "readv returned wrong bytes"
    if FS.nops != 0:
        return "readv modified the file"
    return True


def h_testv(dl: int, elo: int, o1: int, l1: int, so: int, sl: int, second_ok: bool) -> bool:
    """
    pre: X.mutable_inv(dl, elo)
    pre: 0 <= o1 and 0 <= l1 and 0 <= so and 0 <= sl
    post: _ == True
    """
    return X.guard(_h_testv, dl, elo, o1, l1, so, sl, second_ok)


def _h_testv(dl, elo, o1, l1, so, sl, second_ok):
    X.reset()
    X.mk_mutable(PATH, dl, elo, _slots(), _extras(0))
    sf = MSF(PATH, PARENT)
    # test vector: bytes [o1, o1+l1) must equal the specimen = bytes [so, so+sl) of the current data
    specimen = ProvBuf.src("old", sl, so)
    res = sf.check_testv([(o1, l1, b"eq", specimen)])
    cl = _clip(dl, o1, l1)
    want = (cl == sl) and (cl == 0 or so == o1)
    if res != want:
        return "check_testv does not compare the specimen with the current (clipped) data"
    # two vectors: conjunction (the other vector reads beyond every possible end: empty specimen passes, non-empty fails)
    other = (MAX_SIZE + 1, 1, b"eq", b"" if second_ok else ProvBuf.src("zz", 1))
    if sf.check_testv([other, (o1, l1, b"eq", specimen)]) != (want and second_ok):
        return "check_testv with two vectors is not the conjunction"
    if sf.check_testv([(o1, l1, b"eq", specimen), other]) != (want and second_ok):
        return "check_testv with two vectors is not the conjunction (order)"
    # a missing share reads as empty
    if mut.EmptyShare().check_testv([(o1, l1, b"eq", specimen)]) != (sl == 0):
        return "EmptyShare.check_testv: missing share must read as empty"
    if FS.nops != 0:
        return "test vector evaluation modified the file"
    return True


# ---- truncate-to-zero deletes; new shares are created empty (StorageServer._evaluate_write_vectors) ----

_evalw = hlib.strip_logs(X.SS._evaluate_write_vectors)
hlib.encoded(X.SS._allocate_slot_share, mut.create_mutable_sharefile, MSF.create, MSF.unlink,
             X.mutable_schema._Schema.header)
BUCKET = X.BUCKET


def h_delete_create(exists: bool, dl: int, elo: int, off: int, ln: int, nlkind: int, newlen: int, other: bool, p: int) -> bool:
    """
    pre: X.mutable_inv(dl, elo) and nlkind == B["nlkind"] and exists == B["exists"] and 0 <= newlen
    pre: 0 <= off and 0 <= ln and off + ln <= MAX_SIZE and 0 <= p
    post: _ == True
    """
    return X.guard(_h_delete_create, exists, dl, elo, off, ln, nlkind, newlen, other, p)


def _h_delete_create(exists, dl, elo, off, ln, nlkind, newlen, other, p):
    X.reset()
    ss = X.mk_server()
    shares = {}
    slots, extras = _slots(), _extras(0)
    if exists:
        X.mk_mutable(PATH, dl, elo, slots, extras)
        shares[0] = MSF(PATH, ss)
    else:
        dl = 0
    if other:
        X.mk_mutable(BUCKET + "/1", 5, DATA_OFFSET + 5, slots, extras)
    # nlkind 0: new_length None, 1: new_length == 0, 2: new_length == newlen
    nl = None if nlkind == 0 else (0 if nlkind == 1 else newlen)
    secrets = (X.WE_GOOD, X.tok("R", 0), X.tok("C", 0))
    remaining = _evalw(ss, BUCKET, secrets, {0: ([], [(off, ProvBuf.src("new", ln))], nl)}, shares)
    if nl is not None and nl == 0:
        if PATH in FS.files:
            return "new_length == 0 did not delete the share"
        if list(remaining) != []:
            return "deleted share reported as remaining"
        if not other and BUCKET in FS.dirs:
            return "empty bucket directory left behind"
        if other and (BUCKET + "/1") not in FS.files:
            return "deleting one share removed another"
        return True
    if list(remaining) != [0] or PATH not in FS.files:
        return "share missing after a write"
    st = FS.files[PATH]
    l1 = dl if dl > off + ln else off + ln
    l2 = nl if (nl is not None and nl < l1) else l1
    (magic, nodeid, we, dlf, elof) = X.rec_values(st, 0, ">32s20s32sQQ")
    if magic != X.MAGIC[2] or nodeid != X.NODEID or we != X.WE_GOOD:
        return "magic / nodeid / write enabler of the container wrong"
    if dlf != l2 or not X.mutable_inv(l2, elof):
        return "length / container invariant wrong after create+write"
    if st.size != elof + 4:
        return "file does not end with the (empty) extra lease block"
    if p < l2 and st.at(DATA_OFFSET + p) != _model_byte(dl, off, ln, p):
        return "byte at probe wrong (a new share must start empty)"
    if not exists:
        for i in range(4):
            got = X.rec_values(st, X.HEADER_SIZE + i * MLEASE, ">LL32s32s20s")
            if got[0] != 0:
                return "new container has a non-empty lease slot"
    return True


def h_create(off: int, ln: int, exp: int, renew: bool) -> bool:
    """
    pre: 0 <= off and 0 <= ln and 0 <= exp < X.U32
    post: _ == True
    """
    return X.guard(_h_create, off, ln, exp, renew)


def _h_create(off, ln, exp, renew):
    # a container as create_mutable_sharefile leaves it: empty byte array, consistent geometry, 4 free lease slots
    from allmydata.storage.lease import LeaseInfo
    X.reset()
    FS.split_hint = DATA_OFFSET
    sf = mut.create_mutable_sharefile(PATH, X.NODEID, X.WE_GOOD, PARENT)
    st = FS.get(PATH)
    bad, elo = _check_header(st, 0)
    if bad:
        return "fresh container: " + bad
    (cnt,) = X.rec_values(st, elo, ">L")
    if cnt != 0 or st.size != elo + 4:
        return "fresh container must end with an empty extra-lease block"
    if sf.readv([(off, ln)]) != [b""] or sf.get_length() != 0:
        return "fresh container must read as empty"
    if list(sf.get_leases()) != []:
        return "fresh container has leases"
    li = LeaseInfo(3, X.tok("R", 1), X.tok("C", 1), exp, X.NODEID)
    if renew:
        sf.add_or_renew_lease(0, li)
    else:
        sf.add_lease(0, li)
    got = X.rec_values(st, X.HEADER_SIZE, ">LL32s32s20s")
    if got != (3, exp, X.hashed(2, X.tok("R", 1)), X.hashed(2, X.tok("C", 1)), X.NODEID):
        return "first lease of a fresh container must go into in-header slot 0 (no space needed)"
    (cnt,) = X.rec_values(st, elo, ">L")
    if cnt != 0 or st.size != elo + 4 or _check_header(st, 0)[0]:
        return "adding the first lease disturbed the container geometry"
    return True
