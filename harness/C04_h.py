"""
C04 — random-access and concurrent immutable reads.

 * DownloadNode.read: clipping of (offset, size) at end of file.
 * Segmentation (one per read): which segment is requested, how the delivered segment is trimmed, how the
   read advances, guessed-segment-size retry, pause / stop.
 * DecryptingConsumer: the AES-CTR counter is positioned from the read offset.
 * LiteralFileNode.read: slice of the embedded data.
 * The per-node segment request queue shared by concurrent reads: get_segment / _cancel_request /
   process_blocks->_deliver / fetch_failed, one step from an arbitrary queue.
Ciphertext is a provenance buffer: byte i of a delivered segment is ("ct", file offset).
"""
from vlib import hlib
from vlib.hlib import ProvBuf, NS, assume
hlib.ensure_shims()
from twisted.internet import defer
from twisted.python.failure import Failure
from allmydata.immutable.downloader import node as node_mod, segmentation as seg_mod
from allmydata.immutable.downloader.common import BadSegmentNumberError, WrongSegmentError
from allmydata.immutable import filenode as filenode_mod, literal as literal_mod
from allmydata.interfaces import DownloadStopped
from allmydata.util import spans as spans_mod

B = hlib.bounds()
NOTES = [
    "time.time (`now`) in downloader.node / downloader.segmentation / immutable.filenode replaced by a deterministic counter (only feeds status events)",
    "allmydata.util.log.msg replaced by a no-op returning a log number in downloader.node / downloader.segmentation (keyword-style logging)",
    "foolscap eventually() replaced in downloader.node and downloader.segmentation by a harness-owned FIFO queue drained explicitly",
    "downloader.node.Segmentation replaced by a recorder in the read-clipping obligation; SegmentFetcher replaced by a recorder (segnum, stopped) in the queue obligations",
    "DownloadNode._decode_blocks/_check_ciphertext_hash replaced by an already-fired Deferred carrying (offset, segment, decodetime) in the queue delivery obligation (decoding is C01/C02)",
    "aes.create_decryptor/decrypt_data in immutable.filenode replaced by a recorder (identity cipher that counts keystream bytes)",
    "literal.BytesIO replaced by a reader over a provenance buffer; twisted FileSender is real",
    "the node that answers Segmentation.get_segment is a model: segment k of a file of size F with segment size S is bytes [k*S, min((k+1)*S, F))",
]


class _FakeLog(object):
    def __getattr__(self, name):
        return getattr(_real_log, name)

    def msg(self, *a, **kw):
        return 0

    def err(self, *a, **kw):
        return 0


from allmydata.util import log as _real_log
node_mod.log = _FakeLog()
seg_mod.log = _FakeLog()

EVQ = []


def _eventually(f, *a, **kw):
    EVQ.append((f, a, kw))


def _drain():
    n = 0
    while EVQ:
        (f, a, kw) = EVQ.pop(0)
        f(*a, **kw)
        n += 1
        if n > 1000:
            raise hlib.HarnessError("eventual queue does not drain")


node_mod.eventually = _eventually
seg_mod.eventually = _eventually

CLOCK = [0]


def _now():
    CLOCK[0] += 1
    return float(CLOCK[0])


node_mod.now = _now
seg_mod.now = _now
filenode_mod.now = _now

# Segmentation is driven only through its public surface (start / the Deferreds returned by the node's get_segment /
# pauseProducing / resumeProducing / stopProducing); its private methods are looked up by name only to strip their log
# statements and to record what was executed, so an internal re-organisation is decided, not a harness error.
from _stripall import strip_all
strip_all(seg_mod.Segmentation)
hlib.encoded(spans_mod.overlap)


def _collect(d):
    """results of an already-fired Deferred as a list; CrossHair's control-flow exceptions (BaseException, which
    Twisted's bare `except:` captures into a Failure) are re-raised so a solver 'unknown' is never mistaken for
    behaviour of the code under test."""
    out = []
    d.addBoth(out.append)
    return _sane(out)


def _sane(out):
    for r in out:
        if isinstance(r, Failure) and not isinstance(r.value, Exception):
            raise r.value
    return out


class _ReadEv(object):
    def __init__(self):
        self.updates = []
        self.done = 0

    def update(self, nbytes, decrypttime, pausetime):
        self.updates.append(nbytes)

    def finished(self, when):
        self.done += 1


class _DS(object):
    def __init__(self):
        self.read_events = []
        self.seg_events = []

    def add_read_event(self, offset, size, when):
        ev = _ReadEv()
        self.read_events.append((offset, size, ev))
        return ev

    def add_segment_request(self, segnum, when):
        ev = _SegEv(segnum)
        self.seg_events.append(ev)
        return ev

    def add_misc_event(self, *a):
        pass


class _SegEv(object):
    def __init__(self, segnum):
        self.segnum = segnum
        self.log = []

    def activate(self, when):
        self.log.append("activate")

    def deliver(self, when, offset, length, decodetime):
        self.log.append(("deliver", offset, length))

    def error(self, when):
        self.log.append("error")


# ---- DownloadNode.read clipping --------------------------------------------------

class _RecSegmentation(object):
    made = []

    def __init__(self, node, offset, size, consumer, read_ev, logparent=None):
        self.args = (node, offset, size, consumer, read_ev)
        _RecSegmentation.made.append(self)

    def start(self):
        return defer.succeed(self.args[3])


def h_node_read_clip(F: int, offset: int, size: int, size_none: bool) -> bool:
    """
    pre: F >= 1 and offset >= 0 and size >= 0
    post: _ == True
    """
    ds = _DS()
    nd = node_mod.DownloadNode.__new__(node_mod.DownloadNode)
    nd._verifycap = NS(size=F, storage_index=b"\x00" * 16)
    nd._download_status = ds
    nd._history = None
    nd._lp = 0
    consumer = NS()
    _RecSegmentation.made = []
    saved = node_mod.Segmentation
    node_mod.Segmentation = _RecSegmentation
    try:
        d = nd.read(consumer, offset, None if size_none else size)
    finally:
        node_mod.Segmentation = saved
    out = _collect(d)
    if len(out) != 1 or out[0] is not consumer:
        return "read Deferred must fire with the consumer"
    # independent statement of the clipping rule
    if offset >= F:
        want = 0
    else:
        rest = F - offset
        want = rest if (size_none or size > rest) else size
    if len(ds.read_events) != 1 or ds.read_events[0][0] != offset or ds.read_events[0][1] != want:
        return "read event does not carry the clipped range"
    ev = ds.read_events[0][2]
    if ev.done != 1:
        return "read event not finished exactly once"
    if want == 0:
        if _RecSegmentation.made:
            return "a read of nothing must not start a Segmentation (no producer is registered)"
        return True
    if len(_RecSegmentation.made) != 1:
        return "exactly one Segmentation per read"
    (n_, o_, s_, c_, e_) = _RecSegmentation.made[0].args
    if n_ is not nd or o_ != offset or s_ != want or c_ is not consumer or e_ is not ev:
        return "Segmentation not created for [offset, offset+clipped size)"
    if o_ + s_ > F:
        return "range runs past EOF"
    return True


# ---- Segmentation against a model node -------------------------------------------

class _ModelNode(object):
    """file of F ciphertext bytes, true segment size S; learns its segment size with the first segment."""

    def __init__(self, F, S, guessed, known):
        self.F, self.S = F, S
        self._verifycap = NS(size=F)
        self.segment_size = S if known else None
        self.guessed_segment_size = guessed
        self._si_prefix = "si"
        self.requests = []
        self.cancelled = []
        self.hold = False          # True: do not answer (the request stays outstanding)
        self.pending = []

    def get_segment(self, segnum, lp=None):
        self.requests.append(segnum)
        d = defer.Deferred()
        c = node_mod.Cancel(self.cancelled.append)
        if self.hold:
            self.pending.append((segnum, d, c))
            return (d, c)
        self._answer(segnum, d)
        return (d, c)

    def _answer(self, segnum, d):
        # the real node has parsed the UEB by the time any segment is delivered or refused
        self.segment_size = self.S
        start = segnum * self.S
        if segnum < 0 or start >= self.F:
            d.errback(Failure(BadSegmentNumberError("segnum too large")))
            return
        end = start + self.S
        if end > self.F:
            end = self.F
        d.callback((start, ProvBuf.src("ct", end - start, start), 0.0))


class _Consumer(object):
    def __init__(self, pause_at=None, stop_at=None):
        self.writes = []
        self.producer = None
        self.registered = 0
        self.unregistered = 0
        self.pause_at = pause_at
        self.stop_at = stop_at
        self.requests_seen_at_pause = None
        self.node = None

    def registerProducer(self, p, streaming):
        self.producer = p
        self.streaming = streaming
        self.registered += 1

    def unregisterProducer(self):
        self.unregistered += 1

    def write(self, data):
        self.writes.append(data)
        if self.pause_at is not None and len(self.writes) == self.pause_at:
            self.producer.pauseProducing()
        if self.stop_at is not None and len(self.writes) == self.stop_at:
            self.producer.stopProducing()


def _check_stream(writes, offset, total, p):
    """the concatenation of the writes is file[offset : offset+total]; checked at output index p"""
    pos = 0
    hit = None
    for w in writes:
        n = len(w)
        if n <= 0:
            return "empty write"
        if pos <= p and p < pos + n:
            hit = w.at(p - pos)
        pos = pos + n
    if pos != total:
        return "delivered %s bytes in total, wanted another amount"
    if 0 <= p and p < total:
        if hit != ("ct", offset + p):
            return "byte p of the output is not byte offset+p of the file"
    return True


def _segs_pre(F, S, offset, size, maxsegs):
    """the read [offset, offset+size) touches at most maxsegs segments of size S (keeps the loop short)"""
    if not (1 <= S and 1 <= F and 0 <= offset and 1 <= size and offset + size <= F):
        return False
    return offset + size <= (offset - offset % S) + maxsegs * S


def h_segmentation_known(F: int, S: int, offset: int, size: int, p: int) -> bool:
    """
    pre: B.get("S") is None or S == B["S"]
    pre: _segs_pre(F, S, offset, size, B.get("maxsegs", 2))
    post: _ == True
    """
    # the node already knows the real segment size
    node = _ModelNode(F, S, S, True)
    cons = _Consumer()
    ev = _ReadEv()
    del EVQ[:]
    s = seg_mod.Segmentation(node, offset, size, cons, ev)
    out = _collect(s.start())
    _drain()
    _sane(out)
    if len(out) != 1 or out[0] is not cons:
        return "read did not complete with the consumer"
    r = _check_stream(cons.writes, offset, size, p)
    if r is not True:
        return r
    # segments requested: exactly the segments overlapping the range, in order, each once
    first = offset // S
    last = (offset + size - 1) // S
    want = [first + i for i in range(last - first + 1)]
    if node.requests != want:
        return "requested segments are not floor(offset/S) .. floor((offset+size-1)/S) in order"
    if cons.registered != 1 or cons.unregistered != 1 or cons.streaming is not True:
        return "producer registration"
    tot = 0
    for u in ev.updates:
        tot = tot + u
    if tot != size:
        return "read event byte count"
    return True


def h_segmentation_guess(F: int, S: int, G: int, offset: int, size: int, p: int) -> bool:
    """
    pre: B.get("S") is None or S == B["S"]
    pre: B.get("G") is None or G == B["G"]
    pre: 1 <= G
    pre: _segs_pre(F, S, offset, size, B.get("maxsegs", 2))
    pre: (not B.get("bad_guess")) or (offset > 0 and (offset // G) * S >= F)
    post: _ == True
    """
    # the node only has a guessed segment size G (any value) until the first answer arrives
    # (bad_guess: the guessed segment number lies beyond the last real segment => BadSegmentNumberError, then one retry)
    node = _ModelNode(F, S, G, False)
    cons = _Consumer()
    ev = _ReadEv()
    del EVQ[:]
    s = seg_mod.Segmentation(node, offset, size, cons, ev)
    out = _collect(s.start())
    _drain()
    _sane(out)
    if cons.unregistered != 1:
        return "read with a guessed segment size never finished (producer still registered: the read hangs)"
    if len(out) != 1 or out[0] is not cons:
        return "read with a guessed segment size did not complete (one retry is allowed after a wrong guess): %r" % (out,)
    r = _check_stream(cons.writes, offset, size, p)
    if r is not True:
        return r
    if len(node.requests) < 1:
        return "no request"
    g = 0 if offset == 0 else offset // G
    if node.requests[0] != g:
        return "first request is not the guessed segment"
    first = offset // S
    last = (offset + size - 1) // S
    want = [first + i for i in range(last - first + 1)]
    rest = node.requests if g == first else node.requests[1:]
    if rest != want:
        return "after at most one wrong guess the right segments are requested in order"
    return True


def h_segmentation_wrong_segment(F: int, S: int, offset: int, size: int, seg_start: int, seg_len: int) -> bool:
    """
    pre: 1 <= S and 1 <= F and 0 <= offset and 1 <= size and offset + size <= F
    pre: 0 <= seg_start and 0 <= seg_len
    pre: not (seg_start <= offset < seg_start + seg_len)
    post: _ == True
    """
    # a node (whose segment size is known, so no retry is allowed) hands over a segment that does not contain
    # the first wanted byte: nothing may be written, the read must fail with WrongSegmentError
    node = _ModelNode(F, S, S, True)
    def _answer(segnum, d):
        if len(node.requests) > 1:
            d.errback(Failure(BadSegmentNumberError("only one answer in this scenario")))
        else:
            d.callback((seg_start, ProvBuf.src("ct", seg_len, seg_start), 0.0))
    node._answer = _answer
    cons = _Consumer()
    del EVQ[:]
    s = seg_mod.Segmentation(node, offset, size, cons, _ReadEv())
    out = _collect(s.start())
    _drain()
    _sane(out)
    if cons.writes:
        return "data from a segment that does not hold the wanted byte was written"
    if len(out) != 1 or not isinstance(out[0], Failure) or not out[0].check(WrongSegmentError):
        return "wrong segment must fail the read"
    if len(node.requests) != 1:
        return "retried although the segment size was not a guess"
    return True


def h_segmentation_pause_stop(F: int, S: int, offset: int, size: int, stop: bool, p: int) -> bool:
    """
    pre: B.get("S") is None or S == B["S"]
    pre: _segs_pre(F, S, offset, size, 2)
    pre: offset // S != (offset + size - 1) // S
    post: _ == True
    """
    # the read spans two segments; the consumer pauses (or stops) inside its first write()
    node = _ModelNode(F, S, S, True)
    cons = _Consumer(pause_at=None if stop else 1, stop_at=1 if stop else None)
    del EVQ[:]
    s = seg_mod.Segmentation(node, offset, size, cons, _ReadEv())
    out = _collect(s.start())
    _drain()
    _sane(out)
    if len(cons.writes) != 1 or len(node.requests) != 1:
        return "a paused/stopped read fetched or wrote more"
    first_len = len(cons.writes[0])
    if stop:
        if len(out) != 1 or not isinstance(out[0], Failure) or not out[0].check(DownloadStopped):
            return "stopped read must fail with DownloadStopped"
        if cons.unregistered != 1:
            return "producer not unregistered after stop"
        s.resumeProducing()
        _drain()
        _sane(out)
        if len(cons.writes) != 1 or len(node.requests) != 1:
            return "a stopped read came back to life"
        return True
    if out:
        return "paused read finished"
    s.resumeProducing()
    _drain()
    _sane(out)
    if len(out) != 1 or out[0] is not cons:
        return "resumed read did not complete"
    return _check_stream(cons.writes, offset, size, p)


def h_segmentation_stop_outstanding(F: int, S: int, offset: int, size: int) -> bool:
    """
    pre: 1 <= S and 1 <= F and 0 <= offset and 1 <= size and offset + size <= F
    post: _ == True
    """
    # stopProducing while the segment request is outstanding: the request is cancelled (exactly that one)
    node = _ModelNode(F, S, S, True)
    node.hold = True
    cons = _Consumer()
    del EVQ[:]
    s = seg_mod.Segmentation(node, offset, size, cons, _ReadEv())
    out = _collect(s.start())
    if out or len(node.pending) != 1:
        return "request should be outstanding"
    s.stopProducing()
    _drain()
    _sane(out)
    (segnum, d, c) = node.pending[0]
    if node.cancelled != [c] or c.active:
        return "outstanding segment request not cancelled exactly once"
    if len(out) != 1 or not isinstance(out[0], Failure) or not out[0].check(DownloadStopped):
        return "stopped read must fail with DownloadStopped"
    if cons.writes:
        return "wrote after stop"
    return True


# ---- DecryptingConsumer: AES-CTR counter positioned from the read offset ----------

class _FakeAES(object):
    """identity 'cipher' that records how the keystream is positioned and consumed"""

    def __init__(self):
        self.created = []

    def create_decryptor(self, key, iv):
        dec = NS(key=key, iv=iv, pos=0, calls=[])
        self.created.append(dec)
        return dec

    def decrypt_data(self, dec, data):
        n = len(data)
        dec.calls.append((dec.pos, n))
        # "plaintext" = the data itself plus the keystream position it met (relative to the IV block)
        out = ("PT", dec.pos, data)
        dec.pos = dec.pos + n
        return out


_dc_init = hlib.encoded(filenode_mod.DecryptingConsumer.__init__)
hlib.encoded(filenode_mod.DecryptingConsumer.write, filenode_mod.ImmutableFileNode.read)


def h_decrypting_consumer(offset: int, n1: int, n2: int) -> bool:
    """
    pre: B.get("offset_min", 0) <= offset <= B.get("offset_max", 255) and 0 <= n1 and 0 <= n2
    post: _ == True
    """
    fake = _FakeAES()
    saved = filenode_mod.aes
    filenode_mod.aes = fake
    inner = _Consumer()
    try:
        dc = filenode_mod.DecryptingConsumer(inner, b"K" * 16, offset)
        if len(fake.created) != 1:
            return "exactly one decryptor"
        dec = fake.created[0]
        if dec.key != b"K" * 16 or not isinstance(dec.iv, bytes) or len(dec.iv) != 16:
            return "decryptor key / 16-byte IV"
        block = int.from_bytes(dec.iv, "big")
        skipped = dec.pos
        # AES-CTR: keystream byte for file offset x is byte x%16 of block x//16 (big-endian counter)
        if not (0 <= skipped and skipped < 16):
            return "more than a block skipped"
        if block * 16 + skipped != offset:
            return "counter not positioned at the read offset"
        # ciphertext then flows through in order: file byte offset+i meets keystream position offset+i
        dc.write(ProvBuf.src("ct", n1, offset))
        dc.write(ProvBuf.src("ct", n2, offset + n1))
    finally:
        filenode_mod.aes = saved
    if len(inner.writes) != 2:
        return "each ciphertext chunk produces one plaintext write"
    (t1, pos1, d1) = inner.writes[0]
    (t2, pos2, d2) = inner.writes[1]
    if block * 16 + pos1 != offset or block * 16 + pos2 != offset + n1:
        return "keystream position drifts from the file offset"
    if len(d1) != n1 or len(d2) != n2 or (n1 > 0 and d1.at(0) != ("ct", offset)) or (n2 > 0 and d2.at(n2 - 1) != ("ct", offset + n1 + n2 - 1)):
        return "ciphertext not passed through unchanged"
    return True


def h_filenode_read(offset: int, size: int, size_none: bool) -> bool:
    """
    pre: 0 <= offset <= 64 and 0 <= size
    post: _ == True
    """
    # ImmutableFileNode.read: decryptor for THIS read's offset, the same (offset, size) passed to the ciphertext node,
    # result is the caller's consumer; two reads get two independent decryptors
    fake = _FakeAES()
    saved = filenode_mod.aes
    filenode_mod.aes = fake
    calls = []

    class _CNode(object):
        def read(self, consumer, offset, size):
            calls.append((consumer, offset, size))
            return defer.succeed(consumer)
    fn = filenode_mod.ImmutableFileNode.__new__(filenode_mod.ImmutableFileNode)
    fn._cnode = _CNode()
    fn._readkey = b"K" * 16
    c1, c2 = _Consumer(), _Consumer()
    try:
        o1 = _collect(fn.read(c1, offset, None if size_none else size))
        o2 = _collect(fn.read(c2, 0, 5))
    finally:
        filenode_mod.aes = saved
    if o1 != [c1] or o2 != [c2]:
        return "read must fire with the caller's consumer"
    if len(calls) != 2 or len(fake.created) != 2:
        return "one decrypting consumer per read"
    (dc1, off1, sz1) = calls[0]
    if off1 != offset or sz1 != (None if size_none else size):
        return "ciphertext read range differs from the requested range"
    if not isinstance(dc1, filenode_mod.DecryptingConsumer) or dc1._consumer is not c1 or dc1._decryptor is not fake.created[0]:
        return "decrypting consumer wiring"
    d0 = fake.created[0]
    if int.from_bytes(d0.iv, "big") * 16 + d0.pos != offset:
        return "decryptor not positioned at this read's offset"
    d1 = fake.created[1]
    if int.from_bytes(d1.iv, "big") != 0 or d1.pos != 0 or calls[1][0]._decryptor is not d1:
        return "second read shares state with the first"
    return True


# ---- LiteralFileNode.read --------------------------------------------------------

class _PBReader(object):
    def __init__(self, data):
        self.data = data
        self.pos = 0

    def read(self, n):
        r = self.data[self.pos:self.pos + n]
        self.pos = self.pos + len(r)
        return r


hlib.encoded(literal_mod.LiteralFileNode.read)


def h_literal_read(L: int, offset: int, size: int, size_none: bool, p: int) -> bool:
    """
    pre: 0 <= L <= B.get("lit_max", 55) and 0 <= offset and 0 <= size
    post: _ == True
    """
    node = literal_mod.LiteralFileNode.__new__(literal_mod.LiteralFileNode)
    node.u = NS(data=ProvBuf.src("lit", L, 0))
    cons = _Consumer()
    saved = literal_mod.BytesIO
    literal_mod.BytesIO = _PBReader
    try:
        d = node.read(cons, offset, None if size_none else size)
        out = []
        d.addBoth(out.append)
        _sane(out)
        # FileSender is a pull producer: the consumer asks for each chunk
        if cons.streaming is not False:
            return "literal read registers a pull producer"
        n = 0
        while not out and n < 4:
            cons.producer.resumeProducing()
            n += 1
        _sane(out)
    finally:
        literal_mod.BytesIO = saved
    if len(out) != 1 or out[0] is not cons:
        return "literal read did not complete with the consumer"
    if offset >= L:
        want = 0
    else:
        rest = L - offset
        want = rest if (size_none or size > rest) else size
    total = 0
    hit = None
    for w in cons.writes:
        if total <= p and p < total + len(w):
            hit = w.at(p - total)
        total = total + len(w)
    if total != want:
        return "literal read length is not the clipped size"
    if 0 <= p and p < want and hit != ("lit", offset + p):
        return "literal read byte p is not data[offset+p]"
    return True


# ---- the per-node segment request queue shared by concurrent reads ------------------

class _RecFetcher(object):
    made = []

    def __init__(self, node, segnum, k, lp):
        self.segnum = segnum
        self.stopped = 0
        self.shares_added = 0
        _RecFetcher.made.append(self)

    def add_shares(self, shares):
        self.shares_added += 1

    def stop(self):
        self.stopped += 1


node_mod.SegmentFetcher = _RecFetcher
strip_all(node_mod.DownloadNode)
hlib.encoded(node_mod.DownloadNode._deliver, node_mod.DownloadNode._extract_requests, node_mod.DownloadNode._cancel_request,
             node_mod.Cancel.cancel)


def _queue_node(segnums, active):
    """a node with one queued request per entry of `segnums`; the fetcher works on the head of the queue
    when active is True (the reachable shape: _start_new_segment always picks the first request)"""
    nd = node_mod.DownloadNode.__new__(node_mod.DownloadNode)
    nd._verifycap = NS(size=10 ** 6, needed_shares=3, total_shares=10, storage_index=b"\x00" * 16)
    nd._download_status = _DS()
    nd._lp = 0
    nd._shares = set()
    nd._segment_requests = []
    nd._active_segment = None
    _RecFetcher.made = []
    del EVQ[:]
    reqs = []
    for sn in segnums:
        d = defer.Deferred()
        c = node_mod.Cancel(nd._cancel_request)
        ev = _SegEv(sn)
        res = []
        d.addBoth(res.append)
        nd._segment_requests.append((sn, d, c, ev, 0))
        reqs.append(NS(segnum=sn, d=d, c=c, ev=ev, res=res))
    if active and segnums:
        nd._active_segment = _RecFetcher(nd, segnums[0], 3, 0)
    return nd, reqs


def _segnums(n, a, b, c, d):
    return [a, b, c, d][:n]


def _queue_inv(nd):
    """shape invariant: a fetcher is active iff requests are queued, and it serves the head request's segment...
    (after a cancel the active fetcher may serve a later request's segment: it must serve SOME queued segment)"""
    if nd._segment_requests:
        if nd._active_segment is None:
            return "requests queued but nothing is being fetched"
        ok = False
        for t in nd._segment_requests:
            if t[0] == nd._active_segment.segnum:
                ok = True
        if not ok:
            return "the active fetch serves no queued request"
    else:
        if nd._active_segment is not None:
            return "a fetch is active although nobody waits"
    return True


def h_queue_get_segment(n: int, a: int, b: int, c: int, segnum: int) -> bool:
    """
    pre: 0 <= n <= 3 and a >= 0 and b >= 0 and c >= 0 and segnum >= 0
    post: _ == True
    """
    sn = _segnums(n, a, b, c, 0)
    nd, reqs = _queue_node(sn, True)
    before = list(nd._segment_requests)
    act = nd._active_segment
    (d, cn) = nd.get_segment(segnum)
    res = []
    d.addBoth(res.append)
    _drain()
    if res:
        return "new request fired at once"
    for r in reqs:
        if r.res:
            return "another reader's request fired"
    if nd._segment_requests[:len(before)] != before or len(nd._segment_requests) != len(before) + 1:
        return "queue order disturbed"
    last = nd._segment_requests[-1]
    if last[0] != segnum or last[1] is not d or last[2] is not cn or not cn.active:
        return "request not queued as (segnum, d, cancel)"
    if n > 0:
        if nd._active_segment is not act or act.stopped:
            return "running fetch disturbed by a new request"
        if len(_RecFetcher.made) != 1:
            return "second fetch started concurrently"
    else:
        if nd._active_segment is None or nd._active_segment.segnum != segnum or nd._active_segment.shares_added != 1:
            return "first request must start a fetch for its segment"
    return _queue_inv(nd)


def h_queue_cancel(n: int, a: int, b: int, c: int, d: int, i: int, active_idx: int) -> bool:
    """
    pre: 1 <= n <= B.get("nreq", 4) and a >= 0 and b >= 0 and c >= 0 and d >= 0
    pre: 0 <= i < n and 0 <= active_idx < n
    post: _ == True
    """
    sn = _segnums(n, a, b, c, d)
    nd, reqs = _queue_node(sn, False)
    # the active fetch serves the segment of one of the queued requests (head of the queue, or a later one after
    # earlier cancels / deliveries)
    act = _RecFetcher(nd, sn[active_idx], 3, 0)
    nd._active_segment = act
    _RecFetcher.made = []
    victim = reqs[i]
    victim.c.cancel()
    _drain()
    for r in reqs:
        if r.res:
            return "cancel fired a Deferred (the cancelled one must never fire, the others not yet)"
    want = [r for (j, r) in enumerate(reqs) if j != i]
    got = nd._segment_requests
    if len(got) != len(want):
        return "cancel removed a different number of requests"
    for (t, r) in zip(got, want):
        if t[1] is not r.d or t[2] is not r.c or t[0] != r.segnum:
            return "cancel disturbed another reader's request"
    if victim.c.active:
        return "cancelled handle still active"
    for r in want:
        if not r.c.active:
            return "another reader's cancel handle was deactivated"
    still_wanted = False
    for r in want:
        if r.segnum == act.segnum:
            still_wanted = True
    if still_wanted:
        if act.stopped or nd._active_segment is not act or _RecFetcher.made:
            return "fetch stopped although another reader wants that segment"
    else:
        if act.stopped != 1:
            return "fetch for a segment nobody wants keeps running"
        if want:
            if len(_RecFetcher.made) != 1 or nd._active_segment is not _RecFetcher.made[0] or nd._active_segment.segnum != want[0].segnum:
                return "next fetch must serve the head of the remaining queue"
        elif nd._active_segment is not None or _RecFetcher.made:
            return "fetch active with an empty queue"
    # cancelling twice is harmless
    victim.c.cancel()
    if len(nd._segment_requests) != len(want):
        return "second cancel changed the queue"
    return _queue_inv(nd)


def h_queue_deliver(n: int, a: int, b: int, c: int, d: int, fail: bool, late_cancel: int, seglen: int) -> bool:
    """
    pre: 1 <= n <= B.get("nreq", 4) and a >= 0 and b >= 0 and c >= 0 and d >= 0
    pre: -1 <= late_cancel < n and seglen >= 1
    post: _ == True
    """
    # the active fetch (head request's segment) completes: process_blocks -> _deliver, or fetch_failed
    sn = _segnums(n, a, b, c, d)
    nd, reqs = _queue_node(sn, True)
    act = nd._active_segment
    seg = sn[0]
    result = (seg * 100, ProvBuf.src("ct", seglen, seg * 100), 0.0)
    _RecFetcher.made = []
    if fail:
        f = Failure(RuntimeError("no shares"))
        act.segnum = seg
        nd.fetch_failed(act, f)
    else:
        nd._decode_blocks = lambda segnum, blocks: defer.succeed(("decoded", segnum))
        nd._check_ciphertext_hash = lambda res, segnum: result
        nd.process_blocks(seg, {})
    # a reader may cancel between the segment's arrival and the eventual-send delivery
    if late_cancel >= 0:
        reqs[late_cancel].c.cancel()
    _drain()
    for (j, r) in enumerate(reqs):
        _sane(r.res)
        if r.segnum == seg and j != late_cancel:
            if len(r.res) != 1:
                return "a reader waiting for the delivered segment did not get exactly one answer"
            if fail:
                if not isinstance(r.res[0], Failure) or r.res[0] is not f:
                    return "reader did not get the fetch failure"
            elif r.res[0] is not result:
                return "reader did not get the segment"
        else:
            if r.res:
                return "a cancelled reader or a reader of another segment was answered"
    remaining = [r for (j, r) in enumerate(reqs) if r.segnum != seg and j != late_cancel]
    got = nd._segment_requests
    if len(got) != len(remaining):
        return "queue after delivery is not exactly the requests for other segments"
    for (t, r) in zip(got, remaining):
        if t[1] is not r.d:
            return "queue order/content disturbed by delivery"
    if remaining:
        na = nd._active_segment
        if na is None or na is act:
            return "no new fetch started for the remaining requests"
        served = False
        for r in remaining:
            if r.segnum == na.segnum:
                served = True
        if not served:
            return "new fetch serves nobody"
    elif nd._active_segment is not None:
        return "fetch active with an empty queue"
    return True
