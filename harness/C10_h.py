"""
C10 — mutable reads return only published versions: the validation gates of the servermap updater and of
Retrieve (mutable/servermap.py, mutable/retrieve.py) under ideal crypto.
"""
from vlib import hlib
from vlib.hlib import assume, NS
hlib.ensure_shims()
import _merkle as M
from twisted.internet import defer
from twisted.python.failure import Failure
from allmydata import hashtree
from allmydata.crypto.error import BadSignature
from allmydata.util import cputhreadpool
from allmydata.mutable import servermap as sm_mod, retrieve as rt_mod
from allmydata.mutable.servermap import ServermapUpdater, ServerMap
from allmydata.mutable.retrieve import Retrieve
from allmydata.mutable.common import CorruptShareError
from allmydata.mutable.layout import MDMF_VERSION, SDMF_VERSION

B = hlib.bounds()
M.install(hashtree)
NOTES = [M.MODEL_NOTE, M.B32_NOTE,
         "ideal crypto: hashutil.ssk_pubkey_fingerprint_hash / ssk_writekey_hash / block_hash in mutable.servermap and mutable.retrieve map a symbolic "
         "content id injectively to a hash id; decrypt_privkey returns the (symbolic) plaintext the adversary's ciphertext decrypts to",
         "rsa.verify_signature replaced by an oracle with a symbolic outcome per call (records key, signature, message); "
         "rsa.create_verifying_key_from_string / create_signing_keypair_from_string return tagged tuples",
         "cputhreadpool._DISABLED = True (the module's own switch): defer_to_thread runs the function synchronously",
         "time in mutable.retrieve / mutable.servermap replaced by a constant clock"]

cputhreadpool._DISABLED = True
CMAX = 4


class CID(bytes):
    """opaque content identified by a symbolic content id (keys, blocks, salts)"""

    def __new__(cls, cid, n=16, second=None):
        o = bytes.__new__(cls, b"")
        o.cid, o.n, o.second = cid, n, second
        return o

    def __len__(self):
        return self.n

    def __add__(self, other):
        # salt + block (MDMF): the pair is the content
        if isinstance(other, CID) and self.second is None and other.second is None:
            return CID(self.cid, self.n + other.n, second=other.cid)
        raise hlib.HarnessError("CID concatenation not modelled")

    __hash__ = None


def _cid_of(x):
    if not isinstance(x, CID):
        raise hlib.HarnessError("ideal hash on unmodelled data %r" % (type(x),))
    if x.second is None:
        return x.cid                         # [0, CMAX)
    return CMAX + x.cid * CMAX + x.second    # [CMAX, CMAX + CMAX*CMAX): disjoint from single contents


def _h_fingerprint(pubkey_s):
    return M.sym(1 + _cid_of(pubkey_s), 0)


def _h_writekey(privkey_s):
    return M.sym(1 + _cid_of(privkey_s), 0)


HB = 9       # block-hash ids live in [HB, HB + CMAX + CMAX*CMAX) = [9, 29): leaf-like (below K0), apart from the empty-leaf constants
assert HB + CMAX + CMAX * CMAX <= M.K0


def _h_block(data):
    return M.sym(HB + _cid_of(data), 0)


class _RSA(object):
    """ideal signature scheme: the outcome of each verification is a symbolic Boolean supplied by the harness"""
    calls = []
    outcomes = []

    @staticmethod
    def verify_signature(pubkey, signature, message):
        i = len(_RSA.calls)
        _RSA.calls.append((pubkey, signature, message))
        if i >= len(_RSA.outcomes):
            raise hlib.HarnessError("more signature checks than modelled")
        if not _RSA.outcomes[i]:
            raise BadSignature()

    @staticmethod
    def create_verifying_key_from_string(s):
        return ("verifier", s)

    @staticmethod
    def create_signing_keypair_from_string(s):
        return (("signer", s), ("verifier-of", s))


_DECRYPT = {}


def _decrypt_privkey(writekey, enc_privkey):
    _DECRYPT["args"] = (writekey, enc_privkey)
    return _DECRYPT["plaintext"]


_clock = NS(time=lambda: 0.0)
sm_mod.hashutil = NS(ssk_pubkey_fingerprint_hash=_h_fingerprint, ssk_writekey_hash=_h_writekey)
sm_mod.rsa = _RSA
sm_mod.decrypt_privkey = _decrypt_privkey
sm_mod.time = _clock
rt_mod.hashutil = NS(ssk_writekey_hash=_h_writekey, block_hash=_h_block)
rt_mod.rsa = _RSA
rt_mod.decrypt_privkey = _decrypt_privkey
rt_mod.time = _clock

U_setpub = hlib.strip_logs(ServermapUpdater._try_to_set_pubkey)
U_sig = hlib.strip_logs(ServermapUpdater._got_signature_one_share)
U_priv = hlib.strip_logs(ServermapUpdater._try_to_validate_privkey)
U_corrupt = hlib.strip_logs(ServermapUpdater._got_corrupt_share)
R_priv = hlib.strip_logs(Retrieve._try_to_validate_privkey)
R_validate = hlib.strip_logs(Retrieve._validate_block)
hlib.encoded(ServermapUpdater._make_verinfo_hashable, ServermapUpdater._deserialize_pubkey, ServerMap.add_new_share,
             ServerMap.mark_bad_share, ServerMap.get_bad_shares, hashtree.IncompleteHashTree.set_hashes,
             hashtree.IncompleteHashTree.needed_hashes)


def _real(x, lo, hi):
    for c in range(lo, hi):
        if x == c:
            return c
    raise hlib.HarnessError("value outside its precondition range")


def _result(d):
    out = []
    d.addCallbacks(lambda r: out.append(("ok", r)), lambda f: out.append(("err", f)))
    if not out:
        raise hlib.HarnessError("Deferred did not fire synchronously")
    if out[0][0] == "err" and not isinstance(out[0][1].value, Exception):
        raise out[0][1].value          # CrossHair control-flow exception captured by twisted
    return out[0]


class _Node(object):
    def __init__(self, fingerprint=None, writekey=None, pubkey=None):
        self._fp, self._wk, self._pubkey = fingerprint, writekey, pubkey
        self._privkey = None
        self._encprivkey = None

    def get_pubkey(self):
        return self._pubkey

    def get_fingerprint(self):
        return self._fp

    def get_writekey(self):
        return self._wk

    def _populate_pubkey(self, k):
        self._pubkey = k

    def _populate_privkey(self, k):
        self._privkey = k

    def _populate_encprivkey(self, k):
        self._encprivkey = k


class _Server(object):
    def __init__(self, name):
        self.name = name
        self.advised = []

    def get_name(self):
        return self.name

    def get_serverid(self):
        return self.name

    def get_storage_server(self):
        return self

    def advise_corrupt_share(self, *a):
        self.advised.append(a)

    def __repr__(self):
        return "<srv %s>" % self.name


# ---- 1. public key must match the fingerprint in the cap --------------------------------------------

def h_pubkey(p: int, g: int, already: bool) -> bool:
    """
    pre: 0 <= p < CMAX and 0 <= g < CMAX
    post: _ == True
    """
    old = ("verifier", "old")
    node = _Node(fingerprint=_h_fingerprint(CID(g)), pubkey=old if already else None)
    up = NS(_node=node)
    up._deserialize_pubkey = lambda s: ServermapUpdater._deserialize_pubkey(up, s)
    offered = CID(p)
    try:
        U_setpub(up, offered, _Server("s"), 3, 0)
    except CorruptShareError as e:
        if already:
            return "raised although the node already has a validated key"
        if p == g:
            return "the genuine public key was rejected"
        if node.get_pubkey() is not None:
            return "rejected key was stored"
        if e.shnum != 3:
            return "error names the wrong share"
        return True
    if already:
        if node.get_pubkey() is not old:
            return "validated key replaced"
        return True
    if not (p == g):
        return "accepted a public key whose fingerprint is not the cap's"
    k = node.get_pubkey()
    if not (isinstance(k, tuple) and k[0] == "verifier" and k[1] is offered):
        return "stored key is not the deserialisation of the validated string"
    return True


# ---- 2. signature over the signed prefix --------------------------------------------------------------

def _verinfo(which, off_variant):
    """two versions that differ in every signed field, plus a variant that differs only in the (unsigned) offsets"""
    prefix = [b"prefix-A", b"prefix-B"][which]
    offsets = {"signature": 10, "share_hash_chain": 20 + off_variant}
    return (1 + which, [b"rootA", b"rootB"][which], [b"saltA", b"saltB"][which], 36, 100, 3, 10, prefix, offsets)


def h_signature(which: int, offv: int, a_valid: bool, b_valid: bool, verify_ok: bool, marked_bad: bool, running: bool) -> bool:
    """
    pre: 0 <= which <= 1 and 0 <= offv <= 1
    post: _ == True
    """
    which = _real(which, 0, 2)
    offv = _real(offv, 0, 2)
    _RSA.calls = []
    _RSA.outcomes = [verify_ok]
    pub = ("verifier", "node-key")
    node = _Node(pubkey=pub)
    servermap = ServerMap()
    srv, other = _Server("s"), _Server("t")
    up = NS(_node=node, _running=running, _servermap=servermap, _valid_versions=set(), _servers_with_shares=set())
    up._make_verinfo_hashable = lambda v: ServermapUpdater._make_verinfo_hashable(up, v)
    vA = up._make_verinfo_hashable(_verinfo(0, 0))
    vB = up._make_verinfo_hashable(_verinfo(1, 0))
    if a_valid:
        up._valid_versions.add(vA)
    if b_valid:
        up._valid_versions.add(vB)
    if marked_bad:
        servermap.mark_bad_share(srv, 5, b"old-checkstring")
    servermap.add_new_share(other, 5, vB, 1.0)
    mine_raw = _verinfo(which, offv)
    mine = up._make_verinfo_hashable(mine_raw)
    sig = b"signature-bytes"
    results = [(True, None), (True, mine_raw), (True, sig), (True, None), (True, None)]
    before_valid = set(up._valid_versions)
    was_valid = mine in before_valid
    try:
        r = U_sig(up, results, 5, srv, 0)
    except CorruptShareError as e:
        if not running:
            return "raised although the updater is stopped"
        if was_valid or verify_ok:
            return "share with a valid signature rejected"
        if up._valid_versions != before_valid:
            return "version with an invalid signature entered _valid_versions"
        if (srv, 5) in servermap._known_shares:
            return "share with an invalid signature entered the servermap"
        if len(_RSA.calls) != 1:
            return "rejected without checking the signature"
        return True
    if not running:
        if r is not None or up._valid_versions != before_valid or (srv, 5) in servermap._known_shares or _RSA.calls:
            return "stopped updater touched its state"
        return True
    if r != mine:
        return "did not return the verinfo"
    # accepted: justified by an earlier verification of exactly this verinfo, or by a verification now
    if was_valid:
        if _RSA.calls:
            return "re-verified an already valid version (harmless but unexpected)"
    else:
        if len(_RSA.calls) != 1:
            return "accepted a new version without exactly one signature check"
        (k, s, m) = _RSA.calls[0]
        if k is not pub or s is not sig or m != mine[7]:
            return "signature check not over (node pubkey, share's signature, share's signed prefix)"
        if not verify_ok:
            return "accepted although verification failed"
    if up._valid_versions != before_valid | {mine}:
        return "_valid_versions is not old + this version"
    if marked_bad:
        if (srv, 5) in servermap._known_shares or (srv, 5) not in servermap.get_bad_shares():
            return "share marked bad entered the servermap"
    else:
        if servermap._known_shares.get((srv, 5), (None,))[0] != mine:
            return "share not recorded with its verinfo"
        if srv not in up._servers_with_shares:
            return "server not recorded"
    if servermap._known_shares.get((other, 5), (None,))[0] != vB:
        return "another server's entry was changed"
    return True


# ---- 3. private key validated against the write key -----------------------------------------------------

def h_privkey_sm(p: int, g: int) -> bool:
    """
    pre: 0 <= p < CMAX and 0 <= g < CMAX
    post: _ == True
    """
    wk = _h_writekey(CID(g))
    node = _Node(writekey=wk)
    status = NS(frm=[])
    status.set_privkey_from = lambda s: status.frm.append(s)
    up = NS(_node=node, _need_privkey=True, _status=status)
    enc = CID(7, 40)
    plain = CID(p, 40)
    _DECRYPT.clear()
    _DECRYPT["plaintext"] = plain
    srv = _Server("s")
    U_priv(up, enc, srv, 2, 0)
    if _DECRYPT.get("args") is None or _DECRYPT["args"][0] is not wk or _DECRYPT["args"][1] is not enc:
        return "did not decrypt the offered ciphertext with the node's writekey"
    if node._privkey is None:
        if p == g:
            return "the genuine private key was rejected"
        if node._encprivkey is not None or not up._need_privkey or status.frm:
            return "rejected private key left traces"
        return True
    if not (p == g):
        return "accepted a private key whose hash is not the writekey"
    if node._privkey != ("signer", plain) or node._privkey[1] is not plain or node._encprivkey is not enc:
        return "stored keys are not the validated ones"
    if up._need_privkey or status.frm != [srv]:
        return "bookkeeping not updated"
    return True


def h_privkey_rt(p: int, g: int, verify: bool) -> bool:
    """
    pre: 0 <= p < CMAX and 0 <= g < CMAX
    post: _ == True
    """
    wk = _h_writekey(CID(g))
    node = _Node(writekey=wk)
    servermap = ServerMap()
    rt = NS(_node=node, _need_privkey=True, _verify=verify, servermap=servermap, verinfo=(1, b"r", b"s", 1, 1, 1, 1, b"prefix", ()),
            _bad_shares=set())
    enc = CID(7, 40)
    plain = CID(p, 40)
    _DECRYPT.clear()
    _DECRYPT["plaintext"] = plain
    srv = _Server("s")
    reader = NS(shnum=4)
    (kind, res) = _result(R_priv(rt, enc, reader, srv))
    if kind != "ok":
        return "privkey validation raised %r" % (res.value,)
    if _DECRYPT.get("args") is None or _DECRYPT["args"][0] is not wk or _DECRYPT["args"][1] is not enc:
        return "did not decrypt the offered ciphertext with the node's writekey"
    if node._privkey is None:
        if p == g:
            return "the genuine private key was rejected"
        if node._encprivkey is not None or not rt._need_privkey:
            return "rejected private key left traces"
        if verify:
            if servermap.get_bad_shares().get((srv, 4)) != b"prefix" or len(rt._bad_shares) != 1:
                return "verify mode: bad privkey not recorded as a bad share"
        elif servermap.get_bad_shares() or rt._bad_shares:
            return "non-verify mode marked the share bad"
        return True
    if not (p == g):
        return "accepted a private key whose hash is not the writekey"
    if node._privkey[1] is not plain or node._encprivkey is not enc or rt._need_privkey:
        return "stored keys are not the validated ones"
    return True


# ---- 4. block / share hash validation in Retrieve ---------------------------------------------------------

VT = B.get("vtier", 2)
VMAX = M.kmax(VT)


def h_validate_block(mdmf: bool, shnum: int, segnum: int, other: int, gb0: int, gb1: int, gs0: int, gs1: int,
                     b: int, s: int, bstate: int, a0: int, a1: int, a2: int, short: bool,
                     m: int, q0: int, v0: int, q1: int, v1: int, x0: bool) -> bool:
    """
    pre: 0 <= shnum <= 1 and 0 <= segnum < B["nseg"] and 1 <= other < M.K0
    pre: all(0 <= x < CMAX for x in (gb0, gb1, gs0, gs1, b, s))
    pre: 0 <= bstate <= 3 and 0 <= m <= 2 and 0 <= q0 <= 3 and 0 <= q1 <= 3
    pre: all(1 <= x < VMAX for x in (a0, a1, a2, v0, v1))
    pre: B.get("m") is None or m == B["m"]
    pre: B.get("bstate") is None or bstate == B["bstate"]
    pre: B.get("shnum") is None or shnum == B["shnum"]
    pre: B.get("mdmf") is None or mdmf == B["mdmf"]
    pre: B.get("x0") is None or x0 == B["x0"]
    post: _ == True
    """
    nseg = B["nseg"]
    shnum = _real(shnum, 0, 2)
    segnum = _real(segnum, 0, nseg)
    bstate = _real(bstate, 0, 4)
    m = _real(m, 0, 3)
    GB, GS = [gb0, gb1][:nseg], [gs0, gs1][:nseg]
    # genuine block hash tree of this share: leaf i = H(salt_i + block_i) (MDMF) or H(block_i) (SDMF)
    leaves = [_h_block(CID(GS[i], 16) + CID(GB[i], 20)) if mdmf else _h_block(CID(GB[i], 20)) for i in range(nseg)]
    gen_b = hashtree.HashTree(leaves)
    sleaves = [M.sym(other, 0), M.sym(other, 0)]
    sleaves[shnum] = gen_b[0]
    gen_s = hashtree.HashTree(sleaves)
    sht = hashtree.IncompleteHashTree(2)
    sht.set_hashes({0: gen_s[0]})           # root_hash from the signed verinfo
    if x0:                                  # both share leaves already validated (by the other share's chain)
        sht[1], sht[2] = gen_s[1], gen_s[2]
    A = [a0, a1, a2][:len(gen_b)]
    bht = hashtree.IncompleteHashTree(nseg)
    if bstate == 1:                         # validated earlier for another segment: genuine family state
        for i in range(len(gen_b)):
            bht[i] = gen_b[i]
    elif bstate == 2:
        # left over from an earlier FAILED validation of this share number: the block hash tree has no trusted root when
        # the share's block hashes are fed to it, so ANY self-consistent tree stays behind (set_hashes is all-or-nothing)
        if len(gen_b) == 1:
            bht[0] = M.sym(A[0], VT)
        else:
            bht[1], bht[2] = M.sym(A[1], VT), M.sym(A[2], VT)
            bht[0] = M.ideal_pair_hash(bht[1], bht[2])
    elif bstate == 3:                       # ... or just an arbitrary root
        bht[0] = M.sym(A[0], VT)
    nbh = len(gen_b) - 1 if short else len(gen_b)
    blockhashes = [M.sym(x, VT) for x in A][:nbh]
    Q, V = [_real(q, 0, 4) for q in (q0, q1)[:m]], [v0, v1]
    sharehashes = {}
    for j in range(m):
        sharehashes[Q[j]] = M.sym(V[j], VT)
    block, salt = CID(b, 20), CID(s, 16)
    srv = _Server("s")
    reader = NS(shnum=shnum)
    status = NS(add_fetch_timing=lambda *a: None)
    rt = NS(_status=status, _set_current_status=lambda *a: None, _block_hash_trees={shnum: bht}, share_hash_tree=sht,
            _version=MDMF_VERSION if mdmf else SDMF_VERSION)
    sht_before = list(sht)
    (kind, res) = _result(R_validate(rt, ((block, salt), blockhashes, sharehashes), segnum, reader, srv, 0.0))
    if kind == "err":
        if not isinstance(res.value, CorruptShareError):
            return "validation failed with %s instead of CorruptShareError" % type(res.value).__name__
        if not M.tree_unchanged(sht_before, sht):
            return "rejected, but the share hash tree changed"
        return True            # (acceptance of genuine shares is the separate obligation h_validate_genuine)
    if res is None or list(res.keys()) != [shnum]:
        return "unexpected result"
    (rb, rs) = res[shnum]
    if rb is not block or rs is not salt:
        return "returned something other than the validated block and salt"
    if not (b == GB[segnum]):
        return "accepted a block that is not the published block"
    if mdmf and not (s == GS[segnum]):
        return "accepted a salt that is not the published salt (MDMF)"
    if not M.tree_genuine(gen_s, sht) or not M.tree_genuine(gen_b, bht):
        return "accepted, but a hash tree holds a non-genuine node"
    if sht.get_leaf(shnum) is None or bht[0] is None:
        return "accepted without anchoring the block hash tree in the share hash tree"
    return True


def h_validate_genuine(mdmf: bool, shnum: int, segnum: int, other: int, gb0: int, gb1: int, gs0: int, gs1: int,
                       seen_before: bool, x0: bool, with_leaf: bool) -> bool:
    """
    pre: 0 <= shnum <= 1 and 0 <= segnum < B["nseg"] and 1 <= other < M.K0
    pre: all(0 <= x < CMAX for x in (gb0, gb1, gs0, gs1))
    post: _ == True
    """
    nseg = B["nseg"]
    shnum = _real(shnum, 0, 2)
    segnum = _real(segnum, 0, nseg)
    GB, GS = [gb0, gb1][:nseg], [gs0, gs1][:nseg]
    leaves = [_h_block(CID(GS[i], 16) + CID(GB[i], 20)) if mdmf else _h_block(CID(GB[i], 20)) for i in range(nseg)]
    gen_b = hashtree.HashTree(leaves)
    sleaves = [M.sym(other, 0), M.sym(other, 0)]
    sleaves[shnum] = gen_b[0]
    gen_s = hashtree.HashTree(sleaves)
    sht = hashtree.IncompleteHashTree(2)
    sht.set_hashes({0: gen_s[0]})
    if x0:
        sht[1], sht[2] = gen_s[1], gen_s[2]
    bht = hashtree.IncompleteHashTree(nseg)
    if seen_before:
        for i in range(len(gen_b)):
            bht[i] = gen_b[i]
    # what a genuine share supplies: the whole block hash tree; the share hash chain = sibling leaf, with or without its own
    # leaf (SDMF publishers omit it, it is recomputed from the block hash tree)
    blockhashes = list(gen_b)
    sharehashes = {2 - shnum: gen_s[2 - shnum]}
    if with_leaf:
        sharehashes[1 + shnum] = gen_s[1 + shnum]
    block, salt = CID(GB[segnum], 20), CID(GS[segnum], 16)
    rt = NS(_status=NS(add_fetch_timing=lambda *a: None), _set_current_status=lambda *a: None, _block_hash_trees={shnum: bht},
            share_hash_tree=sht, _version=MDMF_VERSION if mdmf else SDMF_VERSION)
    (kind, res) = _result(R_validate(rt, ((block, salt), blockhashes, sharehashes), segnum, NS(shnum=shnum), _Server("s"), 0.0))
    if kind == "err":
        return "a completely genuine share was rejected: %r" % (res.value,)
    if list(res.keys()) != [shnum] or res[shnum][0] is not block or res[shnum][1] is not salt:
        return "unexpected result"
    if bht.needed_hashes(segnum, include_leaf=True) or sht.needed_hashes(shnum, include_leaf=True):
        return "validated share leaves hashes still needed"
    return True


# ---- 5. Retrieve reads through the proxies whose prefix the servermap update validated -------------------------

R_setup = hlib.strip_logs(Retrieve._setup_download)
R_decode = hlib.strip_logs(Retrieve._decode_blocks)


class _FreshProxy(object):
    """stands for a newly built MDMFSlotReadProxy: it would parse whatever header the server returns NOW"""
    made = []

    def __init__(self, storage_server, storage_index, shnum, data, *a, **kw):
        self.shnum = shnum
        self.fresh = True
        _FreshProxy.made.append(self)


def h_setup_download(k: int, a0: bool, a1: bool, a2: bool, b0: bool, b1: bool, b2: bool,
                     e0: bool, e1: bool, e2: bool, f0: bool, f1: bool, f2: bool, other_version: bool) -> bool:
    """
    pre: 1 <= k <= 3
    post: _ == True
    """
    k = _real(k, 1, 4)
    N = 3
    SI = b"storage-index"
    verinfo = (5, b"R" * 32, b"IV-of-the-signed-prefix", 36, 100, k, N, b"signed-prefix", (("signature", 10),))
    old = (4, b"O" * 32, b"old-IV", 36, 100, k, N, b"old-prefix", (("signature", 10),))
    servermap = ServerMap()
    srvA, srvB = _Server("A"), _Server("B")
    HOLD = {srvA: [a0, a1, a2], srvB: [b0, b1, b2]}
    EVERY = {srvA: [e0, e1, e2], srvB: [f0, f1, f2]}
    validated = {}
    for srv in (srvA, srvB):
        for sh in range(N):
            if HOLD[srv][sh]:
                servermap.add_new_share(srv, sh, verinfo, 1.0)
                # invariant of ServermapUpdater._got_results: every share it records has its proxy (the one whose prefix
                # and signature were checked) cached under (verinfo, serverid, storage_index, shnum)
                px = NS(shnum=sh, validated_for=(srv, sh), _data_is_everything=EVERY[srv][sh], fresh=False)
                servermap.proxies[(verinfo, srv.get_serverid(), SI, sh)] = px
                validated[(srv, sh)] = px
    if other_version:
        srvC = _Server("C")
        servermap.add_new_share(srvC, 0, old, 1.0)
        servermap.proxies[(old, "C", SI, 0)] = NS(shnum=0, validated_for=(srvC, 0), _data_is_everything=True, fresh=False)
    _FreshProxy.made = []

    class NotEnough(Exception):
        pass

    def raise_not_enough():
        raise NotEnough()
    rt = NS(_status=NS(set_status=lambda s: None), verinfo=verinfo, servermap=servermap, _storage_index=SI, readers={},
            _total_shares=N, _num_segments=2, _raise_notenoughshareserror=raise_not_enough)
    saved = rt_mod.MDMFSlotReadProxy
    rt_mod.MDMFSlotReadProxy = _FreshProxy
    held = set(sh for sh in range(N) if HOLD[srvA][sh] or HOLD[srvB][sh])
    assume(len(held) >= 1)      # a Retrieve is only created for a version that the servermap lists
    try:
        try:
            R_setup(rt)
        finally:
            rt_mod.MDMFSlotReadProxy = saved
    except NotEnough:
        if len(held) >= k:
            return "NotEnoughShares although k distinct shares of the version are known"
        return True
    if len(held) < k:
        return "download set up with fewer than k shares"
    if _FreshProxy.made:
        return "a fresh, unvalidated share proxy was built although the validated one is cached (its header/IV is never compared with the verinfo)"
    if set(rt.readers.keys()) != held:
        return "readers are not exactly the share numbers of this version"
    for sh in held:
        r = rt.readers[sh]
        if getattr(r, "fresh", True) or r.validated_for[1] != sh or not HOLD[r.validated_for[0]][sh]:
            return "reader for a share is not a proxy validated for that share"
        if r.server is not r.validated_for[0]:
            return "reader bound to a server other than the one its header was validated from"
        if set(rt.remaining_sharemap[sh]) != set(s for s in (srvA, srvB) if HOLD[s][sh]):
            return "remaining_sharemap wrong"
    if sorted(rt._block_hash_trees.keys()) != list(range(N)) or any(t[0] is not None for t in rt._block_hash_trees.values()):
        return "block hash trees not fresh"
    if rt.share_hash_tree[0] != verinfo[1] or any(x is not None for x in rt.share_hash_tree[1:]):
        return "share hash tree not seeded with exactly the signed root hash"
    return True


def h_decode_salt(nshares: int, k: int, tail: bool) -> bool:
    """
    pre: 1 <= k <= nshares <= 3
    post: _ == True
    """
    k = _real(k, 1, 4)
    nshares = _real(nshares, k, 4)
    salts = [CID(i, 16) for i in range(nshares)]
    blocks = [CID(i, 20) for i in range(nshares)]
    results = [{sh: (blocks[sh], salts[sh])} for sh in range(nshares)]
    seen = {}

    class Dec(object):
        def __init__(self, name):
            self.name = name

        def decode(self, shares, shareids):
            seen["call"] = (self.name, list(shares), list(shareids))
            return defer.succeed([b"abcd", b"efgh"])
    rt = NS(_set_current_status=lambda s: None, _required_shares=k, _num_segments=2, _tail_decoder=Dec("tail"), _segment_decoder=Dec("seg"),
            _data_length=100, _tail_data_size=5, _segment_size=6, _status=NS(accumulate_decode_time=lambda t: None))
    (kind, res) = _result(R_decode(rt, results, 1 if tail else 0))
    if kind != "ok":
        return "decode failed: %r" % (res.value,)
    (segment, salt) = res
    if not any(salt is s for s in salts):
        return "salt handed to decryption is not the salt of a validated share"
    (name, shares, shareids) = seen["call"]
    if name != ("tail" if tail else "seg") or len(shares) != k or len(shareids) != k:
        return "wrong decoder / not exactly k shares"
    for i in range(k):
        if shares[i] is not blocks[shareids[i]]:
            return "block paired with the wrong share id"
    if segment != (b"abcdefgh"[:5] if tail else b"abcdefgh"[:6]):
        return "segment not trimmed to its size"
    return True
